#!/bin/sh
# Offline setup: build the libTooling exporter and warm the facts cache for all product units.
set -e
cd "$(dirname "$0")"
mkdir -p .work evidence
python3 -c "
import sys; sys.path.insert(0,'.')
from sa import build
build.ensure_envx()
us = build.all_units()
build.extract_units(us)
print('setup ok: envx built, %d units extracted' % len(us))
"

# shell helpers (source this file): mk / mkb (selftest patch makers), imp / imp2 (import sub-agent seeds), prep (worktree + prompt for a seeding agent)
mk () 
{ 
    python3 - "$@" <<'EOF'
import sys,subprocess,os,shutil,tempfile
pid,rel,name,expect,old,new=sys.argv[1:7]
src='/repo/'+rel
s=open(src).read()
assert s.count(old)==1,(name,s.count(old))
d=tempfile.mkdtemp()
os.makedirs(os.path.dirname(d+'/a/'+rel));os.makedirs(os.path.dirname(d+'/b/'+rel))
open(d+'/a/'+rel,'w').write(s)
open(d+'/b/'+rel,'w').write(s.replace(old,new))
r=subprocess.run(['diff','-u','a/'+rel,'b/'+rel],cwd=d,capture_output=True,text=True)
os.makedirs('/verif/selftest/%s'%pid,exist_ok=True)
open('/verif/selftest/%s/%s.patch'%(pid,name),'w').write('# seeded variant: %s\n# expect: %s\n'%(name,expect)+r.stdout)
shutil.rmtree(d)
EOF

}
mkb () 
{ 
    python3 - "$@" <<'EOF'
import sys,subprocess,os,shutil,tempfile,re
pid,rel,name=sys.argv[1:4]; pairs=[a.split('=') for a in sys.argv[4:]]
s=open('/repo/'+rel).read(); t=s
for a,b in pairs: t=re.sub(r'\b%s\b'%a,b,t)
assert t!=s
d=tempfile.mkdtemp()
os.makedirs(os.path.dirname(d+'/a/'+rel));os.makedirs(os.path.dirname(d+'/b/'+rel))
open(d+'/a/'+rel,'w').write(s); open(d+'/b/'+rel,'w').write(t)
r=subprocess.run(['diff','-u','a/'+rel,'b/'+rel],cwd=d,capture_output=True,text=True)
open('/verif/selftest/%s/benign-%s.patch'%(pid,name),'w').write('# behaviour-preserving variant: locals renamed (%s)\n'%', '.join('%s->%s'%(a,b) for a,b in pairs)+r.stdout)
shutil.rmtree(d)
EOF

}
imp () 
{ 
    p=$1;
    for n in 1 2;
    do
        mkdir -p seeded/$p-$n;
        cp -r /tmp/wt/$p/_mut/$n/* seeded/$p-$n/ 2> /dev/null;
        rm -f seeded/$p-$n/demo seeded/$p-$n/*.o;
    done;
    git -C /repo worktree remove --force /tmp/wt/$p
}
imp2 () 
{ 
    p=$1;
    a=$2;
    b=$3;
    mkdir -p seeded/$p-$a seeded/$p-$b;
    cp -r /tmp/wt/$p/_mut/1/* seeded/$p-$a/;
    cp -r /tmp/wt/$p/_mut/2/* seeded/$p-$b/;
    rm -f seeded/$p-$a/demo seeded/$p-$b/demo;
    git -C /repo worktree remove --force /tmp/wt/$p
}
prep () 
{ 
    for p in "$@";
    do
        git -C /repo worktree add --detach /tmp/wt/$p HEAD -q 2>&1 | tail -1;
        python3 tools/agent_prompt.py $p > /tmp/wt/prompt-$p.txt;
        python3 - $p <<'EOF' >> /tmp/wt/prompt-$p.txt
import json,sys,glob
p=sys.argv[1]
print("\nAlready explored by earlier work on this property (do NOT repeat these ideas or close variants of them; pick different functions / clauses / mechanisms). Each line is cut at 400 characters on purpose; the list is complete:")
for d in sorted(glob.glob('/verif/seeded/%s-*'%p)):
    m=json.load(open(d+'/meta.json'))
    print(" - "+m.get('summary','')[:400].replace('\n',' '))
EOF

    done
}
add_seed_selftest () 
{ 
    s=$1;
    pid=$2;
    exp=$3;
    name=$4;
    cp seeded/$s/patch.diff selftest/$pid/seed-$name.patch;
    sed -i "1i # seeded variant (sub-agent $s)\n# expect: $exp" selftest/$pid/seed-$name.patch
}
impall() { # impall Cxx : import every /tmp/wt/Cxx/_mut/N as the next free seeded/Cxx-K, print the new names, remove the worktree
  p=$1; for d in /tmp/wt/$p/_mut/[0-9]*; do [ -f $d/patch.diff ] || continue; k=1; while [ -e seeded/$p-$k ]; do k=$((k+1)); done; mkdir -p seeded/$p-$k; cp -r $d/* seeded/$p-$k/; rm -f seeded/$p-$k/demo seeded/$p-$k/*.o; echo $p-$k; done; git -C /repo worktree remove --force /tmp/wt/$p; }
prepn() { # prepn N Cxx ... : like prep, asking for N changes
  n=$1; shift; for p in "$@"; do git -C /repo worktree add --detach /tmp/wt/$p HEAD -q 2>&1 | tail -1; python3 tools/agent_prompt.py $p $n > /tmp/wt/prompt-$p.txt; python3 - $p <<'PYEOF' >> /tmp/wt/prompt-$p.txt
import json,sys,glob
p=sys.argv[1]
print("\nAlready explored by earlier work on this property (do NOT repeat these ideas or close variants of them; pick different functions / clauses / mechanisms). Each line is cut at 300 characters on purpose; the list is complete:")
for d in sorted(glob.glob('/verif/seeded/%s-*'%p)):
    m=json.load(open(d+'/meta.json'))
    print(" - "+m.get('summary','')[:300].replace('\n',' '))
PYEOF
done; }

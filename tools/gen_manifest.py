#!/usr/bin/env python3
"""Regenerate MANIFEST.json from the property modules under props/ (metadata only)."""
import importlib
import json
import os
import sys

HERE = os.path.dirname(os.path.dirname(os.path.abspath(__file__)))
sys.path.insert(0, HERE)

props = [json.loads(l) for l in open(os.path.join(HERE, 'properties.jsonl'))]
NA = {}
na_file = os.path.join(HERE, 'tools', 'not_applicable.json')
if os.path.exists(na_file):
    NA = json.load(open(na_file))

checks = []
not_applicable = []
served = []
for p in props:
    pid = p['id']
    path = os.path.join(HERE, 'props', pid + '.py')
    if pid in NA or not os.path.exists(path):
        not_applicable.append({'property_id': pid,
                               'reason': NA.get(pid, 'check not built yet; planned rules are described in DESIGN.md section 5')})
        continue
    mod = importlib.import_module('props.' + pid)
    served.append(pid)
    checks.append({
        'property_id': pid,
        'quick_cmd': './check %s --tier quick' % pid,
        'thorough_cmd': './check %s --tier thorough' % pid,
        'evidence_file': 'evidence/%s.json' % pid,
        'replay_cmd_template': './check replay {path}',
        'engine': 'envx+sa',
        'level_claimed': {
            'category': getattr(mod, 'LEVEL', 'other'),
            'text': getattr(mod, 'LEVEL_TEXT', mod.EXPLANATION),
            'design_ref': 'DESIGN.md section 5, ' + pid,
        },
        'level_note': getattr(mod, 'LEVEL_NOTE', 'Trusted: clang 14 front end and CFG builder, the compile database from the '
                              'repository CMake, the envx exporter, the Python rule engines and the frozen slot tables in props/%s.py. ' % pid
                              + ' '.join(getattr(mod, 'ASSUMPTIONS', []))),
        'technique': getattr(mod, 'TECHNIQUE', 'static analysis: custom checker over clang AST/CFG facts'),
    })

manifest = {
    'version': 1,
    'setup_cmd': './setup.sh',
    'hooks': {
        'guard': 'EPHEMERALNET_VERIF',
        'enable': 'no hooks: the checks parse /repo sources with clang (no EphemeralNet code is built or run); '
                  'the guard name is reserved and appears nowhere in /repo',
        'baseline_off_cmd': 'cmake -S /repo -B /repo/_build -G Ninja -DCMAKE_BUILD_TYPE=RelWithDebInfo && '
                            'cmake --build /repo/_build -j16 && ctest --test-dir /repo/_build -j8 --timeout 900',
        'source_commits': [],
        'add_only': True,
    },
    'engines': [
        {'name': 'envx', 'path': 'tools/envx/envx.cc', 'serves_properties': served,
         'kind_free_text': 'libTooling exporter: resolved AST + clang::CFG of every product function, per unit, as JSON'},
        {'name': 'sa', 'path': 'sa/', 'serves_properties': served,
         'kind_free_text': 'Python rule engines over the exported program: must-pass-through / pairing on the CFG, '
                           'provenance, ownership, exception-escape, lockset, linear-inequality abstract interpretation, tables'},
    ],
    'checks': checks,
    'not_applicable': not_applicable,
    'notes': 'Technique family: static analysis only. Exit 0 = all obligations discharged (known findings printed); '
             'exit 1 = VIOLATION; exit 2 = analysis broken (anchor lost / floor not met / parse failure).',
}
json.dump(manifest, open(os.path.join(HERE, 'MANIFEST.json'), 'w'), indent=1)
print('checks:', len(checks), 'not_applicable:', len(not_applicable))

#!/usr/bin/env python3
"""tools/add_fixed.py <pid> <commit> <what> <short line>"""
import json, sys
pid, commit, what, line = sys.argv[1:5]
p = '/verif/known_findings.json'
d = json.load(open(p))
d['fixed'].append({'property': pid, 'commit': commit, 'what': what, 'line': 'fixed: property=%s %s %s' % (pid, commit, line)})
json.dump(d, open(p, 'w'), indent=1)

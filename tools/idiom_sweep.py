#!/usr/bin/env python3
"""Robustness sweep 2: behaviour-preserving idiom swaps on every product unit — `++i` <-> `i++` in for headers and statement
position, `x += 1` -> `++x`, `x.size() == 0` <-> `x.empty()` is NOT touched (different AST), redundant parentheses around
return expressions, `if (!c) {` spacing.  Every check must stay silent.   tools/idiom_sweep.py [pid ...]"""
import importlib, json, os, re, shutil, subprocess, sys
HERE = os.path.dirname(os.path.dirname(os.path.abspath(__file__)))
sys.path.insert(0, HERE)
from sa import selftest, build
from sa.build import AnalysisBroken
from sa.ctx import Check
ov = selftest.make_overlay('idiom-sweep')
n = 0
for unit in build.all_units():
    p = os.path.join(ov, unit)
    s = open(p).read()
    t = s
    t, k1 = re.subn(r';\s*\+\+(\w+)\)\s*\{', r'; \1++) {', t)                 # for (...; ++i) {   ->  i++
    t, k2 = re.subn(r'(?m)^(\s*)\+\+(\w+);$', r'\1\2++;', t)                     # ++x;               ->  x++;
    t, k3 = re.subn(r'(?m)^(\s*)(\w+) \+= 1;$', r'\1++\2;', t)                   # x += 1;            ->  ++x;
    t, k4 = re.subn(r'(?m)^(\s*)return ([A-Za-z_][\w\.\->]*);$', r'\1return (\2);', t)   # return x;  ->  return (x);
    n += k1 + k2 + k3 + k4
    open(p, 'w').write(t)
print('idiom swaps:', n, flush=True)
bad_units = []
for unit in build.all_units():
    r = subprocess.run(['g++', '-std=c++20', '-fsyntax-only', '-I', 'include', '-I', 'src', unit], cwd=ov, capture_output=True, text=True)
    if r.returncode != 0:
        bad_units.append(unit)
print('units that no longer parse:', bad_units, flush=True)
pids = [a for a in sys.argv[1:] if not a.startswith('--')] or [c['property_id'] for c in json.load(open(os.path.join(HERE, 'MANIFEST.json')))['checks']]
bad = {}
for pid in pids:
    mod = importlib.import_module('props.' + pid)
    ck = Check(pid, tier='quick', level='other', repo=ov, quiet=True)
    try:
        mod.run(ck)
        ck.finish()
        new = [o.key for o in ck.result['new']]
        if new:
            bad[pid] = new[:5]
            print(pid, 'ALARM', new[:5], flush=True)
    except AnalysisBroken as e:
        bad[pid] = ['broken: ' + str(e)[:160]]
        print(pid, 'ANALYSIS-BROKEN', str(e)[:160], flush=True)
    except Exception as e:
        bad[pid] = ['crash %r' % e]
        print(pid, 'CRASH %r' % e, flush=True)
if '--keep' not in sys.argv:
    shutil.rmtree(ov, ignore_errors=True)
print('checks with alarms on the idiom-swapped tree:', sorted(bad))

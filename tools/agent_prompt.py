#!/usr/bin/env python3
"""Print the sub-agent prompt for one property (text of the property only; nothing from /verif's checks)."""
import json, sys
pid = sys.argv[1]
N = int(sys.argv[2]) if len(sys.argv) > 2 else 2
NUMS = ', '.join(str(i) for i in range(1, N + 1))
wt = '/tmp/wt/' + pid
p = [json.loads(l) for l in open('/verif/properties.jsonl')]
p = [x for x in p if x['id'] == pid][0]
print(f"""You are working in a scratch git worktree of a C++20 project (EphemeralNet, a peer-to-peer daemon with TTL-bound storage) at {wt}. Work ONLY inside {wt} (plus throw-away files under /tmp/agent-{pid}/). Never read or modify /repo or /verif. There is no network.

Build:  cmake -S {wt} -B {wt}/_build -G Ninja -DCMAKE_BUILD_TYPE=RelWithDebInfo && cmake --build {wt}/_build -j6 -- -k 0
(the target ephemeralnet_cli_fetch_dir_tests does not compile even on the unchanged tree - ignore it.)
Tests:  ctest --test-dir {wt}/_build -j6 --timeout 900     (46 tests pass on the unchanged tree; EphemeralNet.CLIFetchDir is 'Not Run' - pre-existing. If a timing-sensitive test fails once under load, re-run it alone before concluding.)

PROPERTY {pid}: {p['title']}
{p['statement']}
(Quantified over: {(p.get('quantifier') or {}).get('text','')})

TASK: produce {N} independent source changes ("mutations") to the project's product code (src/, include/), each of which BREAKS this property while the project still compiles and all 46 existing tests still pass. I want subtle, realistic regressions - the kind a refactor, an "optimisation", a merge mistake or an incomplete feature would introduce - that need something specific to manifest: a particular interleaving, a crash or fault at a particular point, a multi-step sequence of operations, an unusual input or boundary value, or two cooperating sites that each look fine alone. NOT changes that ordinary use would expose at once, and not changes to tests. The changes must differ from each other in mechanism (different functions and/or a different clause of the property). Keep each change small (a few lines to ~30 lines).

Deliverables, for change N in ({NUMS}): directory {wt}/_mut/N/ containing
 - patch.diff  : output of `git -C {wt} diff` for that change alone, applicable with `git apply` to a clean checkout of HEAD
 - demo.cpp    : a standalone demonstration program that exits 0 on the UNCHANGED tree and exits non-zero (printing what was violated) with the change applied. It is compiled with
                 g++ -std=c++20 -O1 -I{wt}/include -I{wt}/tests -I{wt} demo.cpp {wt}/_build/libephemeralnet_core.a -lpthread -o demo
                 and must finish within 60 s. It may use real sleeps of a few seconds. If the code you change is not part of libephemeralnet_core.a (e.g. src/main.cpp of the CLI, src/relay/*), demo.cpp may #include the needed .cpp files directly (e.g. with `#define main eph_main`), or you may provide demo.sh driving the built binaries instead; state the exact build/run command in meta.json.
 - meta.json   : {{"property": "{pid}", "summary": "<what was changed and where>", "needs": "<what specific input/sequence/interleaving is needed for it to manifest>", "ran": ["<commands you ran and what they showed>"]}}
Verify all of it yourself: on the clean tree the demo exits 0; with the change applied the project compiles, the 46 tests pass, and the demo exits non-zero. At the end leave the worktree source clean (`git -C {wt} checkout -- .`) but keep {wt}/_mut/ and {wt}/_build. Finish with a 5-line report: for each change, file/function touched and whether verified.""")

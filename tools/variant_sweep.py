#!/usr/bin/env python3
"""Run every registered check on one generated behaviour-preserving whole-tree variant (sa/benign.py TRANSFORMS):
tools/variant_sweep.py <kind> [pid ...]      kinds: noop, unbraced, mirrored, inverted"""
import importlib, json, os, sys
HERE = os.path.dirname(os.path.dirname(os.path.abspath(__file__)))
sys.path.insert(0, HERE)
from sa import benign
from sa.build import AnalysisBroken
from sa.ctx import Check
kind = sys.argv[1]
ov, n = benign.transformed_tree(kind)
print('%s: %d edits (%s)' % (kind, n, benign.TRANSFORMS[kind][1]), flush=True)
pids = [a for a in sys.argv[2:] if not a.startswith('--')] or [c['property_id'] for c in json.load(open(os.path.join(HERE, 'MANIFEST.json')))['checks']]
bad = {}
for pid in pids:
    mod = importlib.import_module('props.' + pid)
    ck = Check(pid, tier='quick', level='other', repo=ov, quiet=True)
    try:
        mod.run(ck)
        ck.finish()
        new = [o.key for o in ck.result['new']]
        if new:
            bad[pid] = new[:5]
            print(pid, 'ALARM', new[:5], flush=True)
    except AnalysisBroken as e:
        bad[pid] = ['broken: ' + str(e)[:160]]
        print(pid, 'ANALYSIS-BROKEN', str(e)[:160], flush=True)
    except Exception as e:
        bad[pid] = ['crash %r' % e]
        print(pid, 'CRASH %r' % e, flush=True)
print('checks with alarms on the %s tree:' % kind, sorted(bad))

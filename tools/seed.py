#!/usr/bin/env python3
"""Create a seeded-variant patch for the checker self-test:
   tools/seed.py <pid> <name> <repo-relative file> <old text> <new text> [expect-key ...]
The old text must occur exactly once in the current /repo file."""
import difflib
import os
import sys

pid, name, rel, old, new = sys.argv[1:6]
expects = sys.argv[6:]
path = os.path.join('/repo', rel)
src = open(path).read()
if src.count(old) != 1:
    sys.exit('old text occurs %d times in %s' % (src.count(old), rel))
dst = src.replace(old, new)
diff = difflib.unified_diff(src.splitlines(True), dst.splitlines(True), 'a/' + rel, 'b/' + rel)
out = os.path.join(os.path.dirname(os.path.dirname(os.path.abspath(__file__))), 'selftest', pid)
os.makedirs(out, exist_ok=True)
with open(os.path.join(out, name + '.patch'), 'w') as f:
    f.write('# seeded variant: %s\n' % name)
    for e in expects:
        f.write('# expect: %s\n' % e)
    f.writelines(diff)
print('wrote', os.path.join(out, name + '.patch'))

#!/usr/bin/env python3
"""Robustness sweep 4: braces are dropped from every `if (...) { single-statement; }` without else (three-line form) and from
single-statement for / while bodies.  The AST loses the CompoundStmt; behaviour is unchanged.  Every check must stay silent.
tools/unbrace_sweep.py [pid ...]"""
import importlib, json, os, re, shutil, subprocess, sys
HERE = os.path.dirname(os.path.dirname(os.path.abspath(__file__)))
sys.path.insert(0, HERE)
from sa import selftest, build
from sa.build import AnalysisBroken
from sa.ctx import Check
ov = selftest.make_overlay('unbrace-sweep')
HEAD = re.compile(r'^(?P<ind>\s*)(?P<kw>if|for|while) \((?P<c>.*)\) \{\s*$')
n = 0
bad_units = []
for unit in build.all_units():
    p = os.path.join(ov, unit)
    src = open(p).read()
    lines = src.split('\n')
    out = []
    i = 0
    k = 0
    while i < len(lines):
        m = HEAD.match(lines[i])
        if m and i + 2 < len(lines) and lines[i + 2] == m.group('ind') + '}' and lines[i + 1].startswith(m.group('ind') + '    ') \
                and lines[i + 1].rstrip().endswith(';') and not re.match(r'\s*(if|for|while|do|switch|else|case|default|//|/\*|#)', lines[i + 1]) \
                and not re.match(r'\s*(const |auto |std::|[A-Za-z_:<>]+ [a-z_]+( =|\{|;))', lines[i + 1]) \
                and lines[i + 1].count('(') == lines[i + 1].count(')') and m.group('c').count('(') == m.group('c').count(')') \
                and not (i + 3 < len(lines) and re.match(r'\s*else\b', lines[i + 3])):
            out.append('%s%s (%s)' % (m.group('ind'), m.group('kw'), m.group('c')))
            out.append(lines[i + 1])
            i += 3
            k += 1
            continue
        out.append(lines[i])
        i += 1
    open(p, 'w').write('\n'.join(out))
    r = subprocess.run(['g++', '-std=c++20', '-fsyntax-only', '-I', 'include', '-I', 'src', unit], cwd=ov, capture_output=True, text=True)
    if r.returncode != 0:
        bad_units.append(unit)
        open(p, 'w').write(src)
    else:
        n += k
print('blocks unbraced:', n, flush=True)
print('units left unchanged because the variant no longer parses:', bad_units, flush=True)
pids = [a for a in sys.argv[1:] if not a.startswith('--')] or [c['property_id'] for c in json.load(open(os.path.join(HERE, 'MANIFEST.json')))['checks']]
bad = {}
for pid in pids:
    mod = importlib.import_module('props.' + pid)
    ck = Check(pid, tier='quick', level='other', repo=ov, quiet=True)
    try:
        mod.run(ck)
        ck.finish()
        new = [o.key for o in ck.result['new']]
        if new:
            bad[pid] = new[:5]
            print(pid, 'ALARM', new[:5], flush=True)
        else:
            print(pid, 'silent', flush=True)
    except AnalysisBroken as e:
        bad[pid] = ['broken: ' + str(e)[:160]]
        print(pid, 'ANALYSIS-BROKEN', str(e)[:160], flush=True)
    except Exception as e:
        bad[pid] = ['crash %r' % e]
        print(pid, 'CRASH %r' % e, flush=True)
if '--keep' not in sys.argv:
    shutil.rmtree(ov, ignore_errors=True)
print('checks with alarms on the unbraced tree:', sorted(bad))

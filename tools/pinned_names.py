#!/usr/bin/env python3
"""Regenerate props/pinned_names.json: for every product function (lambdas included) the parameter names and the local
names in declaration order and the comparison expressions as (canonical lhs, operator, canonical rhs), keyed by `qualified name|number of parameters|file`.  Run ONLY on the pinned tree: the file is a
frozen table, committed; sa/prog.py maps a changed tree's names onto it by position (see Program._pin_names)."""
import json, os, sys
os.environ['VERIF_NO_PIN'] = '1'
HERE = os.path.dirname(os.path.dirname(os.path.abspath(__file__)))
sys.path.insert(0, HERE)
from sa import build
from sa.prog import Program
P = Program(build.all_units())
out = {}
for f in P.fns:
    if f.body is None or f.body < 0:
        continue
    key = Program.pin_key(f.q, f)
    ent = {'params': [p.get('n', '') for p in f.params], 'locals': [n for _d, n in Program.local_names(f)], 'cmps': Program.comparison_table(f), 'ifelse': Program.ifelse_table(f)}
    if key in out and out[key] != ent:
        out[key] = {'ambiguous': True}
    else:
        out[key] = ent
json.dump(out, open(os.path.join(HERE, 'props', 'pinned_names.json'), 'w'), indent=0, sort_keys=True)
print(len(out), 'functions,', len([1 for v in out.values() if v.get('ambiguous')]), 'ambiguous keys')

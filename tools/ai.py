#!/usr/bin/env python3
"""tools/ai.py <unit.cpp> <function qname substring> [ptr=len ...]  — run the numeric abstract interpreter on one function and
print its obligations (debugging aid for N1)."""
import os, sys
HERE = os.path.dirname(os.path.dirname(os.path.abspath(__file__)))
sys.path.insert(0, HERE)
from sa.prog import Program
from sa.absint2 import Analyzer, summarize
P = Program([sys.argv[1]])
pairs = dict(a.split('=') for a in sys.argv[3:] if '=' in a)
for f in P.fns:
    if sys.argv[2] in f.q and f.body is not None and f.body >= 0:
        an = Analyzer(P)
        rets = an.run(f, pairs=pairs)
        print('####', f.q, f.loc(), 'returns', len(rets), 'throws', len(an.throws), 'unsupported', an.unsupported[:5])
        for key, e in sorted(summarize(an).items(), key=lambda kv: (kv[1]['fn'].q, kv[1]['fn'].nodes[kv[1]['node']].get('l', 0))):
            st = 'PROVED' if not e['failed'] else 'FAILED'
            print('  %s %s %s n=%d  %s' % (st, e['fn'].loc(e['node']), e['kind'], e['n'], e['desc'][:150]))
            for o in e['failed'][:1]:
                print('       ctx', o.ctx, getattr(o, 'stack', None))

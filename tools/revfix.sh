#!/bin/sh
# tools/revfix.sh <pid> <name> <fix-commit> [expect-key]  — selftest patch = reverse of a fix commit
out=/verif/selftest/$1/$2.patch; mkdir -p /verif/selftest/$1
{ echo "# reverse of the fix $3: $(git -C /repo log -1 --format=%s $3)"; [ -n "$4" ] && echo "# expect: $4"; git -C /repo diff $3 $3~1 -- src include; } > $out
echo wrote $out

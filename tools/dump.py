#!/usr/bin/env python3
"""tools/dump.py <unit> <function qname substring> [line-from line-to]  — print the exported AST of a function."""
import os, sys
HERE = os.path.dirname(os.path.dirname(os.path.abspath(__file__)))
sys.path.insert(0, HERE)
from sa.prog import Program
P = Program([sys.argv[1]])
lo = int(sys.argv[3]) if len(sys.argv) > 3 else 0
hi = int(sys.argv[4]) if len(sys.argv) > 4 else 10**9
for f in P.fns:
    if sys.argv[2] in f.q:
        print('####', f.q, f.loc(), 'params', [(p.get('n'), p.get('t')) for p in f.params])
        def rec(i, ind):
            nd = f.nodes[i]
            l = nd.get('l', 0)
            if lo <= l <= hi or not l:
                extra = {k: v for k, v in nd.items() if k not in ('k', 'c', 'l')}
                print('%s%d %s %s' % ('  ' * ind, i, nd['k'], extra))
            for c in f.kids(i):
                rec(c, ind + 1)
        for r in list(f.d.get('inits', [])) + [f.body]:
            if r is not None and r >= 0:
                rec(r, 0)

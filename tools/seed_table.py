#!/usr/bin/env python3
"""Run every seeded change under /verif/seeded against its own property's check (and against the extra checks listed in
CROSS) on an overlay copy, and write seeded/DETECTION.md + seeded/detection.json.   tools/seed_table.py [Cxx-N ...]"""
import importlib, json, os, shutil, sys, glob
HERE = os.path.dirname(os.path.dirname(os.path.abspath(__file__)))
sys.path.insert(0, HERE)
from sa import selftest
from sa.build import AnalysisBroken
from sa.ctx import Check
CROSS = {'C02-13': ['C06'], 'C14-11': ['C09'], 'C21-13': ['C19'], 'C35-12': ['C23'], 'C26-12': ['C35'], 'C27-13': ['C29'], 'C24-10': ['C03'], 'C22-8': ['C07'], 'C23-9': ['C36'], 'C21-8': ['C02'], 'C21-9': ['C03'], 'C08-9': ['C13'], 'C13-10': ['C08'], 'C12-8': ['C20'], 'C12-9': ['C20'], 'C05-9': ['C06'], 'C39-6': ['C14'], 'C35-6': ['C28'], 'C29-7': ['C01'], 'C24-7': ['C03'], 'C20-7': ['C19'], 'C13-5': ['C08'], 'C13-6': ['C08'], 'C08-6': ['C13'], 'C03-6': ['C01'], 'C11-5': ['C09'], 'C07-5': ['C06'], 'C01-5': ['C02'], 'C05-5': ['C06'], 'C05-6': ['C01'], 'C29-4': ['C01'], 'C35-3': ['C18'], 'C35-4': ['C09'], 'C35-5': ['C14'], 'C16-3': ['C08'], 'C22-3': ['C07'], 'C20-3': ['C19'], 'C11-3': ['C10'], 'C13-2': ['C08'], 'C13-4': ['C08'], 'C26-1': ['C25'], 'C25-2': ['C26'], 'C20-2': ['C12'], 'C12-1': ['C20'], 'C19-1': ['C20'], 'C28-2': ['C19'], 'C35-1': ['C16']}
only = sys.argv[1:]
res_file = os.path.join(HERE, 'seeded', 'detection.json')
res = json.load(open(res_file)) if os.path.exists(res_file) else {}
for d in sorted(glob.glob(os.path.join(HERE, 'seeded', 'C*-*'))):
    name = os.path.basename(d)
    if only and name not in only:
        continue
    meta = json.load(open(os.path.join(d, 'meta.json')))
    pids = [meta['property']] + CROSS.get(name, [])
    ov = selftest.make_overlay('tbl-' + name)
    entry = {'property': meta['property'], 'summary': meta.get('summary', '')[:300], 'results': {}}
    try:
        if not selftest.apply_patch(ov, os.path.abspath(os.path.join(d, 'patch.diff'))):
            entry['results'] = {'*': 'PATCH DOES NOT APPLY'}
        else:
            for pid in pids:
                if not os.path.exists(os.path.join(HERE, 'props', pid + '.py')):
                    entry['results'][pid] = 'no check'
                    continue
                mod = importlib.import_module('props.' + pid)
                ck = Check(pid, tier='quick', level='other', repo=ov, quiet=True)
                try:
                    try:
                        mod.run(ck)
                    except AnalysisBroken:
                        if not ck.new_violations():
                            raise
                    ck.finish()
                    new = ck.result['new']
                    entry['results'][pid] = {'detected': bool(new), 'keys': [o.key for o in new][:6]}
                except AnalysisBroken as e:
                    entry['results'][pid] = {'detected': False, 'analysis_broken': str(e)[:200]}
    finally:
        shutil.rmtree(ov, ignore_errors=True)
    res[name] = entry
    print(name, {k: (v if isinstance(v, str) else ('DETECTED' if v.get('detected') else ('BROKEN ' + v.get('analysis_broken', '') if v.get('analysis_broken') else 'missed'))) for k, v in entry['results'].items()}, flush=True)
    json.dump(res, open(res_file, 'w'), indent=1)
lines = ['# Seeded changes (produced by sub-agents from the property text alone) and the checks that report them', '',
         '| change | property | what was changed | reported by (first keys) |', '|---|---|---|---|']
for name, e in sorted(res.items()):
    cell = []
    for pid, v in e['results'].items():
        if isinstance(v, str):
            cell.append('%s: %s' % (pid, v))
        elif v.get('detected'):
            cell.append('**%s**: %s' % (pid, ', '.join(v['keys'][:3])))
        elif v.get('analysis_broken'):
            cell.append('%s: exit 2 (%s)' % (pid, v['analysis_broken'][:80]))
        else:
            cell.append('%s: missed' % pid)
    lines.append('| %s | %s | %s | %s |' % (name, e['property'], e['summary'].replace('|', '/').replace('\n', ' ')[:200], '; '.join(cell)))
open(os.path.join(HERE, 'seeded', 'DETECTION.md'), 'w').write('\n'.join(lines) + '\n')

#!/usr/bin/env python3
"""tools/mk_benign.py <pid> <unit.cpp> [max]  — write selftest/<pid>/benign-rename-<unit>.patch: a behaviour-preserving
variant of the unit in which local variables (never parameters, fields, globals, lambdas' captures by name clash) are renamed."""
import os, re, subprocess, sys, tempfile, shutil
HERE = os.path.dirname(os.path.dirname(os.path.abspath(__file__)))
sys.path.insert(0, HERE)
from sa.prog import Program
pid, unit = sys.argv[1:3]
limit = int(sys.argv[3]) if len(sys.argv) > 3 else 40
P = Program([unit])
src = open('/repo/' + unit).read()
fields = set()
for r in P.records.values():
    for fl in r.get('fields', []):
        fields.add(fl['n'])
names = {}
for f in P.fns:
    if not f.file.endswith(unit):
        continue
    pd = {p['n'] for p in f.params}
    for i in f.walk():
        nd = f.nodes[i]
        if nd['k'] == 'VarDecl' and nd.get('n') and len(nd['n']) >= 3 and nd['n'] not in pd and not nd.get('static'):
            names[nd['n']] = names.get(nd['n'], 0) + 1
KEYWORDS = {'int', 'for', 'auto', 'std', 'end', 'min', 'max', 'key', 'now', 'size', 'data', 'begin', 'value', 'first', 'second', 'count', 'lock'}
picked = []
for n in sorted(names):
    if n in fields or n in KEYWORDS or n.endswith('_'):
        continue
    # must never be used as a member / qualified name / function in this file, and not be a parameter name anywhere in it
    if re.search(r'(\.|->|::)\s*%s\b' % re.escape(n), src) or re.search(r'\b%s\s*\(' % re.escape(n), src):
        continue
    if any(n == p['n'] for f in P.fns for p in f.params):
        continue
    if re.search(r'\[[^\]]*\b%s\b[^\]]*\]\s*\(' % re.escape(n), src) and False:
        continue
    picked.append(n)
picked = picked[:limit]
t = src
for n in picked:
    t = re.sub(r'(?<![\w"])%s(?![\w"])' % re.escape(n), n + '_rn', t)
d = tempfile.mkdtemp()
for side, text in (('a', src), ('b', t)):
    os.makedirs(os.path.dirname(os.path.join(d, side, unit)))
    open(os.path.join(d, side, unit), 'w').write(text)
r = subprocess.run(['diff', '-u', 'a/' + unit, 'b/' + unit], cwd=d, capture_output=True, text=True)
shutil.rmtree(d)
os.makedirs(os.path.join(HERE, 'selftest', pid), exist_ok=True)
out = os.path.join(HERE, 'selftest', pid, 'benign-rename-%s.patch' % os.path.basename(unit).replace('.cpp', '').lower())
open(out, 'w').write('# behaviour-preserving variant: %d locals of %s renamed (%s)\n' % (len(picked), unit, ', '.join(picked[:12])) + r.stdout)
print(out, len(picked), 'locals renamed')

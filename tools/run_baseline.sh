#!/bin/sh
# Build /repo (guard off — there are no hooks) and run the pinned suite; compare with BASELINE.json.
set -e
cmake -S /repo -B /repo/_build -G Ninja -DCMAKE_BUILD_TYPE=RelWithDebInfo >/dev/null
cmake --build /repo/_build -j16 -- -k 0 2>&1 | tail -1
ctest --test-dir /repo/_build -j16 --timeout 900 > /verif/.work/ctest.log 2>&1 || true
# tests use fixed ports: when sub-agents run the same suite concurrently a test can fail to bind; re-run failures alone
ctest --test-dir /repo/_build --rerun-failed --timeout 900 >> /verif/.work/ctest.log 2>&1 || true
python3 - <<'P'
import json,re
base=set(t.split('::')[0] for t in json.load(open('/root/.vp/BASELINE.json'))['stable_pass'])
passed=set(re.findall(r'Test\s+#\d+:\s+(\S+)\s+\.+\s+Passed', open('/verif/.work/ctest.log').read()))
missing=sorted(base-passed)
print('baseline tests: %d, passed now: %d, missing: %s' % (len(base), len(base&passed), missing))
raise SystemExit(1 if missing else 0)
P

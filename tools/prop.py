#!/usr/bin/env python3
import json, sys
for l in open('/verif/properties.jsonl'):
    p = json.loads(l)
    if p['id'] in sys.argv[1:]:
        print('=====', p['id'], p['title']); print(p['statement']); print('Q:', p['quantifier'].get('text'))
        a = p['anchors']
        for k in ('mechanism', 'state'):
            for m in a.get(k, []):
                print('  ', k, m.get('name'), '@', m.get('where'))
        print('   observe:', a.get('observe_at'))

#!/usr/bin/env python3-vt
"""Validate MANIFEST.json and evidence/*.json against the task schemas."""
import glob, json, sys
import jsonschema
jsonschema.validate(json.load(open('/verif/MANIFEST.json')), json.load(open('/root/.vp/MANIFEST.schema.json')))
n = 0
for f in sorted(glob.glob('/verif/evidence/*.json')):
    jsonschema.validate(json.load(open(f)), json.load(open('/root/.vp/EVIDENCE.schema.json')))
    n += 1
print('manifest ok; %d evidence files ok' % n)

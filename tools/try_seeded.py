#!/usr/bin/env python3
"""Run a property check against a seeded change without touching /repo: overlay copy + patch.
   tools/try_seeded.py seeded/C13-1 [pid ...]      (default pid = property in meta.json)"""
import importlib, json, os, shutil, sys
HERE = os.path.dirname(os.path.dirname(os.path.abspath(__file__)))
sys.path.insert(0, HERE)
from sa import selftest
from sa.build import AnalysisBroken
from sa.ctx import Check

d = sys.argv[1].rstrip('/')
meta = json.load(open(os.path.join(d, 'meta.json')))
pids = sys.argv[2:] or [meta['property']]
patch = os.path.abspath(os.path.join(d, 'patch.diff'))
ov = selftest.make_overlay('try-' + os.path.basename(d))
try:
    if not selftest.apply_patch(ov, patch):
        print('%s: PATCH DOES NOT APPLY' % d)
        sys.exit(3)
    for pid in pids:
        mod = importlib.import_module('props.' + pid)
        ck = Check(pid, tier='quick', level='other', repo=ov, quiet=True)
        try:
            try:
                mod.run(ck)
            except AnalysisBroken:
                if not ck.new_violations():
                    raise
            ck.finish()
            new = ck.result['new']
            print('%s vs %s: %s' % (os.path.basename(d), pid, 'DETECTED' if new else 'missed'))
            for o in new[:5]:
                print('   %s at %s: %s' % (o.key, o.site.replace(ov + '/', ''), o.desc[:150]))
        except AnalysisBroken as e:
            print('%s vs %s: ANALYSIS-BROKEN %s' % (os.path.basename(d), pid, e))
finally:
    shutil.rmtree(ov, ignore_errors=True)

#!/usr/bin/env python3
"""Robustness sweep: build an overlay of /repo in which the local variables of every product unit are renamed (a
behaviour-preserving edit), make sure every renamed unit still parses (envx would fail otherwise), run every registered check
against the overlay and list the checks that raise an alarm.   tools/rename_sweep.py [pid ...]"""
import importlib, json, os, re, shutil, sys
HERE = os.path.dirname(os.path.dirname(os.path.abspath(__file__)))
sys.path.insert(0, HERE)
from sa import selftest, build
from sa.build import AnalysisBroken
from sa.ctx import Check
from sa.prog import Program
KEYWORDS = {'int', 'for', 'auto', 'std', 'end', 'min', 'max', 'key', 'now', 'size', 'data', 'begin', 'value', 'first', 'second', 'count', 'lock', 'it', 'ok'}
units = build.all_units()
ov = selftest.make_overlay('rename-params-sweep')
total = 0
fields = None
for unit in units:
    P = Program([unit])
    if fields is None:
        fields = set()
    for r in P.records.values():
        for fl in r.get('fields', []):
            fields.add(fl['n'])
for unit in units:
    P = Program([unit])
    src = open(os.path.join('/repo', unit)).read()
    names = set()
    params = set()
    for f in P.fns:
        for p in f.params:
            params.add(p['n'])
        if not f.file.endswith(unit):
            continue
        for i in f.walk():
            nd = f.nodes[i]
            if nd['k'] == 'VarDecl' and nd.get('n') and len(nd['n']) >= 3 and not nd.get('static'):
                names.add(nd['n'])
        for p_ in (f.params if f.file.endswith(unit) else []):
            if p_.get('n') and len(p_['n']) >= 3:
                names.add(p_['n'])
        for i in []:
            if False:
                names.add(nd['n'])
    picked = []
    for n in sorted(names):
        if n in fields or n in KEYWORDS or n.endswith('_'):
            continue
        if re.search(r'(\.|->|::)\s*%s\b' % re.escape(n), src) or re.search(r'\b%s\s*\(' % re.escape(n), src) or re.search(r'\.%s\s*=' % re.escape(n), src):
            continue
        if re.search(r'"[^"\n]*\b%s\b[^"\n]*"' % re.escape(n), src):
            continue          # appears inside a string literal: leave alone
        picked.append(n)
    t = src
    for n in picked:
        t = re.sub(r'(?<![\w"])%s(?![\w"])' % re.escape(n), n + '_rn', t)
    open(os.path.join(ov, unit), 'w').write(t)
    total += len(picked)
print('renamed', total, 'locals in', len(units), 'units; overlay', ov, flush=True)
pids = [a for a in sys.argv[1:] if not a.startswith('--')] or [c['property_id'] for c in json.load(open(os.path.join(HERE, 'MANIFEST.json')))['checks']]
bad = {}
for pid in pids:
    mod = importlib.import_module('props.' + pid)
    ck = Check(pid, tier='quick', level='other', repo=ov, quiet=True)
    try:
        mod.run(ck)
        ck.finish()
        new = [o.key for o in ck.result['new']]
        print(pid, 'ALARM %s' % new[:6] if new else 'silent', flush=True)
        if new:
            bad[pid] = new
    except AnalysisBroken as e:
        print(pid, 'ANALYSIS-BROKEN', str(e)[:200], flush=True)
        bad[pid] = ['broken: ' + str(e)[:200]]
    except Exception as e:
        import traceback
        tb = traceback.extract_tb(e.__traceback__)[-1]
        print(pid, 'CRASH %r at %s:%d' % (e, os.path.basename(tb.filename), tb.lineno), flush=True)
        bad[pid] = ['crash: %r' % e]
if '--keep' not in sys.argv: shutil.rmtree(ov, ignore_errors=True)
print('checks with alarms on the renamed tree:', sorted(bad))

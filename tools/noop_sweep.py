#!/usr/bin/env python3
"""Robustness sweep 3: a no-op statement `(void)0;` is inserted at the top of every function / lambda / if / else / for /
while / catch block of every product unit (switch bodies excepted).  Nothing changes behaviour; statement counts, "first
statement of the block" and CFG element positions all shift.  Every check must stay silent.   tools/noop_sweep.py [pid ...]"""
import importlib, json, os, re, shutil, subprocess, sys
HERE = os.path.dirname(os.path.dirname(os.path.abspath(__file__)))
sys.path.insert(0, HERE)
from sa import selftest, build
from sa.build import AnalysisBroken
from sa.ctx import Check
ov = selftest.make_overlay('noop-sweep')
OPEN = re.compile(r'^(?P<ind>\s*)(?!namespace\b|class\b|struct\b|enum\b|union\b|extern\b|switch\b)(?P<body>.*\)\s*(const\s*)?(noexcept\s*)?(override\s*)?(->\s*[\w:<>,\s\*&]+\s*)?\{\s*)$')
ELSE = re.compile(r'^(?P<ind>\s*)\}\s*else\s*\{\s*$')
n = 0
bad_units = []
for unit in build.all_units():
    p = os.path.join(ov, unit)
    src = open(p).read()
    out = []
    k = 0
    for line in src.split('\n'):
        out.append(line)
        m = OPEN.match(line) or ELSE.match(line)
        if m and 'switch (' not in line and 'switch(' not in line and not line.strip().startswith(('//', '*', '#')):
            out.append(m.group('ind') + '    (void)0;')
            k += 1
    open(p, 'w').write('\n'.join(out))
    r = subprocess.run(['g++', '-std=c++20', '-fsyntax-only', '-I', 'include', '-I', 'src', unit], cwd=ov, capture_output=True, text=True)
    if r.returncode != 0:
        bad_units.append(unit)
        open(p, 'w').write(src)
    else:
        n += k
print('no-op statements inserted:', n, flush=True)
print('units left unchanged because the variant no longer parses:', bad_units, flush=True)
pids = [a for a in sys.argv[1:] if not a.startswith('--')] or [c['property_id'] for c in json.load(open(os.path.join(HERE, 'MANIFEST.json')))['checks']]
bad = {}
for pid in pids:
    mod = importlib.import_module('props.' + pid)
    ck = Check(pid, tier='quick', level='other', repo=ov, quiet=True)
    try:
        mod.run(ck)
        ck.finish()
        new = [o.key for o in ck.result['new']]
        if new:
            bad[pid] = new[:5]
            print(pid, 'ALARM', new[:5], flush=True)
        else:
            print(pid, 'silent', flush=True)
    except AnalysisBroken as e:
        bad[pid] = ['broken: ' + str(e)[:160]]
        print(pid, 'ANALYSIS-BROKEN', str(e)[:160], flush=True)
    except Exception as e:
        bad[pid] = ['crash %r' % e]
        print(pid, 'CRASH %r' % e, flush=True)
if '--keep' not in sys.argv:
    shutil.rmtree(ov, ignore_errors=True)
print('checks with alarms on the no-op tree:', sorted(bad))

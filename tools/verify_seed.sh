#!/bin/sh
# Confirm seeded changes: tools/verify_seed.sh seeded/<dir> ...   (serial; one scratch worktree under /tmp)
# For each: patch applies to /repo HEAD, builds, the 46 baseline tests pass, demo exits 0 without and !=0 with the change.
WT=/tmp/seedwt
export EPH_CLI_EXECUTABLE=$WT/_build/eph
git -C /repo worktree remove --force $WT 2>/dev/null
git -C /repo worktree add -q --detach $WT HEAD || exit 1
cmake -S $WT -B $WT/_build -G Ninja -DCMAKE_BUILD_TYPE=RelWithDebInfo >/dev/null
cmake --build $WT/_build -j16 -- -k 0 >/dev/null 2>&1
for d in "$@"; do
  d=$(realpath $d); name=$(basename $d)
  res="$d/verified.txt"; : > $res
  git -C $WT checkout -q -- . 
  if ! git -C $WT apply --check $d/patch.diff 2>>$res; then echo "$name: PATCH DOES NOT APPLY" | tee -a $res; continue; fi
  # demo without the change
  cmake --build $WT/_build -j16 -- -k 0 >/dev/null 2>&1
  (cd $d && g++ -std=c++20 -O1 -I$WT/include -I$WT/tests -I$WT demo.cpp $WT/_build/libephemeralnet_core.a -lpthread -o /tmp/seed_demo_clean 2>>$res)
  (cd $d && timeout 300 /tmp/seed_demo_clean >/dev/null 2>&1); clean=$?
  git -C $WT apply $d/patch.diff
  cmake --build $WT/_build -j16 -- -k 0 2>&1 | grep -E "FAILED" | grep -v cli_fetch_dir >> $res
  ctest --test-dir $WT/_build -j16 --timeout 900 > /tmp/seed_ctest.log 2>&1
  passed=$(grep -cE "Test +#[0-9]+:.*Passed" /tmp/seed_ctest.log)
  if [ "$passed" -lt 46 ]; then ctest --test-dir $WT/_build -j4 --timeout 900 > /tmp/seed_ctest.log 2>&1; passed=$(grep -cE "Test +#[0-9]+:.*Passed" /tmp/seed_ctest.log); fi
  (cd $d && g++ -std=c++20 -O1 -I$WT/include -I$WT/tests -I$WT demo.cpp $WT/_build/libephemeralnet_core.a -lpthread -o /tmp/seed_demo_mut 2>>$res)
  (cd $d && timeout 300 /tmp/seed_demo_mut >/dev/null 2>&1); mut=$?
  echo "$name: tests_passed=$passed demo_clean_exit=$clean demo_mutated_exit=$mut" | tee -a $res
  grep -E "Failed|Timeout" /tmp/seed_ctest.log | head -3 >> $res
done
git -C /repo worktree remove --force $WT
rm -f /tmp/seed_demo_clean /tmp/seed_demo_mut /tmp/seed_ctest.log

// envx — resolved-program exporter for the EphemeralNet static checks.
//
// One process per translation unit.  For every function *defined in a file under
// --root* (including lambdas, constructors, template instantiations and the
// specialisations of generic lambdas) it writes:
//   * the typed AST of the body as a flat node table (resolved callees, referenced
//     declarations, member fields, operators, casts, literals, constant values);
//   * the clang::CFG of the body (all sub-expressions as elements, && / || split,
//     implicit destructors), each element referring to a node of the table.
// Plus: record definitions (fields, types, access), namespace-scope/static variables
// with their initialisers, and enumerators.
//
// Nothing is decided here; the rules live in /verif/sa.  Names are qualified names,
// lines are labels only.
#include "clang/AST/ASTConsumer.h"
#include "clang/AST/ASTContext.h"
#include "clang/AST/DeclCXX.h"
#include "clang/AST/DeclTemplate.h"
#include "clang/AST/ExprCXX.h"
#include "clang/AST/RecursiveASTVisitor.h"
#include "clang/AST/StmtCXX.h"
#include "clang/Analysis/CFG.h"
#include "clang/Frontend/CompilerInstance.h"
#include "clang/Frontend/FrontendAction.h"
#include "clang/Tooling/CompilationDatabase.h"
#include "clang/Tooling/Tooling.h"
#include "llvm/Support/CommandLine.h"
#include "llvm/Support/JSON.h"
#include "llvm/Support/raw_ostream.h"

#include <deque>
#include <map>
#include <set>
#include <string>
#include <vector>

using namespace clang;
namespace json = llvm::json;

static std::string gRoot = "/repo/";
static std::string gOut;

namespace {

struct FnJob {
  const FunctionDecl *FD;
  std::string qname;
  std::string parent;   // enclosing function qname for lambdas
  bool isLambda;
};

class Exporter {
public:
  Exporter(ASTContext &C, llvm::raw_ostream &OS) : Ctx(C), SM(C.getSourceManager()), J(OS, 0) {}

  ASTContext &Ctx;
  SourceManager &SM;
  json::OStream J;
  std::deque<FnJob> jobs;
  std::set<const FunctionDecl *> seenFns;
  std::map<const Decl *, int> declIds;
  PrintingPolicy PP{LangOptions()};

  // ---- helpers -------------------------------------------------------------
  int declId(const Decl *D) {
    if (!D) return -1;
    D = D->getCanonicalDecl();
    auto it = declIds.find(D);
    if (it != declIds.end()) return it->second;
    int id = (int)declIds.size() + 1;
    declIds[D] = id;
    return id;
  }
  std::string fileOf(SourceLocation L) {
    if (L.isInvalid()) return "";
    SourceLocation E = SM.getExpansionLoc(L);
    return SM.getFilename(E).str();
  }
  unsigned lineOf(SourceLocation L) {
    if (L.isInvalid()) return 0;
    return SM.getExpansionLineNumber(L);
  }
  bool inRoot(SourceLocation L) {
    std::string f = fileOf(L);
    return f.compare(0, gRoot.size(), gRoot) == 0;
  }
  std::string typeStr(QualType T) {
    if (T.isNull()) return "";
    return T.getCanonicalType().getAsString(PP);
  }
  std::string sugarStr(QualType T) {
    if (T.isNull()) return "";
    return T.getAsString(PP);
  }
  std::string qnameOf(const NamedDecl *ND) {
    if (!ND) return "";
    if (auto *MD = dyn_cast<CXXMethodDecl>(ND)) {
      if (MD->getParent()->isLambda()) {
        auto it = lambdaNames.find(MD->getParent()->getCanonicalDecl());
        if (it != lambdaNames.end()) return it->second;
      }
    }
    return ND->getQualifiedNameAsString();
  }
  std::map<const Decl *, std::string> lambdaNames;

  // ---- node table ------------------------------------------------------------
  // Nodes are emitted in post-order into a buffer of json::Object, then written.
  std::vector<json::Object> nodes;
  std::map<const Stmt *, int> stmtIds;
  std::string curFn;
  int lambdaOrdinal = 0;
  std::vector<std::string> pendingVarName;  // name of the VarDecl whose init we are in

  void addConst(json::Object &O, const Expr *E) {
    if (!E || E->isValueDependent() || E->isTypeDependent()) return;
    QualType T = E->getType();
    if (T.isNull()) return;
    if (!(T->isIntegralOrEnumerationType())) return;
    Expr::EvalResult R;
    if (E->EvaluateAsInt(R, Ctx, Expr::SE_NoSideEffects, /*InConstantContext=*/false)) {
      llvm::SmallString<40> S;
      R.Val.getInt().toString(S, 10);
      O["cv"] = S.str().str();
    }
  }

  void calleeInfo(json::Object &O, const FunctionDecl *FD) {
    if (!FD) return;
    O["callee"] = qnameOf(FD);
    if (auto *MD = dyn_cast<CXXMethodDecl>(FD)) {
      O["cls"] = MD->getParent()->getQualifiedNameAsString();
      if (MD->isConst()) O["cconst"] = true;
      if (MD->isStatic()) O["cstatic"] = true;
    }
    O["cdecl"] = declId(FD);
    O["cnparams"] = (int)FD->getNumParams();
    {
      json::Array pts;
      for (auto *P : FD->parameters()) pts.push_back(typeStr(P->getType()));
      O["pt"] = std::move(pts);
    }
    if (inRoot(FD->getLocation())) O["crepo"] = true;
    if (auto *FPT = FD->getType()->getAs<FunctionProtoType>())
      if (FPT->isNothrow()) O["cnoexcept"] = true;
    if (FD->getTemplateSpecializationArgs()) {
      std::string s;
      llvm::raw_string_ostream os(s);
      bool first = true;
      for (auto &A : FD->getTemplateSpecializationArgs()->asArray()) {
        if (!first) os << ", ";
        first = false;
        A.print(PP, os, true);
      }
      O["ctargs"] = os.str();
    }
  }

  int emitVarDecl(const VarDecl *VD) {
    json::Object O;
    O["k"] = "VarDecl";
    O["n"] = VD->getNameAsString();
    O["d"] = declId(VD);
    O["t"] = typeStr(VD->getType());
    O["ts"] = sugarStr(VD->getType());
    O["l"] = (int)lineOf(VD->getLocation());
    if (VD->isStaticLocal() || VD->getStorageDuration() == SD_Static) O["static"] = true;
    if (VD->getType().isConstQualified()) O["const"] = true;
    json::Array ch;
    if (auto *DD = dyn_cast<DecompositionDecl>(VD)) {
      json::Array bs;
      for (auto *B : DD->bindings()) {
        json::Object BO;
        BO["n"] = B->getNameAsString();
        BO["d"] = declId(B);
        BO["t"] = typeStr(B->getType());
        bs.push_back(std::move(BO));
      }
      O["bindings"] = std::move(bs);
    }
    if (const Expr *I = VD->getInit()) {
      pendingVarName.push_back(VD->getNameAsString());
      int c = emit(I);
      pendingVarName.pop_back();
      ch.push_back(c);
      O["init"] = c;
    }
    O["c"] = std::move(ch);
    nodes.push_back(std::move(O));
    return (int)nodes.size() - 1;
  }

  int emit(const Stmt *S) {
    if (!S) return -1;
    auto it = stmtIds.find(S);
    if (it != stmtIds.end()) return it->second;
    json::Object O;
    O["k"] = S->getStmtClassName();
    O["l"] = (int)lineOf(S->getBeginLoc());
    json::Array ch;

    std::string varName;
    bool isDirectInit = false;
    if (!pendingVarName.empty()) {
      varName = pendingVarName.back();
      // the name only applies to the outermost wrappers of the initialiser
      if (!(isa<ExprWithCleanups>(S) || isa<ImplicitCastExpr>(S) || isa<MaterializeTemporaryExpr>(S) ||
            isa<CXXBindTemporaryExpr>(S) || isa<CXXConstructExpr>(S) || isa<CXXFunctionalCastExpr>(S) ||
            isa<ParenExpr>(S))) {
        isDirectInit = true;
      }
    }

    if (auto *E = dyn_cast<Expr>(S)) {
      O["t"] = typeStr(E->getType());
      if (E->isLValue()) O["lv"] = true;
    }

    if (auto *DS = dyn_cast<DeclStmt>(S)) {
      std::vector<std::string> saved;
      saved.swap(pendingVarName);
      for (auto *D : DS->decls()) {
        if (auto *VD = dyn_cast<VarDecl>(D)) ch.push_back(emitVarDecl(VD));
      }
      saved.swap(pendingVarName);
    } else if (auto *LE = dyn_cast<LambdaExpr>(S)) {
      std::vector<std::string> saved;
      saved.swap(pendingVarName);
      std::string lname;
      if (!varName.empty())
        lname = curFn + "::$" + varName;
      else
        lname = curFn + "::$" + std::to_string(lambdaOrdinal);
      ++lambdaOrdinal;
      // disambiguate duplicates
      {
        std::string base = lname;
        int n = 2;
        while (usedLambdaNames.count(lname)) lname = base + "#" + std::to_string(n++);
        usedLambdaNames.insert(lname);
      }
      const CXXRecordDecl *RD = LE->getLambdaClass();
      lambdaNames[RD->getCanonicalDecl()] = lname;
      O["fn"] = lname;
      json::Array caps;
      for (auto &C : LE->captures()) {
        json::Object CO;
        if (C.capturesVariable()) {
          CO["d"] = declId(C.getCapturedVar());
          CO["n"] = C.getCapturedVar()->getNameAsString();
        } else if (C.capturesThis()) {
          CO["n"] = "this";
        }
        CO["ref"] = C.getCaptureKind() == LCK_ByRef;
        caps.push_back(std::move(CO));
      }
      O["caps"] = std::move(caps);
      for (const Expr *CI : LE->capture_inits()) ch.push_back(emit(CI));
      if (LE->isGenericLambda()) {
        if (auto *FTD = RD->getDependentLambdaCallOperator()) {
          for (auto *Spec : FTD->specializations()) {
            if (Spec->doesThisDeclarationHaveABody())
              jobs.push_back({Spec, lname, curFn, true});
          }
        }
      } else if (auto *CO = LE->getCallOperator()) {
        if (CO->doesThisDeclarationHaveABody()) jobs.push_back({CO, lname, curFn, true});
      }
      saved.swap(pendingVarName);
    } else if (auto *FR = dyn_cast<CXXForRangeStmt>(S)) {
      std::vector<std::string> saved;
      saved.swap(pendingVarName);
      int r = emit(FR->getRangeInit());
      O["range"] = r;
      ch.push_back(r);
      int v = emitVarDecl(FR->getLoopVariable());
      O["var"] = v;
      ch.push_back(v);
      int b = emit(FR->getBody());
      O["body"] = b;
      ch.push_back(b);
      saved.swap(pendingVarName);
    } else {
      std::vector<std::string> saved;
      if (isDirectInit) saved.swap(pendingVarName);
      // roles first, so that children are emitted once
      if (auto *IS = dyn_cast<IfStmt>(S)) {
        if (IS->getInit()) O["init"] = emit(IS->getInit());
        if (IS->getConditionVariableDeclStmt()) O["condvar"] = emit(IS->getConditionVariableDeclStmt());
        O["cond"] = emit(IS->getCond());
        O["then"] = emit(IS->getThen());
        if (IS->getElse()) O["else"] = emit(IS->getElse());
      } else if (auto *FS = dyn_cast<ForStmt>(S)) {
        if (FS->getInit()) O["init"] = emit(FS->getInit());
        if (FS->getCond()) O["cond"] = emit(FS->getCond());
        if (FS->getInc()) O["inc"] = emit(FS->getInc());
        O["body"] = emit(FS->getBody());
      } else if (auto *WS = dyn_cast<WhileStmt>(S)) {
        O["cond"] = emit(WS->getCond());
        O["body"] = emit(WS->getBody());
      } else if (auto *DS2 = dyn_cast<DoStmt>(S)) {
        O["body"] = emit(DS2->getBody());
        O["cond"] = emit(DS2->getCond());
      } else if (auto *SS = dyn_cast<SwitchStmt>(S)) {
        O["cond"] = emit(SS->getCond());
        O["body"] = emit(SS->getBody());
      } else if (auto *CS = dyn_cast<CaseStmt>(S)) {
        O["lhs"] = emit(CS->getLHS());
        O["sub"] = emit(CS->getSubStmt());
      } else if (auto *CO = dyn_cast<ConditionalOperator>(S)) {
        O["cond"] = emit(CO->getCond());
        O["then"] = emit(CO->getTrueExpr());
        O["else"] = emit(CO->getFalseExpr());
      } else if (auto *TS = dyn_cast<CXXTryStmt>(S)) {
        O["try"] = emit(TS->getTryBlock());
        json::Array hs;
        for (unsigned i = 0; i < TS->getNumHandlers(); ++i) hs.push_back(emit(TS->getHandler(i)));
        O["handlers"] = std::move(hs);
      } else if (auto *CS2 = dyn_cast<CXXCatchStmt>(S)) {
        if (CS2->getExceptionDecl()) {
          O["caught"] = typeStr(CS2->getCaughtType());
          O["d"] = declId(CS2->getExceptionDecl());
          O["n"] = CS2->getExceptionDecl()->getNameAsString();
        } else {
          O["caught"] = "...";
        }
        O["body"] = emit(CS2->getHandlerBlock());
      }
      for (const Stmt *C : S->children()) ch.push_back(emit(C));
      if (isDirectInit) saved.swap(pendingVarName);
    }

    // ---- kind-specific attributes ----
    if (auto *DRE = dyn_cast<DeclRefExpr>(S)) {
      const ValueDecl *VD = DRE->getDecl();
      O["n"] = VD->getNameAsString();
      O["d"] = declId(VD);
      O["dk"] = VD->getDeclKindName();
      if (isa<FunctionDecl>(VD)) {
        O["q"] = qnameOf(VD);
      } else if (auto *V = dyn_cast<VarDecl>(VD)) {
        if (!V->isLocalVarDeclOrParm()) {
          O["q"] = V->getQualifiedNameAsString();
          O["g"] = true;
        } else if (V->isStaticLocal()) {
          O["static"] = true;
        }
      } else if (isa<EnumConstantDecl>(VD)) {
        O["q"] = VD->getQualifiedNameAsString();
      } else if (auto *BD = dyn_cast<BindingDecl>(VD)) {
        (void)BD;
      }
      addConst(O, DRE);
    } else if (auto *ME = dyn_cast<MemberExpr>(S)) {
      const ValueDecl *MD = ME->getMemberDecl();
      O["m"] = MD->getQualifiedNameAsString();
      O["n"] = MD->getNameAsString();
      O["mk"] = MD->getDeclKindName();
      O["d"] = declId(MD);
      if (ME->isArrow()) O["arrow"] = true;
      if (auto *FD = dyn_cast<FieldDecl>(MD)) O["ft"] = typeStr(FD->getType());
      addConst(O, ME);
    } else if (auto *CE = dyn_cast<CallExpr>(S)) {
      calleeInfo(O, CE->getDirectCallee());
      if (auto *OC = dyn_cast<CXXOperatorCallExpr>(S)) O["op"] = getOperatorSpelling(OC->getOperator());
      addConst(O, CE);
    } else if (auto *CC = dyn_cast<CXXConstructExpr>(S)) {
      calleeInfo(O, CC->getConstructor());
      if (CC->isElidable()) O["elidable"] = true;
      if (CC->getConstructor()->isCopyOrMoveConstructor()) O["copymove"] = true;
    } else if (auto *BO = dyn_cast<BinaryOperator>(S)) {
      O["op"] = BO->getOpcodeStr().str();
      if (auto *CAO = dyn_cast<CompoundAssignOperator>(S)) O["ct"] = typeStr(CAO->getComputationResultType());
      addConst(O, BO);
    } else if (auto *UO = dyn_cast<UnaryOperator>(S)) {
      O["op"] = UnaryOperator::getOpcodeStr(UO->getOpcode()).str();
      if (UO->isPostfix()) O["postfix"] = true;
      addConst(O, UO);
    } else if (auto *IL = dyn_cast<IntegerLiteral>(S)) {
      llvm::SmallString<40> Sx;
      IL->getValue().toString(Sx, 10, IL->getType()->isSignedIntegerType());
      O["v"] = Sx.str().str();
      O["cv"] = Sx.str().str();
    } else if (auto *CL = dyn_cast<CharacterLiteral>(S)) {
      O["v"] = std::to_string(CL->getValue());
      O["cv"] = std::to_string(CL->getValue());
    } else if (auto *BL = dyn_cast<CXXBoolLiteralExpr>(S)) {
      O["v"] = BL->getValue() ? "1" : "0";
      O["cv"] = BL->getValue() ? "1" : "0";
    } else if (auto *SL = dyn_cast<StringLiteral>(S)) {
      if (SL->getCharByteWidth() == 1) O["s"] = SL->getBytes().str();
    } else if (auto *FL = dyn_cast<FloatingLiteral>(S)) {
      O["v"] = std::to_string(FL->getValueAsApproximateDouble());
    } else if (auto *CEx = dyn_cast<CastExpr>(S)) {
      O["ck"] = CEx->getCastKindName();
      if (auto *ECE = dyn_cast<ExplicitCastExpr>(S)) O["tw"] = sugarStr(ECE->getTypeAsWritten());
      addConst(O, CEx);
    } else if (auto *TE = dyn_cast<CXXThrowExpr>(S)) {
      if (TE->getSubExpr()) O["thrown"] = typeStr(TE->getSubExpr()->getType());
      else O["thrown"] = "<rethrow>";
    } else if (auto *UE = dyn_cast<UnaryExprOrTypeTraitExpr>(S)) {
      addConst(O, UE);
    } else if (auto *TO = dyn_cast<CXXTemporaryObjectExpr>(S)) {
      (void)TO;
    } else if (auto *NE = dyn_cast<CXXNewExpr>(S)) {
      O["alloc"] = typeStr(NE->getAllocatedType());
    } else if (auto *PE = dyn_cast<ParenExpr>(S)) {
      addConst(O, PE);
    } else if (auto *SE = dyn_cast<SubstNonTypeTemplateParmExpr>(S)) {
      addConst(O, SE);
    } else if (auto *CndO = dyn_cast<ConditionalOperator>(S)) {
      addConst(O, CndO);
    }
    O["c"] = std::move(ch);
    nodes.push_back(std::move(O));
    int id = (int)nodes.size() - 1;
    stmtIds[S] = id;
    return id;
  }
  std::set<std::string> usedLambdaNames;

  // ---- function export ---------------------------------------------------------
  void exportFunction(const FnJob &job) {
    const FunctionDecl *FD = job.FD;
    if (!FD->doesThisDeclarationHaveABody()) return;
    if (FD->isDependentContext()) return;
    const Stmt *Body = FD->getBody();
    if (!Body) return;
    nodes.clear();
    stmtIds.clear();
    curFn = job.qname;
    lambdaOrdinal = 0;
    pendingVarName.clear();

    J.objectBegin();
    J.attribute("q", job.qname);
    J.attribute("file", fileOf(FD->getLocation()));
    J.attribute("line", (int)lineOf(FD->getBeginLoc()));
    J.attribute("end", (int)lineOf(FD->getEndLoc()));
    J.attribute("sig", typeStr(FD->getType()));
    J.attribute("ret", typeStr(FD->getReturnType()));
    J.attribute("d", declId(FD));
    if (job.isLambda) {
      J.attribute("lambda", true);
      J.attribute("parent", job.parent);
    }
    if (auto *FPT = FD->getType()->getAs<FunctionProtoType>())
      if (FPT->isNothrow()) J.attribute("noexcept", true);
    if (FD->isTemplateInstantiation()) J.attribute("tinst", true);
    if (FD->getTemplateSpecializationArgs()) {
      std::string s;
      llvm::raw_string_ostream os(s);
      bool first = true;
      for (auto &A : FD->getTemplateSpecializationArgs()->asArray()) {
        if (!first) os << ", ";
        first = false;
        A.print(PP, os, true);
      }
      J.attribute("targs", os.str());
    }
    const char *kind = "function";
    if (auto *MD = dyn_cast<CXXMethodDecl>(FD)) {
      kind = "method";
      if (isa<CXXConstructorDecl>(MD)) kind = "ctor";
      if (isa<CXXDestructorDecl>(MD)) kind = "dtor";
      if (!job.isLambda) J.attribute("cls", MD->getParent()->getQualifiedNameAsString());
      if (MD->isConst()) J.attribute("const", true);
      if (MD->isStatic()) J.attribute("static", true);
    }
    J.attribute("kind", kind);
    J.attributeBegin("params");
    J.arrayBegin();
    for (auto *P : FD->parameters()) {
      J.objectBegin();
      J.attribute("n", P->getNameAsString());
      J.attribute("d", declId(P));
      J.attribute("t", typeStr(P->getType()));
      J.objectEnd();
    }
    J.arrayEnd();
    J.attributeEnd();

    // constructor initialisers as pseudo nodes
    std::vector<int> inits;
    std::map<const CXXCtorInitializer *, int> initIds;
    if (auto *CD = dyn_cast<CXXConstructorDecl>(FD)) {
      for (auto *I : CD->inits()) {
        json::Object O;
        O["k"] = "CtorInit";
        O["l"] = (int)lineOf(I->getSourceLocation());
        if (I->isAnyMemberInitializer() && I->getAnyMember()) {
          O["m"] = I->getAnyMember()->getQualifiedNameAsString();
          O["n"] = I->getAnyMember()->getNameAsString();
          O["ft"] = typeStr(I->getAnyMember()->getType());
        } else if (I->isBaseInitializer()) {
          O["base"] = typeStr(QualType(I->getBaseClass(), 0));
        }
        if (I->isWritten()) O["written"] = true;
        json::Array ch;
        int c = emit(I->getInit());
        ch.push_back(c);
        O["c"] = std::move(ch);
        nodes.push_back(std::move(O));
        int id = (int)nodes.size() - 1;
        inits.push_back(id);
        initIds[I] = id;
      }
    }
    int bodyId = emit(Body);

    // CFG
    CFG::BuildOptions BOpt;
    BOpt.setAllAlwaysAdd();
    BOpt.AddImplicitDtors = true;
    BOpt.AddInitializers = true;
    BOpt.AddTemporaryDtors = false;
    BOpt.PruneTriviallyFalseEdges = false;
    std::unique_ptr<CFG> G = CFG::buildCFG(FD, const_cast<Stmt *>(Body), &Ctx, BOpt);

    // CFG first needs node ids; unknown statements are emitted lazily.
    struct BlockOut {
      unsigned id;
      std::vector<json::Value> elems;
      int term = -1;
      int cond = -1;
      std::string termKind;
      std::vector<int> succs;
      std::vector<int> unreachableSuccs;
      int label = -1;
    };
    std::vector<BlockOut> blocks;
    if (G) {
      for (const CFGBlock *B : *G) {
        BlockOut BO;
        BO.id = B->getBlockID();
        for (const CFGElement &E : *B) {
          if (auto SE = E.getAs<CFGStmt>()) {
            const Stmt *St = SE->getStmt();
            auto it = stmtIds.find(St);
            int id = it != stmtIds.end() ? it->second : emit(St);
            BO.elems.push_back(id);
          } else if (auto IE = E.getAs<CFGInitializer>()) {
            auto it = initIds.find(IE->getInitializer());
            if (it != initIds.end()) BO.elems.push_back(it->second);
          } else if (auto DE = E.getAs<CFGAutomaticObjDtor>()) {
            json::Object O;
            O["k"] = "AutoDtor";
            O["d"] = declId(DE->getVarDecl());
            O["n"] = DE->getVarDecl()->getNameAsString();
            O["t"] = typeStr(DE->getVarDecl()->getType());
            BO.elems.push_back(std::move(O));
          }
        }
        if (const Stmt *T = B->getTerminatorStmt()) {
          auto it = stmtIds.find(T);
          BO.term = it != stmtIds.end() ? it->second : emit(T);
          BO.termKind = T->getStmtClassName();
        }
        if (const Stmt *C = B->getTerminatorCondition(false)) {
          auto it = stmtIds.find(C);
          BO.cond = it != stmtIds.end() ? it->second : emit(C);
        }
        if (const Stmt *L = B->getLabel()) {
          auto it = stmtIds.find(L);
          BO.label = it != stmtIds.end() ? it->second : -1;
        }
        for (auto SI = B->succ_begin(); SI != B->succ_end(); ++SI) {
          const CFGBlock *Sx = SI->getReachableBlock();
          if (Sx) {
            BO.succs.push_back((int)Sx->getBlockID());
          } else if (const CFGBlock *U = SI->getPossiblyUnreachableBlock()) {
            BO.succs.push_back((int)U->getBlockID());
            BO.unreachableSuccs.push_back((int)U->getBlockID());
          } else {
            BO.succs.push_back(-1);
          }
        }
        blocks.push_back(std::move(BO));
      }
    }

    J.attribute("body", bodyId);
    J.attributeBegin("inits");
    J.arrayBegin();
    for (int i : inits) J.value(i);
    J.arrayEnd();
    J.attributeEnd();
    J.attributeBegin("nodes");
    J.arrayBegin();
    for (auto &N : nodes) J.value(json::Value(std::move(N)));
    J.arrayEnd();
    J.attributeEnd();
    if (G) {
      J.attributeBegin("cfg");
      J.objectBegin();
      J.attribute("entry", (int)G->getEntry().getBlockID());
      J.attribute("exit", (int)G->getExit().getBlockID());
      J.attributeBegin("blocks");
      J.arrayBegin();
      for (auto &B : blocks) {
        J.objectBegin();
        J.attribute("id", (int)B.id);
        J.attributeBegin("e");
        J.arrayBegin();
        for (auto &E : B.elems) J.value(E);
        J.arrayEnd();
        J.attributeEnd();
        if (B.term >= 0) {
          J.attribute("term", B.term);
          J.attribute("tk", B.termKind);
        }
        if (B.cond >= 0) J.attribute("cond", B.cond);
        if (B.label >= 0) J.attribute("label", B.label);
        J.attributeBegin("s");
        J.arrayBegin();
        for (int s : B.succs) J.value(s);
        J.arrayEnd();
        J.attributeEnd();
        if (!B.unreachableSuccs.empty()) {
          J.attributeBegin("us");
          J.arrayBegin();
          for (int s : B.unreachableSuccs) J.value(s);
          J.arrayEnd();
          J.attributeEnd();
        }
        J.objectEnd();
      }
      J.arrayEnd();
      J.attributeEnd();
      J.objectEnd();
      J.attributeEnd();
    }
    J.objectEnd();
  }
};

class Collector : public RecursiveASTVisitor<Collector> {
public:
  Exporter &X;
  std::vector<const CXXRecordDecl *> records;
  std::vector<const VarDecl *> globals;
  std::vector<const EnumDecl *> enums;
  explicit Collector(Exporter &X) : X(X) {}
  bool shouldVisitTemplateInstantiations() const { return true; }
  bool shouldVisitImplicitCode() const { return false; }

  bool VisitFunctionDecl(FunctionDecl *FD) {
    if (!FD->doesThisDeclarationHaveABody()) return true;
    if (FD->isDependentContext()) return true;
    if (!X.inRoot(FD->getLocation())) return true;
    if (auto *MD = dyn_cast<CXXMethodDecl>(FD))
      if (MD->getParent()->isLambda()) return true;  // exported via the LambdaExpr
    if (X.seenFns.insert(FD).second) X.jobs.push_back({FD, FD->getQualifiedNameAsString(), "", false});
    return true;
  }
  bool VisitCXXRecordDecl(CXXRecordDecl *RD) {
    if (!RD->isThisDeclarationADefinition()) return true;
    if (RD->isLambda()) return true;
    if (RD->isDependentContext()) return true;
    if (!X.inRoot(RD->getLocation())) return true;
    records.push_back(RD);
    return true;
  }
  bool VisitVarDecl(VarDecl *VD) {
    if (VD->isLocalVarDeclOrParm()) return true;
    if (!X.inRoot(VD->getLocation())) return true;
    if (VD->isThisDeclarationADefinition() == VarDecl::DeclarationOnly && !VD->hasInit()) return true;
    if (VD->getDeclContext()->isDependentContext()) return true;
    globals.push_back(VD);
    return true;
  }
  bool VisitEnumDecl(EnumDecl *ED) {
    if (!ED->isThisDeclarationADefinition()) return true;
    if (!X.inRoot(ED->getLocation())) return true;
    enums.push_back(ED);
    return true;
  }
};

class Consumer : public ASTConsumer {
public:
  void HandleTranslationUnit(ASTContext &Ctx) override {
    std::error_code EC;
    llvm::raw_fd_ostream OS(gOut, EC);
    if (EC) {
      llvm::errs() << "envx: cannot open " << gOut << "\n";
      exit(3);
    }
    if (Ctx.getDiagnostics().hasErrorOccurred()) {
      llvm::errs() << "envx: parse errors\n";
      exit(4);
    }
    Exporter X(Ctx, OS);
    X.PP = PrintingPolicy(Ctx.getLangOpts());
    X.PP.SuppressTagKeyword = true;
    X.PP.Bool = true;
    Collector C(X);
    C.TraverseDecl(Ctx.getTranslationUnitDecl());

    X.J.objectBegin();
    X.J.attribute("main", Ctx.getSourceManager().getFileEntryForID(Ctx.getSourceManager().getMainFileID())->getName());
    X.J.attributeBegin("functions");
    X.J.arrayBegin();
    int nfun = 0;
    while (!X.jobs.empty()) {
      FnJob job = X.jobs.front();
      X.jobs.pop_front();
      X.exportFunction(job);
      ++nfun;
    }
    X.J.arrayEnd();
    X.J.attributeEnd();

    X.J.attributeBegin("records");
    X.J.arrayBegin();
    for (auto *RD : C.records) {
      X.J.objectBegin();
      X.J.attribute("q", RD->getQualifiedNameAsString());
      X.J.attribute("file", X.fileOf(RD->getLocation()));
      X.J.attribute("line", (int)X.lineOf(RD->getLocation()));
      X.J.attributeBegin("bases");
      X.J.arrayBegin();
      for (auto &B : RD->bases()) X.J.value(X.typeStr(B.getType()));
      X.J.arrayEnd();
      X.J.attributeEnd();
      X.J.attributeBegin("fields");
      X.J.arrayBegin();
      for (auto *F : RD->fields()) {
        X.J.objectBegin();
        X.J.attribute("n", F->getNameAsString());
        X.J.attribute("t", X.typeStr(F->getType()));
        X.J.attribute("ts", X.sugarStr(F->getType()));
        X.J.attribute("access", (int)F->getAccess());
        if (F->isMutable()) X.J.attribute("mutable", true);
        if (F->getType().isConstQualified()) X.J.attribute("const", true);
        if (F->getType()->isReferenceType()) X.J.attribute("ref", true);
        X.J.objectEnd();
      }
      X.J.arrayEnd();
      X.J.attributeEnd();
      X.J.objectEnd();
    }
    X.J.arrayEnd();
    X.J.attributeEnd();

    X.J.attributeBegin("globals");
    X.J.arrayBegin();
    for (auto *VD : C.globals) {
      X.nodes.clear();
      X.stmtIds.clear();
      X.curFn = VD->getQualifiedNameAsString();
      X.lambdaOrdinal = 0;
      X.J.objectBegin();
      X.J.attribute("q", VD->getQualifiedNameAsString());
      X.J.attribute("file", X.fileOf(VD->getLocation()));
      X.J.attribute("line", (int)X.lineOf(VD->getLocation()));
      X.J.attribute("t", X.typeStr(VD->getType()));
      if (VD->getType().isConstQualified()) X.J.attribute("const", true);
      if (VD->isConstexpr()) X.J.attribute("constexpr", true);
      int init = -1;
      if (const Expr *I = VD->getAnyInitializer()) init = X.emit(I);
      X.J.attribute("init", init);
      X.J.attributeBegin("nodes");
      X.J.arrayBegin();
      for (auto &N : X.nodes) X.J.value(json::Value(std::move(N)));
      X.J.arrayEnd();
      X.J.attributeEnd();
      X.J.objectEnd();
    }
    X.J.arrayEnd();
    X.J.attributeEnd();
    // lambdas discovered in global initialisers
    X.J.attributeBegin("functions2");
    X.J.arrayBegin();
    while (!X.jobs.empty()) {
      FnJob job = X.jobs.front();
      X.jobs.pop_front();
      X.exportFunction(job);
    }
    X.J.arrayEnd();
    X.J.attributeEnd();

    X.J.attributeBegin("enums");
    X.J.arrayBegin();
    for (auto *ED : C.enums) {
      X.J.objectBegin();
      X.J.attribute("q", ED->getQualifiedNameAsString());
      X.J.attributeBegin("values");
      X.J.objectBegin();
      for (auto *EC : ED->enumerators()) {
        llvm::SmallString<40> S;
        EC->getInitVal().toString(S, 10);
        X.J.attribute(EC->getNameAsString(), S.str());
      }
      X.J.objectEnd();
      X.J.attributeEnd();
      X.J.objectEnd();
    }
    X.J.arrayEnd();
    X.J.attributeEnd();
    X.J.attribute("nfunctions", nfun);
    X.J.objectEnd();
    OS << "\n";
  }
};

class Action : public ASTFrontendAction {
public:
  std::unique_ptr<ASTConsumer> CreateASTConsumer(CompilerInstance &, llvm::StringRef) override {
    return std::make_unique<Consumer>();
  }
};

}  // namespace

// usage: envx --root /repo/ --out file.json source.cpp -- <compiler args>
int main(int argc, const char **argv) {
  std::vector<std::string> args;
  std::string source;
  int i = 1;
  for (; i < argc; ++i) {
    std::string a = argv[i];
    if (a == "--root" && i + 1 < argc) {
      gRoot = argv[++i];
      if (gRoot.empty() || gRoot.back() != '/') gRoot += "/";
    } else if (a == "--out" && i + 1 < argc) {
      gOut = argv[++i];
    } else if (a == "--") {
      ++i;
      break;
    } else {
      source = a;
    }
  }
  for (; i < argc; ++i) args.push_back(argv[i]);
  if (source.empty() || gOut.empty()) {
    llvm::errs() << "usage: envx --root DIR --out FILE source -- args\n";
    return 2;
  }
  clang::tooling::FixedCompilationDatabase DB(".", args);
  clang::tooling::ClangTool Tool(DB, {source});
  int rc = Tool.run(clang::tooling::newFrontendActionFactory<Action>().get());
  return rc;
}

#!/usr/bin/env python3
"""Robustness sweep 5: simple comparisons in if / while / return lines are mirrored (`a < b` -> `b > a`, `a == b` -> `b == a`, ...).
Behaviour is unchanged; every rule that matches a comparison must accept either orientation.   tools/mirror_sweep.py [pid ...]"""
import importlib, json, os, re, shutil, subprocess, sys
HERE = os.path.dirname(os.path.dirname(os.path.abspath(__file__)))
sys.path.insert(0, HERE)
from sa import selftest, build
from sa.build import AnalysisBroken
from sa.ctx import Check
ov = selftest.make_overlay('mirror-sweep')
OPND = r'[A-Za-z_][\w]*(?:(?:\.|->)[A-Za-z_]\w*)*(?:\(\))?|\d+[uUlL]*'
CMP = re.compile(r'(?:(?<=\()|(?<=&& )|(?<=\|\| )|(?<=return ))(?P<a>' + OPND + r') (?P<op><=|>=|==|!=|<|>) (?P<b>' + OPND + r')(?=\)| &&| \|\||;)')
MIR = {'<': '>', '>': '<', '<=': '>=', '>=': '<=', '==': '==', '!=': '!='}
n = 0
bad_units = []
for unit in build.all_units():
    p = os.path.join(ov, unit)
    src = open(p).read()
    out = []
    k = 0
    for line in src.split('\n'):
        st = line.strip()
        if st.startswith(('if (', '} else if (', 'while (', 'return ')) and 'template' not in line and '<<' not in line and '>>' not in line \
                and 'static_cast<' not in line and 'std::' not in line and '"' not in line and "'" not in line:
            new, c = CMP.subn(lambda m: '%s %s %s' % (m.group('b'), MIR[m.group('op')], m.group('a')), line)
            if c:
                k += c
                line = new
        out.append(line)
    open(p, 'w').write('\n'.join(out))
    r = subprocess.run(['g++', '-std=c++20', '-fsyntax-only', '-I', 'include', '-I', 'src', unit], cwd=ov, capture_output=True, text=True)
    if r.returncode != 0:
        bad_units.append(unit)
        open(p, 'w').write(src)
    else:
        n += k
print('comparisons mirrored:', n, flush=True)
print('units left unchanged because the variant no longer parses:', bad_units, flush=True)
pids = [a for a in sys.argv[1:] if not a.startswith('--')] or [c['property_id'] for c in json.load(open(os.path.join(HERE, 'MANIFEST.json')))['checks']]
bad = {}
for pid in pids:
    mod = importlib.import_module('props.' + pid)
    ck = Check(pid, tier='quick', level='other', repo=ov, quiet=True)
    try:
        mod.run(ck)
        ck.finish()
        new = [o.key for o in ck.result['new']]
        if new:
            bad[pid] = new[:5]
            print(pid, 'ALARM', new[:5], flush=True)
        else:
            print(pid, 'silent', flush=True)
    except AnalysisBroken as e:
        bad[pid] = ['broken: ' + str(e)[:160]]
        print(pid, 'ANALYSIS-BROKEN', str(e)[:160], flush=True)
    except Exception as e:
        bad[pid] = ['crash %r' % e]
        print(pid, 'CRASH %r' % e, flush=True)
if '--keep' not in sys.argv:
    shutil.rmtree(ov, ignore_errors=True)
print('checks with alarms on the mirrored tree:', sorted(bad))

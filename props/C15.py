"""C15 — protocol messages round-trip through the wire codec."""
from sa.paths import var_decl, local_writes
from sa.flow import origin_chain, all_defs
from sa.match import comparison, const_value
from sa.build import AnalysisBroken
from props.common import declref, member_on, field_assigns

UNITS = ['src/protocol/Message.cpp', 'src/core/Node.cpp']
LEVEL = 'other'
EXPLANATION = (
    'R-SCHEMA per payload type: the layout written by each instantiation of encode\'s visitor (width and source field of every '
    'append) equals the layout read by decode_payload_v1 / parse_announce_payload (offset, width and target field of every read; '
    'contiguous, no gaps or overlaps; each cursor advance equals the width just read; each variable-length body uses the length '
    'field written for it). Header: version byte then type byte on both sides. R-SIB: the version from which ANNOUNCE carries '
    'the PoW nonce is the same constant in the encoder, the decoder, Node::verify_announce_pow and Node::deliver_manifest. '
    'R-POST: clamp_version maps below-minimum to the minimum, above-current to the current version and is the identity inside; '
    'is_supported_message_version is exactly [minimum, current].')
ASSUMPTIONS = ['value equality for strings longer than 2^32 is outside the property (wire ranges)',
               'big-endian helpers write_u32/read_u32 and write_u64/read_u64 are checked for matching shift sequences only']

NS = 'ephemeralnet::protocol::'
AN = NS + '(anonymous namespace)::'
WIDTH_R = {AN + 'parse_chunk_id': 32, AN + 'parse_peer_id': 32}


def lname(fn, n):
    """Field label of an expression: last member/variable name on its origin chain that is a payload field."""
    for i in origin_chain(fn, n):
        nd = fn.nodes[i]
        if nd['k'] == 'MemberExpr' and nd.get('mk') == 'Field':
            return nd['n']
        if nd['k'] == 'CXXMemberCallExpr':
            r = fn.receiver(i)
            if r is not None:
                return lname(fn, r)
        if nd['k'] == 'CallExpr' and nd.get('callee', '').startswith(AN + 'serialize_'):
            return lname(fn, fn.call_args(i)[0])
        if nd['k'] == 'ConditionalOperator':
            return lname(fn, nd['cond'])
    return ''


def enc_layout(fn):
    """[(width token, field label, node)] in statement order for one visitor instantiation."""
    out = []

    def rec(i):
        nd = fn.nodes[i]
        k = nd['k']
        c = nd.get('callee', '')
        if k == 'CallExpr' and c == AN + 'write_u32':
            out.append(('4', lname(fn, fn.call_args(i)[1]), i))
            return
        if k == 'CallExpr' and c == AN + 'write_u64':
            out.append(('8', lname(fn, fn.call_args(i)[1]), i))
            return
        if k == 'CXXMemberCallExpr' and c == 'std::vector<unsigned char>::push_back':
            out.append(('1', lname(fn, fn.call_args(i)[0]), i))
            return
        if k == 'CXXMemberCallExpr' and c == 'std::vector<unsigned char>::insert':
            a = fn.call_args(i)
            src = fn.strip(a[1])
            recv = fn.receiver(src) if fn.nodes[src]['k'] == 'CXXMemberCallExpr' else None
            fixed = None
            if recv is not None:
                for j in origin_chain(fn, recv):
                    if fn.nodes[j].get('callee', '').startswith(AN + 'serialize_'):
                        fixed = 32
            out.append(('R32' if fixed else 'V', lname(fn, recv) if recv is not None else '', i))
            return
        if k == 'IfStmt':
            cvv = const_value(fn, nd['cond'])
            if cvv is not None and fn.nodes[fn.strip(nd['cond'], casts=False)]['k'] in ('ConstantExpr', 'CXXBoolLiteralExpr', 'SubstNonTypeTemplateParmExpr') \
                    or fn.nodes[nd['cond']]['k'] == 'ConstantExpr':
                br = 'then' if cvv else 'else'      # `if constexpr`: only the selected branch exists in this instantiation
                if nd.get(br) is not None and nd[br] >= 0:
                    rec(nd[br])
                return
            mark = len(out)
            out.append(('?(', lname(fn, nd['cond']) or fn.text(nd['cond']), i))
            if nd.get('then') is not None:
                rec(nd['then'])
            if len(out) == mark + 1:
                out.pop()
            else:
                out.append((')', '', i))
            return
        if k == 'LambdaExpr':
            return
        for ch in fn.kids(i):
            rec(ch)
    rec(fn.body)
    return out


def ptr_offset(fn, n, base_d):
    """(constant offset, [symbolic addends as decl names]) of a pointer expression data + a + b…; None if not based on base_d."""
    n = fn.strip(n, casts=False)
    nd = fn.nodes[n]
    if nd['k'] == 'ImplicitCastExpr' or nd['k'] == 'ParenExpr':
        return ptr_offset(fn, fn.kids(n)[0], base_d)
    if nd['k'] in ('CXXReinterpretCastExpr', 'CXXStaticCastExpr', 'CStyleCastExpr'):
        return ptr_offset(fn, fn.kids(n)[0], base_d)
    if nd['k'] == 'DeclRefExpr' and nd.get('d') == base_d:
        return 0, []
    if nd['k'] == 'BinaryOperator' and nd.get('op') == '+':
        l, r = fn.kids(n)
        for p, q in ((l, r), (r, l)):
            po = ptr_offset(fn, p, base_d)
            if po is not None:
                cv = const_value(fn, q)
                if cv is not None:
                    return po[0] + cv, po[1]
                qn = fn.nodes[fn.strip(q)]
                return po[0], po[1] + [qn.get('n', '?')]
    return None


def run(ck):
    P = ck.prog(['src/protocol/Message.cpp'])
    enc = P.fn(NS + 'encode')
    ck.touch(enc)
    insts = [f for f in P.fns if f.q == NS + 'encode::$0']
    ck.floor('C15.schema', 'instantiations of the encode visitor', len(insts), 6)
    enc_by_type = {}
    for f in insts:
        ck.touch(f)
        enc_by_type[f.targs.split('::')[-1]] = (f, enc_layout(f))

    # ---- header ---------------------------------------------------------------------------------
    pushes = [i for i in enc.walk() if enc.nodes[i].get('callee') == 'std::vector<unsigned char>::push_back']
    hdr_ok = len(pushes) == 2 and any(enc.nodes[j].get('callee') == AN + 'clamp_version' for j in origin_chain(enc, enc.call_args(pushes[0])[0])) \
        and any(enc.nodes[j].get('m') == NS + 'Message::type' for j in enc.walk(enc.call_args(pushes[1])[0]))
    ck.ob('C15.schema', 'C15.schema/header-encode', hdr_ok, enc.loc(), 'encode writes clamp_version(message.version) then the type byte')
    dec = P.fn(NS + 'decode')
    ck.touch(dec)
    vdecl = tdecl = None
    for i in dec.walk():
        nd = dec.nodes[i]
        if nd['k'] == 'VarDecl' and 'init' in nd:
            init = dec.strip(nd['init'])
            idn = dec.nodes[init]
            if idn['k'] == 'CXXOperatorCallExpr' and idn.get('op') == '[]':
                idx = const_value(dec, dec.kids(init)[2])
                if idx == 0:
                    vdecl = nd['d']
                if idx == 1:
                    tdecl = nd['d']
    ck.ob('C15.schema', 'C15.schema/header-decode', vdecl is not None and tdecl is not None, dec.loc(),
          'decode reads the version from byte 0 and the type from byte 1')
    # body starts at offset 2 with remaining = size - 2
    body_ok = any(dec.nodes[i]['k'] == 'BinaryOperator' and dec.nodes[i].get('op') == '+' and const_value(dec, dec.kids(i)[1]) == 2 and
                  dec.nodes[dec.strip(dec.kids(i)[0])].get('callee', '').endswith('::data') for i in dec.walk()) and \
        any(dec.nodes[i]['k'] == 'BinaryOperator' and dec.nodes[i].get('op') == '-' and const_value(dec, dec.kids(i)[1]) == 2 and
            dec.nodes[dec.strip(dec.kids(i)[0])].get('callee', '').endswith('::size') for i in dec.walk())
    ck.ob('C15.schema', 'C15.schema/body-offset', body_ok, dec.loc(), 'the payload is parsed from buffer.data() + 2 with buffer.size() - 2 bytes')

    # ---- fixed layouts in decode_payload_v1 -------------------------------------------------------
    dp = P.fn(AN + 'decode_payload_v1')
    ck.touch(dp)
    data_d = dp.params[1]['d']
    cases = [(i, dp.nodes[i]) for i in dp.walk() if dp.nodes[i]['k'] == 'CaseStmt']
    ck.floor('C15.schema', 'cases of decode_payload_v1', len(cases), 6)
    for ci, cn in cases:
        lhs = [dp.nodes[j] for j in dp.walk(cn['lhs']) if dp.nodes[j]['k'] == 'DeclRefExpr' and dp.nodes[j].get('dk') == 'EnumConstant']
        tname = lhs[0]['n'] if lhs else '?'
        ptype = tname + 'Payload'
        if tname == 'Announce':
            calls = [j for j in dp.walk(cn['sub']) if dp.nodes[j].get('callee') == AN + 'parse_announce_payload']
            ok = len(calls) == 1 and len(dp.call_args(calls[0])) == 3 and declref(dp, dp.call_args(calls[0])[0], data_d) is not None and \
                declref(dp, dp.call_args(calls[0])[1], dp.params[2]['d']) is not None and const_value(dp, dp.call_args(calls[0])[2]) == 0
            ck.ob('C15.schema', 'C15.schema/Announce/v1-delegates', ok, dp.loc(ci),
                  'pre-PoW announces are parsed by parse_announce_payload(data, remaining, false)')
            continue
        if ptype not in enc_by_type:
            ck.ob('C15.schema', 'C15.schema/%s/encoder-exists' % tname, False, dp.loc(ci), 'no encoder instantiation for %s' % ptype)
            continue
        reads = []       # (offset, width token, label, node, symbolic)
        sub = cn['sub']
        for j in dp.walk(sub):
            nd = dp.nodes[j]
            c = nd.get('callee', '')
            w = None
            ptr = None
            if c == AN + 'read_u32':
                w, ptr = '4', dp.call_args(j)[0]
            elif c == AN + 'read_u64':
                w, ptr = '8', dp.call_args(j)[0]
            elif c in WIDTH_R:
                w, ptr = 'R32', dp.call_args(j)[0]
            elif nd['k'] == 'UnaryOperator' and nd.get('op') == '*' and nd.get('t', '').endswith('unsigned char'):
                w, ptr = '1', dp.kids(j)[0]
            elif nd['k'] == 'CXXMemberCallExpr' and c.endswith('::assign') and len(dp.call_args(j)) == 2:
                w, ptr = 'V', dp.call_args(j)[0]
            if w is None:
                continue
            po = ptr_offset(dp, ptr, data_d)
            if po is None:
                ck.ob('C15.schema', 'C15.schema/%s/read-base#%d' % (tname, j), False, dp.loc(j), 'a read in case %s is not based on `data`' % tname)
                continue
            # label: the payload field assigned, or the local initialised
            label = ''
            for a in dp.ancestors(j):
                an = dp.nodes[a]
                if an['k'] == 'VarDecl':
                    label = an['n']
                    break
                if an['k'] == 'BinaryOperator' and an.get('op') == '=':
                    label = dp.nodes[dp.strip(dp.kids(a)[0])].get('n', '')
                    break
                if an['k'] == 'CXXOperatorCallExpr' and an.get('op') == '=':
                    label = dp.nodes[dp.strip(dp.kids(a)[1])].get('n', '')
                    break
                if an['k'] == 'CXXMemberCallExpr' and an.get('callee', '').endswith('::assign'):
                    r = dp.receiver(a)
                    label = dp.nodes[r].get('n', '') if r is not None else ''
                    break
                if an['k'] in ('CompoundStmt',):
                    break
            if w == 'V':
                r = dp.receiver(j)
                label = dp.nodes[r].get('n', '') if r is not None else label
            reads.append((po[0], w, label, j, po[1]))
        reads.sort(key=lambda x: x[0])
        f, lay = enc_by_type[ptype]
        es = [(t, l) for t, l, _n in lay]
        ds = [(w, l) for _o, w, l, _n, _s in reads]
        same = [t for t, _l in es] == [w for w, _l in ds]
        ck.ob('C15.schema', 'C15.schema/%s/widths' % tname, same, dp.loc(ci),
              '%s: encoder appends %s ; decoder reads %s' % (tname, ' '.join(t for t, _ in es), ' '.join(w for w, _ in ds)))
        # contiguity of decoder offsets
        off = 0
        contiguous = True
        for o, w, _l, _n, sym in reads:
            if sym or o != off:
                contiguous = False
            off += {'1': 1, '4': 4, '8': 8, 'R32': 32, 'V': 0}[w]
        ck.ob('C15.schema', 'C15.schema/%s/offsets' % tname, contiguous, dp.loc(ci),
              '%s: decoder offsets %s are contiguous from 0 (each read starts where the previous one ended)' % (tname, [o for o, *_ in reads]))
        if same:
            for k, ((t, le), (_w, ld)) in enumerate(zip(es, ds)):
                ok = (not le or not ld) or le == ld or (t == '4' and le == 'data' and ld.endswith('len')) or \
                     (le.endswith('_len') and ld.endswith('_len') and le == ld)
                ck.ob('C15.schema', 'C15.schema/%s/field#%d/%s' % (tname, k, le or ld), ok, dp.loc(reads[k][3]),
                      '%s token %d (%s): encoder writes %s, decoder stores into %s' % (tname, k, t, le or '<expr>', ld or '<expr>'))
        # variable-length body: its end pointer is start + the length that was read for it
        for o, w, l, j, _s in reads:
            if w == 'V':
                a = dp.call_args(j)
                e = ptr_offset(dp, a[1], data_d)
                ok = e is not None and e[0] == o and len(e[1]) == 1 and e[1][0].endswith('len')
                ck.ob('C15.schema', 'C15.schema/%s/body-length' % tname, ok, dp.loc(j),
                      '%s: the variable body is [data+%d, data+%d+<length field>)' % (tname, o, o))

    # ---- announce (cursor style) -------------------------------------------------------------------
    pa = P.fn(AN + 'parse_announce_payload')
    ck.touch(pa)
    if len(pa.params) != 3:
        raise AnalysisBroken('parse_announce_payload no longer takes (data, remaining, include_pow): the announce layout rules cannot be applied')
    d_d, inc_d = pa.params[0]['d'], pa.params[2]['d']
    cur = None
    for i in pa.walk():
        nd = pa.nodes[i]
        if nd['k'] == 'VarDecl' and nd.get('n') == 'cursor':
            cur = nd['d']
    if cur is None:
        raise AnalysisBroken('C15: parse_announce_payload no longer uses a cursor local')
    toks = []

    def rec(i):
        nd = pa.nodes[i]
        c = nd.get('callee', '')
        k = nd['k']
        tok = None
        if c == AN + 'read_u32':
            tok = ('4', pa.call_args(i)[0], 4)
        elif c == AN + 'read_u64':
            tok = ('8', pa.call_args(i)[0], 8)
        elif c in WIDTH_R:
            tok = ('R32', pa.call_args(i)[0], 32)
        elif k == 'CXXMemberCallExpr' and c.endswith('::assign') and len(pa.call_args(i)) == 2:
            tok = ('V', pa.call_args(i)[0], None)
        if tok is not None:
            label = ''
            lenname = None
            for a in pa.ancestors(i):
                an = pa.nodes[a]
                if an['k'] == 'VarDecl':
                    label = an['n']
                    break
                if an['k'] in ('BinaryOperator', 'CXXOperatorCallExpr') and an.get('op') == '=':
                    lhs = pa.kids(a)[0] if an['k'] == 'BinaryOperator' else pa.kids(a)[1]
                    label = pa.nodes[pa.strip(lhs)].get('n', '')
                    break
                if an['k'] == 'CompoundStmt':
                    break
            if tok[0] == 'V':
                r = pa.receiver(i)
                label = pa.nodes[r].get('n', '') if r is not None else ''
                a1 = pa.call_args(i)[1]
                a1n = pa.nodes[pa.strip(a1)]
                if a1n['k'] == 'DeclRefExpr':
                    lenname = a1n['n']
                else:
                    e = ptr_offset(pa, a1, d_d)
                    lenname = e[1][-1] if e and e[1] else None
            po = ptr_offset(pa, tok[1], d_d)
            based = po is not None and po[0] == 0 and po[1] == ['cursor']
            toks.append({'t': tok[0], 'label': label, 'node': i, 'based': based, 'w': tok[2], 'len': lenname})
            return
        if k == 'CompoundAssignOperator' and nd.get('op') == '+=' and declref(pa, pa.kids(i)[0], cur) is not None:
            r = pa.kids(i)[1]
            cv = const_value(pa, r)
            toks.append({'t': '+=', 'amount': cv if cv is not None else pa.nodes[pa.strip(r)].get('n'), 'node': i})
            return
        if k == 'IfStmt' and any(pa.nodes[j]['k'] == 'DeclRefExpr' and pa.nodes[j].get('d') == inc_d for j in pa.walk(nd['cond'])):
            toks.append({'t': '?(', 'node': i})
            rec(nd['then'])
            toks.append({'t': ')', 'node': i})
            return
        if k == 'LambdaExpr':
            return
        for ch in pa.kids(i):
            rec(ch)
    rec(pa.body)
    reads = [t for t in toks if t['t'] not in ('+=',)]
    f, lay = enc_by_type['AnnouncePayload']
    es = ' '.join(t for t, _l, _n in lay)
    ds = ' '.join(t['t'] for t in reads)
    ck.ob('C15.schema', 'C15.schema/Announce/widths', es == ds, pa.loc(), 'Announce: encoder appends %s ; decoder reads %s' % (es, ds))
    # every read is at data + cursor and followed by cursor += its width / its length variable
    adv_ok = True
    bad = None
    for k, t in enumerate(toks):
        if t['t'] in ('+=', '?(', ')'):
            continue
        nxt = toks[k + 1] if k + 1 < len(toks) else None
        want = t['w'] if t['w'] is not None else t['len']
        if not t['based'] or nxt is None or nxt['t'] != '+=' or nxt['amount'] != want:
            adv_ok = False
            bad = t
            break
    ck.ob('C15.schema', 'C15.schema/Announce/cursor', adv_ok, pa.loc(bad['node']) if bad else pa.loc(),
          'every announce field is read at data + cursor and the cursor then advances by exactly the width (or length field) just consumed')
    # the k-th length header governs the k-th variable field, on both sides
    lens_dec = [t['label'] for t in reads if t['t'] == '4'][1:]
    vars_dec = [(t['label'], t['len']) for t in reads if t['t'] == 'V']
    pair_dec = len(lens_dec) == len(vars_dec) and all(l == ln for l, (_v, ln) in zip(lens_dec, vars_dec))
    ck.ob('C15.schema', 'C15.schema/Announce/length-pairing-decode', pair_dec, pa.loc(),
          'decoder: the length fields %s are used, in order, for %s' % (lens_dec, vars_dec))
    enc_lens = []
    for t, l, n in lay:
        if t == '4':
            enc_lens.append(l)
    enc_vars = [l for t, l, _n in lay if t == 'V']
    pair_enc = enc_lens[1:] == enc_vars and [v for v, _ in vars_dec] == enc_vars
    ck.ob('C15.schema', 'C15.schema/Announce/length-pairing-encode', pair_enc, f.loc(),
          'encoder: the length headers are the sizes of %s, appended in the same order as the decoder assigns %s' % (enc_vars, [v for v, _ in vars_dec]))
    if es == ds:
        for k, ((t, le, _n), d) in enumerate(zip(lay, reads)):
            if t in ('?(', ')'):
                continue
            ld = d['label']
            ok = (not le or not ld) or le == ld or (t == '4' and ld.startswith(le.split('_')[0][:6])) or (t == '4' and ld.endswith('_len') and (le + '_len').startswith(ld[:5]))
            ck.ob('C15.schema', 'C15.schema/Announce/field#%d/%s' % (k, le or ld), ok, pa.loc(d['node']),
                  'Announce token %d (%s): encoder writes %s, decoder stores into %s' % (k, t, le or '<expr>', ld or '<expr>'))

    # ---- completeness of the length guards: a rejection implies the input really is too short ------------------
    def lin_terms(fn, n, depth=0):
        """(constant, sorted symbolic names) of an expression built from +, constants and locals; None otherwise."""
        n = fn.strip(n)
        nd = fn.nodes[n]
        cv = const_value(fn, n)
        if cv is not None:
            return cv, []
        if depth > 16:
            return None
        if nd['k'] == 'BinaryOperator' and nd.get('op') == '+':
            a, b = (lin_terms(fn, x, depth + 1) for x in fn.kids(n))
            if a is None or b is None:
                return None
            return a[0] + b[0], sorted(a[1] + b[1])
        if nd['k'] == 'DeclRefExpr' and nd.get('dk') == 'Var':
            from sa.paths import unique_init
            init = unique_init(fn, nd['d'], n)
            if init is not None:
                r = lin_terms(fn, init, depth + 1)
                if r is not None and not (nd['n'].endswith('_len') or nd['n'] == 'extra_bytes'):
                    return r
            return 0, [nd['n']]
        if nd['k'] == 'DeclRefExpr':
            return 0, [nd['n']]
        return None

    def guard_sites(fn, root, rem_name='remaining'):
        out = []
        for i in fn.walk(root):
            nd = fn.nodes[i]
            if nd['k'] != 'IfStmt':
                continue
            then = nd.get('then')
            if not any(fn.nodes[j]['k'] == 'ReturnStmt' and 'nullopt' in fn.text(j) for j in fn.walk(then)):
                continue
            c = comparison(fn, nd['cond'])
            if not c:
                continue
            op, a, b = c
            if fn.nodes[fn.strip(b)].get('n') == rem_name:
                op, a, b = {'<': '>', '>': '<', '<=': '>=', '>=': '<=', '==': '==', '!=': '!='}[op], b, a
            if fn.nodes[fn.strip(a)].get('n') != rem_name:
                continue
            out.append((i, op, lin_terms(fn, b)))
        return out
    ALLOWED_SYMS = {'endpoint_len', 'manifest_len', 'assignments_len', 'extra_bytes', 'data_len'}
    nguards = 0
    for fn, root, fixed_total, tag in [(pa, pa.body, 16 + 64, 'Announce')] + \
            [(dp, cn['sub'], None, [dp.nodes[j]['n'] for j in dp.walk(cn['lhs']) if dp.nodes[j].get('dk') == 'EnumConstant'][0]) for _ci, cn in cases]:
        if tag != 'Announce':
            if tag + 'Payload' not in enc_by_type:
                continue
            fixed_total = sum({'1': 1, '4': 4, '8': 8, 'R32': 32}.get(t, 0) for t, _l, _n in enc_by_type[tag + 'Payload'][1])
        for i, op, lt in guard_sites(fn, root):
            nguards += 1
            ok = op in ('<', '<=') and lt is not None
            if ok:
                # `cursor` has consumed at most the 16 header bytes where it appears in a guard
                const = lt[0] + (1 if op == '<=' else 0) + 16 * lt[1].count('cursor')
                ok = const <= fixed_total and set(lt[1]) <= ALLOWED_SYMS | {'cursor'} and lt[1].count('cursor') <= 1 and \
                    all(lt[1].count(x) == 1 for x in set(lt[1]))
            ck.ob('C15.guard', 'C15.guard/%s#%d' % (tag, i), ok, fn.loc(i),
                  '%s: a message is rejected for length only when remaining < (fixed part <= %d) + declared lengths, so every encoding '
                  'the encoder can produce is accepted (found: remaining %s %s)' % (tag, fixed_total, op, lt))
    ck.floor('C15.guard', 'length guards in the decoders', nguards, 7)

    # ---- R-SIB version threshold for the PoW nonce ------------------------------------------------
    thresholds = {}
    af = enc_by_type['AnnouncePayload'][0]

    def helper_threshold(f, call):
        """`helper(version)` where helper is a repository predicate containing `<its parameter> >= constant`: (constant, argument)."""
        cn = f.nodes[f.strip(call)]
        if cn['k'] != 'CallExpr' or cn.get('callee') not in P.by_q:
            return None
        g_ = P.by_q[cn['callee']][0]
        for j in g_.walk():
            c_ = comparison(g_, j)
            if c_ and c_[0] == '>=' and g_.params and declref(g_, c_[1], g_.params[0]['d']) is not None and const_value(g_, c_[2]) is not None:
                return const_value(g_, c_[2]), f.call_args(f.strip(call))[0]
        return None
    enc_version_arg = None
    for i in af.walk():
        nd = af.nodes[i]
        if nd['k'] == 'VarDecl' and nd.get('n') == 'include_pow' and 'init' in nd:
            c = comparison(af, nd['init'])
            if c and c[0] == '>=':
                thresholds['encoder'] = (const_value(af, c[2]), af.loc(i))
                enc_version_arg = c[1]
            else:
                ht = helper_threshold(af, nd['init'])
                if ht:
                    thresholds['encoder'] = (ht[0], af.loc(i))
                    enc_version_arg = ht[1]
    for i in dec.walk():
        c = comparison(dec, i)
        if c and c[0] == '>=' and declref(dec, c[1], vdecl) is not None:
            thresholds['decoder'] = (const_value(dec, c[2]), dec.loc(i))
        elif dec.nodes[i]['k'] == 'CallExpr' and dec.nodes[i].get('callee') in P.by_q:
            ht = helper_threshold(dec, i)
            if ht and declref(dec, ht[1], vdecl) is not None:
                thresholds['decoder'] = (ht[0], dec.loc(i))
    # the encoder decides on the version it actually writes: the clamped local, never the caller's raw message.version
    raw_ok = enc_version_arg is not None and not any(af.nodes[j]['k'] == 'MemberExpr' and (af.nodes[j].get('m') or '').endswith('Message::version') for j in af.walk(enc_version_arg))
    ck.ob('C15.sib', 'C15.sib/encoder-decides-on-written-version', raw_ok, af.loc(),
          'whether encode() appends the PoW nonce is decided from the clamped version it writes into byte 0, not from message.version as passed in '
          '(an out-of-range version is clamped to 4 but would still be judged by its raw value)')
    PN = ck.prog(['src/core/Node.cpp'])
    for q, key in (('ephemeralnet::Node::verify_announce_pow', 'verify_announce_pow'), ('ephemeralnet::Node::deliver_manifest', 'deliver_manifest')):
        g = PN.fn(q)
        ck.touch(g)
        for i in g.walk():
            c = comparison(g, i)
            if c and c[0] in ('<', '>=') and 'version' in g.text(c[1]) and const_value(g, c[2]) is not None and 'size' not in g.text(c[1]):
                thresholds[key] = (const_value(g, c[2]), g.loc(i))
    ck.floor('C15.sib', 'sites deciding whether an announce carries the PoW nonce', len(thresholds), 4)
    vals = {v for v, _l in thresholds.values()}
    ck.ob('C15.sib', 'C15.sib/pow-nonce-version', len(vals) == 1 and None not in vals, thresholds.get('encoder', (None, enc.loc()))[1],
          'the ANNOUNCE PoW nonce threshold is the same version everywhere: %s' % {k: v for k, (v, _l) in thresholds.items()})
    # the decoder passes include_pow=true exactly on that branch
    calls = [j for j in dec.walk() if dec.nodes[j].get('callee') == AN + 'parse_announce_payload']
    ck.ob('C15.sib', 'C15.sib/decoder-include-pow', len(calls) == 1 and const_value(dec, dec.call_args(calls[0])[2]) == 1, dec.loc(),
          'decode parses version >= threshold announces with include_pow = true')

    # ---- clamp_version / is_supported ------------------------------------------------------------
    cv = P.fn(AN + 'clamp_version')
    ck.touch(cv)
    kmin = P.global_const(NS + 'kMinimumMessageVersion')
    kcur = P.global_const(NS + 'kCurrentMessageVersion')
    rets = []
    for i in cv.walk():
        if cv.nodes[i]['k'] == 'ReturnStmt':
            guard = None
            for a in cv.ancestors(i):
                if cv.nodes[a]['k'] == 'IfStmt':
                    guard = comparison(cv, cv.nodes[a]['cond'])
                    break
            v = const_value(cv, cv.kids(i)[0])
            rets.append((guard[0] if guard else None, const_value(cv, guard[2]) if guard else None, v, declref(cv, cv.kids(i)[0], cv.params[0]['d']) is not None))
    want = sorted([('<', kmin, kmin, False), ('>', kcur, kcur, False), (None, None, None, True)], key=str)
    ck.ob('C15.clamp', 'C15.clamp/clamp_version', sorted(rets, key=str) == want, cv.loc(),
          'clamp_version: v < %d -> %d, v > %d -> %d, otherwise v (found %s)' % (kmin, kmin, kcur, kcur, rets))
    ck.ob('C15.clamp', 'C15.clamp/range', kmin == 1 and kcur == 4, cv.loc(), 'supported versions are 1..4 (found %d..%d)' % (kmin, kcur))
    sv = P.fn(NS + 'is_supported_message_version')
    cmps = sorted((c[0], const_value(sv, c[2])) for c in (comparison(sv, i) for i in sv.walk()) if c)
    ck.ob('C15.clamp', 'C15.clamp/is_supported', cmps == sorted([('>=', kmin), ('<=', kcur)]), sv.loc(),
          'is_supported_message_version(v) is v >= %d && v <= %d (found %s)' % (kmin, kcur, cmps))
    # ---- endian helpers: shifts agree -----------------------------------------------------------------
    def shifts(fq, op):
        g = P.fn(fq)
        return sorted(const_value(g, g.kids(i)[1]) for i in g.walk() if g.nodes[i]['k'] == 'BinaryOperator' and g.nodes[i].get('op') == op
                      and const_value(g, g.kids(i)[1]) is not None)
    ck.ob('C15.endian', 'C15.endian/u32', shifts(AN + 'write_u32', '>>') == [8, 16, 24] and shifts(AN + 'read_u32', '<<') == [8, 16, 24], enc.loc(),
          'write_u32 / read_u32 use the shift set {24,16,8,0} (big endian on both sides)')

    # ---- R-FLOW: the encoder writes field values verbatim ------------------------------------------------------------
    # every scalar handed to write_u32 / write_u64 / push_back in a payload branch is a payload field (or the size() of one),
    # through casts, .count() and `? 1 : 0` only — no helper, clamp, min/max or arithmetic may change the value on the way
    nscal = 0
    for ptype, (f, _lay) in sorted(enc_by_type.items()):
        for i in f.walk():
            nd = f.nodes[i]
            c = (nd.get('callee') or '')
            arg = None
            if nd['k'] == 'CallExpr' and c.split('::')[-1] in ('write_u32', 'write_u64') and len(f.call_args(i)) == 2:
                arg = f.call_args(i)[1]
            elif nd['k'] == 'CXXMemberCallExpr' and c.endswith('::push_back') and len(f.call_args(i)) == 1:
                arg = f.call_args(i)[0]
            if arg is None:
                continue
            nscal += 1
            bad = _not_verbatim(f, arg, P)
            ck.ob('C15.verbatim', 'C15.verbatim/%s#%d' % (ptype, nscal), bad is None, f.loc(i),
                  'the encoder writes `%s` as it is%s' % (f.text(arg)[:60], '' if bad is None else ' — ' + bad))
    ck.floor('C15.verbatim', 'scalar writes in the payload encoders', nscal, 12)

    # ---- the decoder's refusals are a closed set: too short, unsupported version, or the payload parser refused ----------------
    # (encode() emits every message type at every supported version, so any further refusal — by type, by version/type
    # combination, by content — rejects frames the encoder produces)
    def disjuncts(f, n):
        n = f.strip(n)
        if f.nodes[n]['k'] == 'BinaryOperator' and f.nodes[n].get('op') == '||':
            return disjuncts(f, f.kids(n)[0]) + disjuncts(f, f.kids(n)[1])
        return [n]

    def allowed_refusal(f, c):
        nd = f.nodes[c]
        neg = nd['k'] == 'UnaryOperator' and nd.get('op') == '!'
        inner = f.strip(f.kids(c)[0]) if neg else c
        cn = f.nodes[inner]
        if neg and (cn.get('callee') or '') == NS + 'is_supported_message_version':
            a0 = f.call_args(inner)[0]
            return any(f.nodes[j]['k'] in ('CXXOperatorCallExpr', 'ArraySubscriptExpr') for x in origin_chain(f, a0) for j in f.walk(x)) or 'version' in f.text(a0)
        if neg and (cn.get('callee') or '').endswith('::has_value'):
            r_ = declref(f, f.receiver(inner))
            if r_ is None:
                return False
            def from_parser(rhs_, depth=0):
                if rhs_ is None or f.nodes[f.strip(rhs_)]['k'] in ('InitListExpr', 'CXXConstructExpr') and not f.kids(f.strip(rhs_)):
                    return True              # value-initialised: empty until assigned
                if any((f.nodes[j].get('callee') or '') in (ANON + 'parse_announce_payload', ANON + 'decode_payload_v1') for j in f.walk(rhs_)):
                    return True
                locs = {f.nodes[j]['d'] for j in f.walk(rhs_) if f.nodes[j]['k'] == 'DeclRefExpr' and f.nodes[j].get('dk') == 'Var' and not f.nodes[j].get('g')}
                return depth < 3 and bool(locs) and all(all(from_parser(r2, depth + 1) for _k2, r2, _s2 in all_defs(f, d2)) for d2 in locs)
            return all(from_parser(rhs_) for _k, rhs_, _s in all_defs(f, r_))
        cmp_ = comparison(f, c)
        if cmp_ and cmp_[0] in ('<', '<=', '>', '>='):
            return any((f.nodes[j].get('callee') or '').endswith('::size') or f.nodes[j].get('n') == 'remaining' for x in cmp_[1:] for j in f.walk(x)) and \
                any(const_value(f, x) is not None for x in cmp_[1:])
        return False
    ANON = NS + '(anonymous namespace)::'
    bad_ref = []
    nref = 0
    for i in dec.walk():
        if dec.nodes[i]['k'] != 'ReturnStmt' or 'nullopt' not in dec.text(i):
            continue
        nref += 1
        guard = None
        for a_ in dec.ancestors(i):
            if dec.nodes[a_]['k'] == 'IfStmt':
                guard = dec.nodes[a_]['cond']
                break
        if guard is None:
            bad_ref.append((i, 'unconditional refusal'))
            continue
        for c_ in disjuncts(dec, guard):
            if not allowed_refusal(dec, c_):
                bad_ref.append((i, dec.text(c_)[:70]))
    ck.floor('C15.accept', 'refusing exits of decode()', nref, 3)
    ck.ob('C15.accept', 'C15.accept/decode-refusals-closed', not bad_ref, dec.loc(bad_ref[0][0]) if bad_ref else dec.loc(),
          'decode() refuses a frame only because it is too short, its version is unsupported, or the payload parser refused it'
          + ('' if not bad_ref else ' — other cause: `%s`' % bad_ref[0][1]))

    _every_field_on_every_accept(ck, P)
    _payload_refusals_closed(ck, P)

    # ---- the codec keeps no state between calls ---------------------------------------------------------------------------------
    from props.C19 import impure_sites
    for f_ in (enc, dec, P.fn(NS + 'encode_signed'), P.fn(NS + 'decode_signed')) + tuple(f for f in P.fns if f.q.startswith(ANON) and f.file.endswith('Message.cpp')):
        imp = impure_sites(f_)
        ck.ob('C15.pure', 'C15.pure/' + short_(f_.q).split('::')[-1], not imp, f_.loc(imp[0]) if imp else f_.loc(),
              '%s keeps no state between calls (no static / thread_local local, no mutable namespace-scope variable): what is encoded or '
              'decoded depends on the argument alone' % short_(f_.q))


def _not_verbatim(f, root, P=None, depth=0):
    from sa.paths import unique_init
    work = [root]
    seen = set()
    while work:
        i = work.pop()
        if i in seen:
            continue
        seen.add(i)
        nd = f.nodes[i]
        k = nd['k']
        if k in ('ImplicitCastExpr', 'CXXStaticCastExpr', 'CStyleCastExpr', 'CXXFunctionalCastExpr', 'ParenExpr', 'ExprWithCleanups', 'MaterializeTemporaryExpr',
                 'ConstantExpr', 'CXXBindTemporaryExpr'):
            work += f.kids(i)
            continue
        if k == 'MemberExpr':
            if nd.get('mk') == 'Field':
                continue
            work += f.kids(i)
            continue
        if k == 'CXXMemberCallExpr':
            m = (nd.get('callee') or '').split('::')[-1]
            if m in ('count', 'size'):
                work += f.kids(i)
                continue
            return 'call of %s' % m
        if k == 'DeclRefExpr':
            if nd.get('dk') == 'Var' and not nd.get('g'):
                init = unique_init(f, nd['d'], i)
                if init is not None:
                    work.append(init)
                    continue
            continue
        if k == 'ConditionalOperator':
            ks = f.kids(i)
            if all(f.nodes[f.strip(x)].get('cv') in ('0', '1') for x in ks[1:]):
                work.append(ks[0])
                continue
            return 'conditional value'
        if k in ('IntegerLiteral', 'CXXBoolLiteralExpr'):
            continue
        if k == 'CallExpr' and P is not None and depth < 3 and nd.get('callee') in P.by_q:
            # a helper is fine when it only converts: single return whose value is its parameter through casts / .count()
            g = P.by_q[nd['callee']][0]
            rets = [j for j in g.walk() if g.nodes[j]['k'] == 'ReturnStmt' and g.kids(j)]
            others = [j for j in g.walk() if g.nodes[j]['k'] in ('IfStmt', 'ForStmt', 'WhileStmt', 'SwitchStmt', 'CXXTryStmt')]
            if len(rets) == 1 and not others:
                inner = _not_verbatim(g, g.kids(rets[0])[0], P, depth + 1)
                if inner is None:
                    work += f.kids(i)[1:]
                    continue
                return '%s: %s' % (short_(nd['callee']), inner)
        if k in ('CallExpr', 'CXXOperatorCallExpr', 'BinaryOperator', 'UnaryOperator', 'CompoundAssignOperator'):
            return '%s changes the value before it is written' % (short_(nd.get('callee')) if nd.get('callee') else 'operator ' + str(nd.get('op')))
        return 'unrecognised expression %s' % k
    return None


def short_(q):
    return (q or '').replace('ephemeralnet::', '').replace('(anonymous namespace)::', '')


def _every_field_on_every_accept(ck, P):
    """In the payload parsers, every accepting return of a case is reached only after each field that the case assigns anywhere has
    been assigned: no early `return Payload{payload}` hands back a partly default-initialised payload."""
    from sa.paths import must_precede
    from sa.flow import field_accesses
    n = 0
    for q in (AN + 'decode_payload_v1', AN + 'parse_announce_payload'):
        f = P.fn(q)
        ck.touch(f)
        # group by the local payload object: decl id -> {field: [write nodes]}
        objs = {}
        for i, m_, w_ in field_accesses(f):
            if not w_:
                continue
            base = [f.nodes[j] for j in f.walk(i) if f.nodes[j]['k'] == 'DeclRefExpr' and f.nodes[j].get('dk') == 'Var']
            if not base or not m_.startswith(NS) or 'Payload::' not in m_:
                continue
            objs.setdefault(base[-1]['d'], {}).setdefault(m_, []).append(i)
        for d_, fields in sorted(objs.items()):
            rets = [r for r in f.walk() if f.nodes[r]['k'] == 'ReturnStmt' and 'nullopt' not in f.text(r) and
                    any(f.nodes[j]['k'] == 'DeclRefExpr' and f.nodes[j].get('d') == d_ for j in f.walk(r))]
            for m_, writes in sorted(fields.items()):
                n += 1
                ws = set(writes)
                pds = {p_['d'] for p_ in f.params if (p_.get('t') or '').replace('const ', '') == 'bool'}

                def flag_off(fact, f=f, pds=pds):
                    # a field that exists only in some wire versions is selected by a bool parameter of the parser (include_pow)
                    kind, node, val = fact
                    return kind == 'bool' and val is False and f.nodes[node]['k'] == 'DeclRefExpr' and f.nodes[node].get('d') in pds
                late = must_precede(f, rets, lambda e, ws=ws: e in ws or any(f.is_in(w, e) for w in ws), bypass=flag_off) if rets else []
                ck.ob('C15.decode', 'C15.decode/assigned-before-accept/%s' % m_.replace(NS, ''), not late, f.loc(late[0][0]) if late else f.loc(writes[0]),
                      'every return of the decoded payload is reached only after %s was assigned from the wire' % m_.replace(NS, ''), late[0][1] if late else None)
    ck.floor('C15.decode', 'payload fields assigned by the parsers', n, 17)


def _payload_refusals_closed(ck, P):
    """The payload parsers refuse (nullopt) only because too few bytes remain — `remaining < <needed>` — or for an unknown type
    (the switch default): any other reason rejects frames that encode() produces (a size ceiling, a content check)."""
    from props.common import refusal_reasons
    n = 0
    for q in (AN + 'decode_payload_v1', AN + 'parse_announce_payload'):
        f = P.fn(q)
        extra = []
        for r_, conds in refusal_reasons(f, lambda r: 'nullopt' in f.text(r)):
            n += 1
            if conds is None:
                # unconditional refusal: only as the default of the type switch
                in_default = any(f.nodes[a]['k'] == 'DefaultStmt' for a in f.ancestors(r_))
                if not in_default:
                    extra.append((r_, 'unconditional'))
                continue
            for c_ in conds:
                ok = c_[0] in ('<', '>') and ("'remaining'" in repr(c_) or "'size'" in repr(c_)) or \
                    (c_[0] == 'u!' and "'has_value'" in repr(c_))        # a nested parser (announce) refused
                if not ok:
                    extra.append((r_, repr(c_)[:90]))
        ck.ob('C15.accept', 'C15.accept/%s-refusals-closed' % q.split('::')[-1], not extra, f.loc(extra[0][0]) if extra else f.loc(),
              '%s refuses a payload only because too few bytes remain (or the type is unknown)' % q.split('::')[-1] + ('' if not extra else ' — other cause: %s' % extra[0][1]))
    ck.floor('C15.accept', 'refusing exits of the payload parsers', n, 8)

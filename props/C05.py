"""C05 — a cleanup tick removes all expired state and reports each expiry once."""
from sa.paths import gate_check, must_precede, Cfg, loops
from sa.flow import origin_chain, field_accesses, value_sources
from sa.callgraph import CallGraph
from sa.build import AnalysisBroken
from props.common import rx, expired_fact

UNITS = ['src/core/Node.cpp', 'src/core/ChunkStore.cpp', 'src/dht/KademliaTable.cpp']
LEVEL = 'other'
EXPLANATION = (
    'Structural decision of the cleanup tick: (tick) on the cleanup branch of Node::tick, for every id returned by '
    'chunk_store_.sweep_expired() the loop records a cleanup notification, withdraws the node\'s own announcement '
    '(dht_.withdraw_contact(id, id_)) and retires the swarm ledger, then dht_.sweep_expired() runs; (once) '
    'cleanup_notifications_ is appended only by that loop, and chunk records are erased only by '
    'ChunkStore::sweep_expired, each erase paired with reporting the id; (prune) every container holding TTL-bound '
    'state keyed by chunk (chunks_, table_, shard_table_, buckets_, swarm_roles_, pending_chunk_fetches_, '
    'manifest_cache_, swarm_plans_) has an erase reachable from Node::tick, expiry-gated where the container stores its '
    'own deadline; (dht) KademliaTable::sweep_expired sweeps buckets, locators and shard records.')
ASSUMPTIONS = ['the value of audit_ttl after the tick is not computed; it follows from these rules together with C06',
               'histories are represented by the set of erase/report sites, not enumerated']

N = 'ephemeralnet::Node::'
CS = 'ephemeralnet::ChunkStore::'
KT = 'ephemeralnet::KademliaTable::'


def run(ck):
    P = ck.prog(UNITS)
    G = CallGraph(P)
    tick = P.fn(N + 'tick')
    ck.touch(tick)
    sweeps = tick.calls(CS + 'sweep_expired')
    ck.floor('C05.tick', 'chunk_store_.sweep_expired() calls in tick', len(sweeps), 1)
    # the range-for over the swept ids
    fr = [l for l in loops(tick) if tick.nodes[l]['k'] == 'CXXForRangeStmt' and
          any(tick.nodes[j].get('callee') == CS + 'sweep_expired' for j in value_sources(tick, tick.nodes[l]['range']))]
    ck.ob('C05.tick', 'C05.tick/loop-over-swept-ids', len(fr) == 1, tick.loc(), 'tick iterates over the ids returned by chunk_store_.sweep_expired()')
    if fr:
        body = tick.nodes[fr[0]]['body']
        var_d = tick.nodes[tick.nodes[fr[0]]['var']]['d']

        def uses_var(n):
            return any(tick.nodes[j]['k'] == 'DeclRefExpr' and tick.nodes[j].get('d') == var_d for j in value_sources(tick, n))
        push = [c for c in tick.calls(rx(r'vector<std::basic_string<char>.*::push_back$'), body)
                if tick.nodes[tick.receiver(c)].get('m') == N + 'cleanup_notifications_']
        ck.ob('C05.tick', 'C05.tick/notify', len(push) == 1 and uses_var(tick.call_args(push[0])[0]), tick.loc(fr[0]),
              'each swept id is appended to cleanup_notifications_')
        wd = tick.calls(KT + 'withdraw_contact', body)
        ok = len(wd) == 1 and uses_var(tick.call_args(wd[0])[0]) and tick.nodes[tick.strip(tick.call_args(wd[0])[1])].get('m') == N + 'id_'
        ck.ob('C05.tick', 'C05.tick/withdraw-own-announcement', ok, tick.loc(fr[0]), 'dht_.withdraw_contact(id, own id) for each swept id')
        rt = tick.calls(N + 'retire_swarm_ledger', body)
        ck.ob('C05.tick', 'C05.tick/retire-ledger', len(rt) == 1 and uses_var(tick.call_args(rt[0])[0]), tick.loc(fr[0]),
              'retire_swarm_ledger(id) for each swept id')
        # none of the three is conditional inside the loop body
        cfgb = [i for i in tick.walk(body) if tick.nodes[i]['k'] in ('IfStmt', 'ContinueStmt', 'BreakStmt', 'ReturnStmt')]
        ck.ob('C05.tick', 'C05.tick/unconditional', not cfgb, tick.loc(fr[0]), 'the per-id cleanup is unconditional (no branch/continue/break in the loop body)')
    ds = tick.calls(KT + 'sweep_expired')
    cfg = Cfg.of(tick)
    ok = len(ds) == 1 and bool(sweeps) and cfg.dominates(cfg.locate(sweeps[0]), cfg.locate(ds[0]))
    ck.ob('C05.tick', 'C05.tick/dht-sweep', ok, tick.loc(), 'dht_.sweep_expired() runs on the cleanup branch, after the chunk sweep')
    # both sweeps sit under the same cleanup-interval condition and nothing else
    ifs = [a for a in tick.ancestors(sweeps[0]) if tick.nodes[a]['k'] == 'IfStmt'] if sweeps else []
    ok = len(ifs) == 1 and any(tick.nodes[j].get('m') == 'ephemeralnet::Config::cleanup_interval' for j in tick.walk(tick.nodes[ifs[0]]['cond']))
    ck.ob('C05.tick', 'C05.tick/branch', ok, tick.loc(), 'the cleanup branch is guarded only by elapsed >= cleanup_interval')

    # ---- (once) -----------------------------------------------------------------------------
    producers = set()
    for f in P.fns:
        for c in f.calls(rx(r'::(push_back|emplace_back|insert)$')):
            r = f.receiver(c)
            if r is not None and f.nodes[r].get('m') == N + 'cleanup_notifications_':
                producers.add(f.q)
    ck.ob('C05.once', 'C05.once/single-producer', producers == {N + 'tick'}, tick.loc(),
          'cleanup notifications are produced only by the tick loop (found: %s)' % sorted(producers))
    n_er = 0
    for f in P.fns:
        for c in f.calls(rx(r'unordered_map<.*ChunkRecord.*::erase$')):
            n_er += 1
            ck.touch(f)

            def is_report(n, f=f):
                nd = f.nodes[n]
                return nd.get('callee', '').endswith('::push_back') and \
                    any(f.nodes[j].get('m') == 'ephemeralnet::ChunkRecord::id' for j in f.walk(n))
            mp = must_precede(f, [c], is_report)
            rets = [r for r in f.walk() if f.nodes[r]['k'] == 'ReturnStmt']
            ck.ob('C05.once', 'C05.once/%s/erase#%d' % (f.name, n_er), f.q == CS + 'sweep_expired' and not mp, f.loc(c),
                  'a chunk record is erased only by sweep_expired, after its id was pushed to the returned list',
                  mp[0][1] if mp else None)
    ck.floor('C05.once', 'chunk record erase sites', n_er, 1)

    # ---- (prune) ------------------------------------------------------------------------------
    reach = G.reachable([N + 'tick'])
    containers = [
        (CS + 'chunks_', True), (KT + 'table_', False), (KT + 'shard_table_', True), (KT + 'buckets_', False),
        (N + 'swarm_roles_', False), (N + 'pending_chunk_fetches_', False), (N + 'manifest_cache_', True),
        (N + 'swarm_plans_', False),
    ]
    for field, own_deadline in containers:
        sites = []
        for f in P.fns:
            if f.q not in reach:
                continue
            for i in f.walk():
                nd = f.nodes[i]
                if nd['k'] == 'CXXMemberCallExpr' and nd.get('callee', '').endswith('::erase'):
                    r = f.receiver(i)
                    if r is not None and any(f.nodes[j].get('m') == field for j in value_sources(f, r)):
                        sites.append((f, i))
        ok = bool(sites)
        detail = ''
        if ok and own_deadline:
            gated = []
            for f, i in sites:
                fails, _ = gate_check(f, [('erase', i)], [('expired', expired_fact(f))])
                if not fails:
                    gated.append((f, i))
            ok = bool(gated)
            detail = ' on the edge now >= deadline'
        ck.ob('C05.prune', 'C05.prune/' + field.split('::')[-1], ok, sites[0][0].loc(sites[0][1]) if sites else tick.loc(),
              '%s has an erase%s reachable from Node::tick (sites: %s)' %
              (field.split('::', 1)[1], detail, [f.name for f, _ in sites][:4]))

    # ---- (sweep-all) every element found expired by a sweep loop is erased in that same pass ------------
    from sa.paths import must_pass_before_next_iteration
    for field, fq, also in ((CS + 'chunks_', CS + 'sweep_expired', None), (KT + 'shard_table_', KT + 'sweep_expired', None),
                            (N + 'manifest_cache_', N + 'tick', N + 'swarm_plans_')):
        f = P.fn(fq)
        ck.touch(f)
        cfgf = Cfg.of(f)

        def erases(field_):
            out = []
            for i in f.walk():
                nd = f.nodes[i]
                if nd['k'] == 'CXXMemberCallExpr' and nd.get('callee', '').endswith('::erase'):
                    r = f.receiver(i)
                    if r is not None and f.nodes[r].get('m') == field_:
                        out.append(i)
            return out
        er = erases(field)
        lps = [l for l in loops(f) if any(f.is_in(e, l) for e in er)]
        ck.floor('C05.sweep', 'sweep loop over %s in %s' % (field.split('::')[-1], f.name), len(lps), 1)
        n_edges = 0
        for lp in lps:
            for bid, succ, label in cfgf.pass_edges(expired_fact(f, names=('expires_at',))):
                cnd = cfgf.blocks[bid].get('cond')
                if cnd is None or not f.is_in(cnd, lp):
                    continue
                n_edges += 1
                wit = must_pass_before_next_iteration(f, succ, lambda e: e in er or any(f.is_in(x, e) for x in er) and f.nodes[e]['k'] in ('ExprWithCleanups', 'BinaryOperator', 'CXXOperatorCallExpr'), lp)
                ck.ob('C05.sweep', 'C05.sweep/%s/%s#%d' % (f.name, field.split('::')[-1], n_edges), wit is None, f.loc(cnd),
                      'in the sweep loop over %s, an entry found expired (now >= deadline) is always erased before the loop moves on '
                      '— no condition other than expiry can keep it' % field.split('::')[-1], wit)
        ck.floor('C05.sweep', 'expiry tests in the sweep loop over %s' % field.split('::')[-1], n_edges, 1)
        if also:
            er2 = erases(also)
            mp = must_precede(f, er, lambda e: e in er2 or any(f.is_in(x, e) for x in er2) and f.nodes[e]['k'] == 'ExprWithCleanups')
            ck.ob('C05.sweep', 'C05.sweep/%s/%s-with-%s' % (f.name, also.split('::')[-1], field.split('::')[-1]), bool(er2) and not mp, f.loc(),
                  'whenever an expired %s entry is erased, the matching %s entry is erased first' % (field.split('::')[-1], also.split('::')[-1]),
                  mp[0][1] if mp else None)

    # ---- (dht) --------------------------------------------------------------------------------
    se = P.fn(KT + 'sweep_expired')
    ck.touch(se)
    ok = bool(se.calls(KT + 'sweep_buckets')) and bool(se.calls(rx(r'unordered_map<.*ChunkLocator.*::erase$'))) and \
        bool(se.calls(rx(r'unordered_map<.*KeyShardRecord.*::erase$')))
    ck.ob('C05.dht', 'C05.dht/three-tables', ok, se.loc(), 'KademliaTable::sweep_expired sweeps buckets, locators and shard records')
    sb = P.fn(KT + 'sweep_buckets')
    fr = [l for l in loops(sb) if sb.nodes[l]['k'] == 'CXXForRangeStmt' and sb.nodes[sb.strip(sb.nodes[l]['range'])].get('m') == KT + 'buckets_']
    ck.ob('C05.dht', 'C05.dht/all-buckets', len(fr) == 1 and bool(sb.calls(rx(r'deque<.*PeerContact.*::erase$'), sb.nodes[fr[0]]['body'])) if fr else False,
          sb.loc(), 'sweep_buckets visits every bucket')
    # every locator's holders are pruned on every pass: the per-holder erase(remove_if(expired)) is met in each iteration of the
    # locator loop before it moves on (a locator's own deadline is the longest-lived provider's, so it says nothing about the others)
    from sa.paths import Cfg as _Cfg
    lps = [l for l in loops(se) if se.nodes[l]['k'] == 'ForStmt' and any(se.nodes[j].get('m') == KT + 'table_' for j in se.walk(l))]
    prunes = [i for i in se.walk() if (se.nodes[i].get('callee') or '').endswith('::erase') and
              any(se.nodes[j].get('callee') == 'std::remove_if' for j in se.walk(i))]
    ck.floor('C05.dht', 'locator loop in KademliaTable::sweep_expired', len(lps), 1)
    cfg_se = _Cfg.of(se)
    for lp in lps[:1]:
        body = se.nodes[lp]['body']
        first = cfg_se.locate(se.kids(body)[0]) if se.kids(body) else None
        start = first[0] if first else None
        wit = ['loop body not found'] if start is None else must_pass_before_next_iteration(
            se, start, lambda e: e in prunes or any(se.is_in(x, e) for x in prunes) and se.nodes[e]['k'] in ('ExprWithCleanups', 'CXXMemberCallExpr'), lp)
        # the required element may sit in the first block itself
        if wit is not None and start is not None and any(isinstance(e, int) and (e in prunes or any(se.is_in(x, e) for x in prunes)) for e in cfg_se.blocks[start]['e']):
            wit = None
        ck.ob('C05.dht', 'C05.dht/holders-pruned-every-pass', bool(prunes) and wit is None, se.loc(lp),
              'each iteration of the locator loop removes the expired holders before it decides about the locator', wit)

    # ---- both sweeps look at every entry on every call: no cached horizon returns before the scan -----------------------------------
    from props.common import always_scans
    for q_, member_, what_ in ((CS + 'sweep_expired', CS + 'chunks_', 'chunks_'), (KT + 'sweep_expired', KT + 'table_', 'table_')):
        f_ = P.fn(q_)
        ck.touch(f_)
        lps_, wit_ = always_scans(f_, member_)
        ck.ob('C05.sweep', 'C05.sweep/%s/always-scans' % q_.split('::')[-2], bool(lps_) and wit_ is None, f_.loc(),
              'every call of %s walks %s: a cleanup tick cannot skip expired state because a remembered "next expiry" is stale' % (q_.replace('ephemeralnet::', ''), what_), wit_)

    # ---- erase-while-iterating loops advance in exactly one place: `it = c.erase(it)` loops have no increment in the for header -----------------------
    from sa.paths import loops as _loops05
    n_el = 0
    for q_ in (KT + 'sweep_expired', CS + 'sweep_expired', N + 'tick'):
        f_ = P.fn(q_)
        for l in _loops05(f_):
            nd = f_.nodes[l]
            if nd['k'] != 'ForStmt':
                continue
            er_ = [i for i in f_.walk(nd['body']) if (f_.nodes[i].get('callee') or '').endswith('::erase') and f_.nodes[i]['k'] == 'CXXMemberCallExpr']
            asg_ = [i for i in f_.walk(nd['body']) if f_.nodes[i]['k'] in ('CXXOperatorCallExpr', 'BinaryOperator') and f_.nodes[i].get('op') == '=' and any(e in set(f_.walk(i)) for e in er_)]
            if not asg_:
                continue
            n_el += 1
            inc = nd.get('inc')
            ck.ob('C05.sweep', 'C05.sweep/%s/erase-loop-single-advance#%d' % (q_.split('::')[-2], n_el), inc is None or inc < 0, f_.loc(l),
                  'a loop that erases with `it = c.erase(it)` does not also advance `it` in its for header (that would skip the element after every erased one)')
    ck.floor('C05.sweep', 'erase-while-iterating loops in the sweeps', n_el, 3)

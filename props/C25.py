"""C25 — relay bridges deliver bytes only to the bridged partner (typestate / effect clauses)."""
from sa.paths import gate_check, Cfg, must_precede
from sa.flow import origin_chain, value_sources, field_accesses
from sa.match import holds, comparison, const_value
from sa.build import AnalysisBroken
from props.common import declref, assignments, literal_text

UNITS = ['src/relay/RelayServer.cpp']
LEVEL = 'other'
EXPLANATION = (
    'Recipient discipline: every queue_binary/queue_text call targets either the handling session itself (protocol replies built '
    'from literals) or the result of session->partner.lock(); bytes received from a client are forwarded only in state Bridged '
    '(handle_read -> forward_to_partner) or by handle_identity_ready, which sets both ends Bridged before it queues the identity '
    'and buffered bytes to the partner and runs only in state AwaitingIdentity. Symmetry: `a->partner = b` is paired with '
    '`b->partner = a` in the same block, and state Bridged is assigned to both ends together. Single claim: handle_connect pairs '
    'only with a session returned by find_registered (state Registered, unclaimed) and erases it from registered_ first; every '
    'insertion into registered_ requires the session to be unclaimed (partner expired / just reset). Close propagation: '
    'close_session always reaches detach_partner, which closes a partner in AwaitingIdentity or Bridged.')
ASSUMPTIONS = ['in-order, loss-free forwarding and all interleavings of several clients are protocol-model territory and not decided',
               'the event loop is single threaded']

R = 'ephemeralnet::relay::RelayServer::'
CS = R + 'ClientSession::'
ST = 'ephemeralnet::relay::RelayServer::SessionState::'


def partner_lock_local(fn, n, session_d):
    """n is a local initialised from <session>->partner.lock()."""
    for i in origin_chain(fn, n):
        nd = fn.nodes[i]
        if 'weak_ptr<ephemeralnet::relay::RelayServer::ClientSession' in nd.get('callee', '') and nd.get('callee', '').endswith('::lock'):
            r = fn.receiver(i)
            return r is not None and fn.nodes[r].get('m') == CS + 'partner' and \
                any(fn.nodes[j]['k'] == 'DeclRefExpr' and fn.nodes[j].get('d') == session_d for j in fn.walk(r))
    return False


def state_fact(fn, fact, who_d, state, val=True):
    h = holds(fn, fact)
    if not h:
        return False
    a, rel, b = h
    for x, y in ((a, b), (b, a)):
        xn = fn.nodes[fn.strip(x)]
        yn = fn.nodes[fn.strip(y)]
        if xn.get('m') == CS + 'state' and any(fn.nodes[j].get('d') == who_d for j in fn.walk(x) if fn.nodes[j]['k'] == 'DeclRefExpr') and yn.get('n') == state:
            return rel == ('==' if val else '!=')
    return False


def basevar(fn, n):
    """Name of the first local/parameter referenced in an expression such as session->partner."""
    for j in fn.walk(n):
        nd = fn.nodes[j]
        if nd['k'] == 'DeclRefExpr' and nd.get('dk') in ('Var', 'ParmVar', 'Binding'):
            return nd['n']
    return fn.text(n)


def run(ck):
    P = ck.prog(UNITS)
    fns = {f.q: f for f in P.fns if f.q.startswith(R)}
    # ---- recipient discipline ----------------------------------------------------------------------------
    nq = 0
    for q, f in fns.items():
        if not f.params or 'ClientSession' not in f.params[0].get('t', ''):
            continue
        sd = f.params[0]['d']
        for c in f.calls((R + 'queue_binary', R + 'queue_text')):
            nq += 1
            ck.touch(f)
            a = f.call_args(c)
            own = declref(f, a[0], sd) is not None
            part = partner_lock_local(f, a[0], sd)
            if own and f.q != R + 'queue_text':
                # replies to the sender carry only literal protocol text
                lit = literal_text(f, a[1]) is not None or f.nodes[f.strip(a[1])]['k'] == 'StringLiteral' or \
                    any(f.nodes[j]['k'] == 'StringLiteral' for j in f.walk(a[1]))
                ck.ob('C25.recipient', 'C25.recipient/%s#%d' % (f.name.split('::')[-1], c), lit, f.loc(c),
                      'a message queued to the sending session itself is literal protocol text')
            else:
                ck.ob('C25.recipient', 'C25.recipient/%s#%d' % (f.name.split('::')[-1], c), own or part, f.loc(c),
                      'the recipient of queued bytes is the session itself or the result of session->partner.lock()')
    ck.floor('C25.recipient', 'queue_binary/queue_text call sites', nq, 12)
    # handle_read forwards only when Bridged
    hr = fns[R + 'handle_read']
    sd = hr.params[0]['d']
    fw = hr.calls(R + 'forward_to_partner')
    ck.floor('C25.bridged', 'forward_to_partner calls in handle_read', len(fw), 1)
    fails, _ = gate_check(hr, [('forward', c) for c in fw], [('state==Bridged', lambda fact: state_fact(hr, fact, sd, 'Bridged'))])
    ck.ob('C25.bridged', 'C25.bridged/handle_read', not fails, hr.loc(), 'received bytes are forwarded only while the session is Bridged',
          fails[0][3] if fails else None)
    allfw = [(f, c) for f in fns.values() for c in f.calls(R + 'forward_to_partner')]
    ck.ob('C25.bridged', 'C25.bridged/single-forward-site', len(allfw) == len(fw), hr.loc(), 'forward_to_partner is called only from handle_read')
    # protocol parsing is not applied to bridged sessions (data is not interpreted as commands)
    pp = hr.calls(R + 'process_protocol')
    fails, _ = gate_check(hr, [('process_protocol', c) for c in pp], [('state!=Bridged', lambda fact: state_fact(hr, fact, sd, 'Bridged', False))])
    ck.ob('C25.bridged', 'C25.bridged/no-parse-when-bridged', not fails and bool(pp), hr.loc(), 'bytes of a bridged session are never parsed as relay commands')
    # handle_identity_ready
    hi = fns[R + 'handle_identity_ready']
    ck.touch(hi)
    sd = hi.params[0]['d']
    cfg = Cfg.of(hi)
    qb = hi.calls(R + 'queue_binary')
    st_asg = [(l, r, s) for l, r, s in assignments(hi) if hi.nodes[hi.strip(l)].get('m') == CS + 'state' and hi.nodes[hi.strip(r)].get('n') == 'Bridged']
    who = set()
    for l, r, s in st_asg:
        base = hi.kids(hi.strip(l))[0]
        who.add('session' if any(hi.nodes[j].get('d') == sd for j in hi.walk(base) if hi.nodes[j]['k'] == 'DeclRefExpr') else
                ('partner' if partner_lock_local(hi, [j for j in hi.walk(base) if hi.nodes[j]['k'] == 'DeclRefExpr' and hi.nodes[j].get('dk') == 'Var'][0], sd) else '?'))
    ok = who == {'session', 'partner'} and len(st_asg) == 2 and all(cfg.dominates(cfg.locate(s), cfg.locate(c)) for _l, _r, s in st_asg for c in qb)
    ck.ob('C25.bridged', 'C25.bridged/identity-sets-both-first', ok and len(qb) >= 1, hi.loc(),
          'handle_identity_ready marks both ends Bridged before it queues any relayed bytes to the partner')
    fails, _ = gate_check(hi, [('queue', c) for c in qb] + [('set Bridged', s) for _l, _r, s in st_asg],
                          [('state==AwaitingIdentity', lambda fact: state_fact(hi, fact, sd, 'AwaitingIdentity'))])
    ck.ob('C25.bridged', 'C25.bridged/identity-only-when-awaiting', not fails, hi.loc(), 'a bridge is established only from state AwaitingIdentity',
          fails[0][3] if fails else None)

    # ---- symmetry ------------------------------------------------------------------------------------------
    npair = 0
    for q, f in fns.items():
        pa = [(l, r, s) for l, r, s in assignments(f) if f.nodes[f.strip(l)].get('m') == CS + 'partner']
        for l, r, s in pa:
            npair += 1
            ck.touch(f)
            lbase = basevar(f, f.kids(f.strip(l))[0])
            rtxt = basevar(f, r)
            mate = [x for x in pa if basevar(f, f.kids(f.strip(x[0]))[0]) == rtxt and basevar(f, x[1]) == lbase]
            same_block = any([a for a in f.ancestors(x[2]) if f.nodes[a]['k'] == 'CompoundStmt'][0] == [a for a in f.ancestors(s) if f.nodes[a]['k'] == 'CompoundStmt'][0] for x in mate)
            ck.ob('C25.symmetry', 'C25.symmetry/%s/%s' % (f.name.split('::')[-1], lbase), bool(mate) and same_block, f.loc(s),
                  '%s->partner = %s is paired with %s->partner = %s in the same block' % (lbase, rtxt, rtxt, lbase))
    ck.floor('C25.symmetry', 'partner assignments', npair, 2)

    # ---- single claim -----------------------------------------------------------------------------------------
    hc = fns[R + 'handle_connect']
    ck.touch(hc)
    pa = [(l, r, s) for l, r, s in assignments(hc) if hc.nodes[hc.strip(l)].get('m') == CS + 'partner']
    er = [i for i in hc.walk() if hc.nodes[i].get('callee', '').endswith('::erase') and hc.receiver(i) is not None and hc.nodes[hc.receiver(i)].get('m') == R + 'registered_']
    mp = must_precede(hc, [s for _l, _r, s in pa], lambda e: e in er)
    ck.ob('C25.claim', 'C25.claim/erase-before-pair', bool(er) and not mp and bool(pa), hc.loc(), 'handle_connect erases the target from registered_ before pairing',
          mp[0][1] if mp else None)
    tgt = [nd for nd in hc.nodes if nd['k'] == 'VarDecl' and nd.get('n') == 'target']
    ok = len(tgt) == 1 and hc.nodes[hc.strip(tgt[0]['init'])].get('callee') == R + 'find_registered'
    ck.ob('C25.claim', 'C25.claim/target-from-find_registered', ok, hc.loc(), 'the pairing target is the result of find_registered(target_hex)')
    fr = fns[R + 'find_registered']
    ck.touch(fr)
    sess = [nd['d'] for nd in fr.nodes if nd['k'] == 'VarDecl' and nd.get('n') == 'session']
    rets = [i for i in fr.walk() if fr.nodes[i]['k'] == 'ReturnStmt' and sess and
            any(fr.nodes[j]['k'] == 'DeclRefExpr' and fr.nodes[j].get('d') == sess[0] for j in fr.walk(i))]

    def g_reg(fact):
        return bool(sess) and state_fact(fr, fact, sess[0], 'Registered')
    fails, _ = gate_check(fr, [('return session', r) for r in rets], [('state==Registered', g_reg)])
    ck.ob('C25.claim', 'C25.claim/find-only-registered', bool(rets) and not fails, fr.loc(), 'find_registered returns only sessions in state Registered',
          fails[0][3] if fails else None)
    # a connector must not itself be registered / claimed
    sd = hc.params[0]['d']
    fails, _ = gate_check(hc, [('pair', s) for _l, _r, s in pa], [('connector-not-registered', lambda fact: state_fact(hc, fact, sd, 'Registered', False))])
    ck.ob('C25.claim', 'C25.claim/connector-not-registered', not fails, hc.loc(), 'a session in state Registered cannot act as connector', fails[0][3] if fails else None)
    # insertions into registered_
    nins = 0
    for q, f in fns.items():
        for l, r, s in assignments(f):
            ln = f.nodes[f.strip(l)]
            if ln['k'] == 'CXXOperatorCallExpr' and ln.get('op') == '[]' and f.nodes[f.strip(f.kids(f.strip(l))[1])].get('m') == R + 'registered_':
                nins += 1
                ck.touch(f)
                who_txt = basevar(f, r)

                def g_unclaimed(fact, f=f, who_txt=who_txt):
                    kind, node, val = fact
                    nd = f.nodes[node]
                    if kind == 'bool' and val is True and nd.get('callee', '').endswith('::expired'):
                        rr = f.receiver(node)
                        return rr is not None and f.nodes[rr].get('m') == CS + 'partner' and basevar(f, f.kids(rr)[0]) == who_txt
                    return False
                fails, _ = gate_check(f, [('insert', s)], [('partner-expired', g_unclaimed)])
                ok = not fails
                if not ok:
                    # or the partner link of that very session was reset on every path before (detach_partner)
                    resets = [i for i in f.walk() if 'weak_ptr<ephemeralnet::relay::RelayServer::ClientSession' in f.nodes[i].get('callee', '') and f.nodes[i].get('callee', '').endswith('::reset') and
                              f.receiver(i) is not None and f.nodes[f.receiver(i)].get('m') == CS + 'partner' and basevar(f, f.kids(f.receiver(i))[0]) == who_txt]
                    ok = bool(resets) and not must_precede(f, [s], lambda e: e in resets)
                ck.ob('C25.claim', 'C25.claim/insert-unclaimed/%s' % f.name.split('::')[-1], ok, f.loc(s),
                      'a session enters registered_ only when nobody has claimed it (its partner link is expired or was just reset)',
                      fails[0][3] if fails and not ok else None)
    ck.floor('C25.claim', 'insertions into registered_', nins, 2)

    # ---- close propagation --------------------------------------------------------------------------------------
    cs = fns[R + 'close_session']
    ck.touch(cs)
    cfgc = Cfg.of(cs)
    flag = [s for l, r, s in assignments(cs) if cs.nodes[cs.strip(l)].get('m') == CS + 'closing']
    wit = cfgc.must_pass(flag[0], lambda e: cs.nodes[e].get('callee') == R + 'detach_partner') if flag else ['closing flag not set']
    ck.ob('C25.close', 'C25.close/always-detaches', wit is None, cs.loc(), 'close_session always calls detach_partner', wit)
    dp = fns[R + 'detach_partner']
    ck.touch(dp)
    cl = dp.calls(R + 'close_session')
    ok = False
    if len(cl) == 1:
        for a in dp.ancestors(cl[0]):
            if dp.nodes[a]['k'] == 'IfStmt' and dp.is_in(cl[0], dp.nodes[a].get('then')):
                names = {dp.nodes[j].get('n') for j in dp.walk(dp.nodes[a]['cond']) if dp.nodes[j].get('dk') == 'EnumConstant'}
                ors = dp.nodes[dp.strip(dp.nodes[a]['cond'])].get('op') == '||'
                ok = {'AwaitingIdentity', 'Bridged'} <= names and ors
                break
        ok = ok and partner_lock_local(dp, dp.call_args(cl[0])[0], dp.params[0]['d'])
    ck.ob('C25.close', 'C25.close/partner-closed', ok, dp.loc(), 'detach_partner closes the partner when it is AwaitingIdentity or Bridged')

    # ---- one spelling of a key: what a connector looks up is what gets un-listed -----------------------------------------------------
    from sa.canon import canon as _canon
    fr_ = P.fn(R + 'find_registered')
    ck.touch(fr_)
    finds = [i for i in fr_.walk() if (fr_.nodes[i].get('callee') or '').endswith('::find') and
             fr_.nodes[fr_.strip(fr_.receiver(i))].get('m', '').endswith('RelayServer::registered_')]
    okf = len(finds) == 1 and _canon(fr_, fr_.call_args(finds[0])[0]) == ('v', fr_.params[0]['n'])
    ck.ob('C25.claim', 'C25.claim/lookup-key-verbatim', okf, fr_.loc(finds[0]) if finds else fr_.loc(),
          'find_registered looks registered_ up under exactly the text it was given (the caller un-lists the target under that same text)')
    hc_ = P.fn(R + 'handle_connect')
    ck.touch(hc_)
    looks = [i for i in hc_.walk() if hc_.nodes[i].get('callee') == R + 'find_registered']
    erases_ = [i for i in hc_.walk() if (hc_.nodes[i].get('callee') or '').endswith('::erase') and
               hc_.nodes[hc_.strip(hc_.receiver(i))].get('m', '').endswith('RelayServer::registered_')]
    oke = len(looks) == 1 and len(erases_) >= 1 and all(_canon(hc_, hc_.call_args(e)[0]) == _canon(hc_, hc_.call_args(looks[0])[0]) for e in erases_)
    ck.ob('C25.claim', 'C25.claim/unlist-same-key', oke, hc_.loc(erases_[0]) if erases_ else hc_.loc(),
          'handle_connect removes the claimed registration under the very key it looked it up with')

    # ---- the bridged test is made per received chunk: a bridge can come into being in the middle of one read burst --------------------
    hr_ = P.fn(R + 'handle_read')
    ck.touch(hr_)
    lps_ = [i for i in hr_.walk() if hr_.nodes[i]['k'] in ('WhileStmt', 'ForStmt', 'DoStmt')]
    fwd_ = [i for i in hr_.walk() if hr_.nodes[i].get('callee') == R + 'forward_to_partner']
    okb = bool(fwd_) and bool(lps_)
    why_ = ''
    for c_ in fwd_:
        guards_ = [a for a in hr_.ancestors(c_) if hr_.nodes[a]['k'] == 'IfStmt' and hr_.is_in(c_, hr_.nodes[a]['then'])]
        in_loop = [g for g in guards_ if any(hr_.is_in(g, l_) for l_ in lps_)]
        direct = [g for g in in_loop if any(hr_.nodes[j]['k'] == 'MemberExpr' and hr_.nodes[j].get('m', '').endswith('ClientSession::state') for j in hr_.walk(hr_.nodes[g]['cond']))]
        if not direct:
            okb, why_ = False, 'the Bridged test guarding forward_to_partner does not read session->state inside the receive loop'
    ck.ob('C25.forward', 'C25.forward/bridged-tested-per-chunk', okb, hr_.loc(fwd_[0]) if fwd_ else hr_.loc(),
          'handle_read decides relay-or-parse from session->state for every received chunk%s' % ((' — ' + why_) if why_ else ''))

    # ---- one listing per session: re-registration unlists the old id before the session takes the new one ------------------------
    # (otherwise the session stays claimable under both ids and two connectors can be "bridged" to it; its bytes reach one of them)
    hr_ = P.fn(R + 'handle_register')
    ck.touch(hr_)
    rm_ = [i for i in hr_.walk() if hr_.nodes[i].get('callee') == R + 'remove_registration']
    rekey = [i for i, m_, w_ in field_accesses(hr_) if w_ and m_.endswith(('ClientSession::peer_hex', 'ClientSession::peer_id'))]
    ck.floor('C25.claim', 'writes of the registration key in handle_register', len(rekey), 1)
    late = must_precede(hr_, rekey, lambda e, s_=set(rm_): e in s_ or any(hr_.is_in(x, e) for x in s_) and hr_.nodes[e]['k'] == 'ExprWithCleanups') if rm_ else [(rekey[0], ['no remove_registration call'])]
    ck.ob('C25.claim', 'C25.claim/unlist-before-rekey', not late, hr_.loc(late[0][0]) if late else hr_.loc(),
          'handle_register calls remove_registration(session) before it overwrites session->peer_id / peer_hex, so a session is listed under one id only',
          late[0][1] if late else None)

    # ---- while the connector's 32 identity bytes are outstanding nothing is parsed as a command line ------------------------------------
    from sa.match import holds as _h25
    pp = P.fn(R + 'process_protocol')
    ck.touch(pp)
    hl = [i for i in pp.walk() if pp.nodes[i].get('callee') == R + 'handle_line']
    finds = [i for i in pp.walk() if (pp.nodes[i].get('callee') or '').endswith('::find') and any(pp.nodes[j]['k'] == 'CharacterLiteral' for j in pp.walk(i))]

    def not_awaiting(fact):
        h = _h25(pp, fact)
        if h is None:
            return False
        a_, op_, b_ = h
        return op_ == '!=' and any((pp.nodes[pp.strip(x)].get('m') or '').endswith('ClientSession::state') for x in (a_, b_)) and \
            any((pp.nodes[pp.strip(x)].get('q') or '').endswith('SessionState::AwaitingIdentity') for x in (a_, b_))
    ck.floor('C25.forward', 'line-parsing steps in process_protocol', len(hl) + len(finds), 2)
    fails25, _ = gate_check(pp, [('handle_line', i) for i in hl] + [('newline search', i) for i in finds], [('state != AwaitingIdentity', not_awaiting)])
    ck.ob('C25.forward', 'C25.forward/no-line-parsing-while-awaiting-identity', not fails25, pp.loc(fails25[0][2]) if fails25 else pp.loc(),
          'process_protocol searches for a newline / dispatches a command line only when the session is not AwaitingIdentity (a partial identity '
          'containing 0x0A must wait for its remaining bytes, not be cut up as a command)', fails25[0][3] if fails25 else None)

    # ---- relayed bytes keep their order: everything for a session goes through its write_buffer, which only handle_write drains --------------
    qb = P.fn(R + 'queue_binary')
    ck.touch(qb)
    direct = [(f, i) for f in P.fns if f.q.startswith(R) and f.q != R + 'handle_write' for i in f.walk() if (f.nodes[i].get('callee') or '') in ('send', '::send', 'write', '::write', 'sendmsg', 'writev')]
    app = [i for i in qb.walk() if (qb.nodes[i].get('callee') or '').endswith('::append')]
    ck.ob('C25.forward', 'C25.forward/single-writer-path', not direct and len(app) == 1, direct[0][0].loc(direct[0][1]) if direct else qb.loc(),
          'only handle_write sends on a client socket; queue_binary appends to the session write_buffer (a direct send from the queueing side '
          'overtakes bytes still buffered)' + ('' if not direct else ' — send in %s' % direct[0][0].name))

    # ---- a bridged chunk is forwarded whole: forward_to_partner hands (data, size) unchanged to queue_binary on every path with a partner ------
    fp_ = P.fn(R + 'forward_to_partner')
    ck.touch(fp_)
    qs = [i for i in fp_.walk() if fp_.nodes[i].get('callee') == R + 'queue_binary']
    whole_ok = len(qs) == 1 and declref(fp_, fp_.call_args(qs[0])[1], fp_.params[1]['d']) is not None and declref(fp_, fp_.call_args(qs[0])[2], fp_.params[2]['d']) is not None
    rets_fp = [i for i in fp_.walk() if fp_.nodes[i]['k'] == 'ReturnStmt']
    from props.common import refusal_reasons as _rr25
    odd_ret = []
    for r_, conds in _rr25(fp_, lambda r: True):
        for c_ in (conds or [('unconditional',)]):
            if not ((c_[0] == 'u!' and 'partner' in repr(c_)) or (c_[0] == 'm' and c_[-1] == 'closing' and 'partner' in repr(c_))):
                odd_ret.append((r_, c_))
    ck.ob('C25.forward', 'C25.forward/whole-chunk-forwarded', whole_ok and not odd_ret, fp_.loc(odd_ret[0][0]) if odd_ret else fp_.loc(),
          'forward_to_partner queues exactly the (data, size) it was given and gives up only when the partner is gone or closing: no backlog limit drops or shortens relayed bytes'
          + ('' if not odd_ret else ' — return under %r' % (odd_ret[0][1],)))

    # ---- a line is removed from the buffer before its handler runs (handlers that switch the session to identity / bridged mode read the buffer from 0)
    er_ = [i for i in pp.walk() if (pp.nodes[i].get('callee') or '').endswith('basic_string<char>::erase') and any((pp.nodes[j].get('m') or '').endswith('ClientSession::read_buffer') for j in pp.walk(i))]
    late25 = must_precede(pp, hl, lambda e, s_=set(er_): e in s_ or any(pp.is_in(x, e) for x in s_)) if er_ and hl else [(None, ['erase or handle_line not found'])]
    ck.ob('C25.forward', 'C25.forward/line-consumed-before-dispatch', not late25, pp.loc(hl[0]) if hl else pp.loc(),
          'process_protocol erases a command line from read_buffer before handle_line runs: after a CONNECT the buffer starts with the identity bytes, not with the command text',
          late25[0][1] if late25 else None)

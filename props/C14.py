"""C14 — transport sessions deliver exactly what was sent, within the size limit (structural clauses)."""
import re

from sa.paths import gate_check, loops, Cfg
from sa.flow import value_sources, origin_chain, all_defs
from sa.match import holds, const_value, comparison
from props.common import assignments as _assign14
from sa.build import AnalysisBroken
from props.common import declref, assignments

UNITS = ['src/network/SessionManager.cpp', 'src/main.cpp']
LEVEL = 'other'
EXPLANATION = (
    'R-GATE/R-SCHEMA/R-SIB over the three frame writers (SessionManager::send, SessionManager::send_encrypted, CLI '
    'send_encrypted_message) and the three frame readers (SessionManager::receive_loop, receive_transport_handshake_ack, CLI '
    'read_encrypted_message). Writers: encryption and the socket write are reached only past payload.size() <= 1 MiB; the nonce is '
    'a local filled from std::random_device inside the call; ChaCha20::apply(key, nonce, payload, ciphertext, 0); the frame is '
    'nonce(12) | length(4, big endian, = ciphertext.size()) | ciphertext, sent whole. Readers: 12 nonce bytes, 4 length bytes '
    '(same big-endian shifts), the payload buffer is allocated and filled only past length <= 1 MiB (the failing edge leaves the '
    'loop / function), apply(key, received nonce, ciphertext, plaintext, 0); receive_loop hands the plaintext to the handler once '
    'per frame. The limit is 1048576 in both definitions.')
ASSUMPTIONS = ['in-order, loss-free delivery under bursts is TCP semantics plus scheduling and is not decided',
               'ChaCha20 being its own inverse is C09']

SM = 'ephemeralnet::network::SessionManager::'
APPLY = 'ephemeralnet::crypto::ChaCha20::apply'
MIB = 1024 * 1024


def limit_value(P, name):
    for g in P.globals:
        if g.endswith('::' + name) or g == name:
            return P.global_const(g)
    raise AnalysisBroken('constant %s not found' % name)


def is_limit(fn, n, names):
    nd = fn.nodes[fn.strip(n)]
    return nd['k'] == 'DeclRefExpr' and nd.get('n') in names


def check_writer(ck, fn, tag, payload_idx, limit_names, send_re, nonce_c, len_c):
    ck.touch(fn)
    pd = fn.params[payload_idx]['d']
    applies = fn.calls(APPLY)
    sends = [i for i in fn.walk() if re.search(send_re, fn.nodes[i].get('callee', ''))]
    if len(applies) != 1 or not sends:
        raise AnalysisBroken('%s: expected one ChaCha20::apply and a socket write' % tag)
    ap = applies[0]
    a = fn.call_args(ap)

    def g_size(fact):
        h = holds(fn, fact)
        if not h:
            return False
        x, rel, y = h
        sz = lambda n: fn.nodes[fn.strip(n)].get('callee', '').endswith('::size') and declref(fn, fn.receiver(fn.strip(n)), pd) is not None
        return (rel == '<=' and sz(x) and is_limit(fn, y, limit_names)) or (rel == '>=' and is_limit(fn, x, limit_names) and sz(y))
    effs = [('encrypt', ap)] + [('socket write', s) for s in sends if any(fn.nodes[j]['k'] == 'DeclRefExpr' and fn.nodes[j].get('n') == 'buffer' for j in fn.walk(s))]
    fails, _ = gate_check(fn, effs, [('size<=limit', g_size)])
    ck.ob('C14.limit', 'C14.limit/%s' % tag, not fails, fn.loc(ap), '%s encrypts and writes only past payload.size() <= 1 MiB' % tag,
          fails[0][3] if fails else None)
    # nonce: local, random, fresh per call
    nd_ = declref(fn, a[1])
    from sa.paths import var_decl
    vd = var_decl(fn, nd_) if nd_ is not None else None
    # filled by a loop over all nonce bytes: for (auto& byte : nonce.bytes) byte = rd();
    fill = []
    for l in loops(fn):
        ln = fn.nodes[l]
        if ln['k'] != 'CXXForRangeStmt' or not any(fn.nodes[j].get('d') == nd_ for j in fn.walk(ln['range'])):
            continue
        var = fn.nodes[ln['var']]
        if not var.get('t', '').endswith('&') or var.get('t', '').startswith('const '):
            continue
        for l_, r_, s_ in assignments(fn):
            if fn.is_in(s_, ln['body']) and declref(fn, l_, var['d']) is not None and \
                    any('random_device::operator()' in fn.nodes[j].get('callee', '') for j in fn.walk(r_)):
                fill.append(l)
    fresh = vd is not None and not fn.nodes[vd].get('static')
    ck.ob('C14.nonce', 'C14.nonce/%s' % tag, fresh and len(fill) == 1, fn.loc(ap),
          '%s uses a local nonce whose every byte is drawn from std::random_device inside the call' % tag)
    # apply(key, nonce, payload, ciphertext, 0)
    ct_d = declref(fn, a[3])
    ok_apply = declref(fn, a[2], pd) is not None and ct_d is not None and const_value(fn, a[4]) == 0
    ck.ob('C14.apply', 'C14.apply/%s' % tag, ok_apply, fn.loc(ap), '%s calls ChaCha20::apply(key, nonce, payload, ciphertext, counter 0)' % tag)
    # frame layout
    bufs = [fn.nodes[i] for i in fn.walk() if fn.nodes[i]['k'] == 'VarDecl' and fn.nodes[i].get('n') == 'buffer']
    ok_size = False
    if len(bufs) == 1:
        init = bufs[0]['init']
        txt = fn.text(init)
        consts = sorted(const_value(fn, j) for j in fn.walk(init) if fn.nodes[j]['k'] == 'DeclRefExpr' and const_value(fn, j) is not None)
        ok_size = consts == [len_c, nonce_c] and any(fn.nodes[j].get('callee', '').endswith('::size') and declref(fn, fn.receiver(j), ct_d) is not None for j in fn.walk(init))
    ck.ob('C14.frame', 'C14.frame/%s/size' % tag, ok_size, fn.loc(), '%s: frame size is 12 + 4 + ciphertext.size()' % tag)
    # length bytes
    shifts = {}
    for l, r, s in assignments(fn):
        ln = fn.nodes[fn.strip(l)]
        if ln['k'] == 'CXXOperatorCallExpr' and ln.get('op') == '[]' and fn.nodes[fn.strip(fn.kids(fn.strip(l))[1])].get('n') == 'buffer':
            off = const_value(fn, fn.kids(fn.strip(l))[2])
            sh = [const_value(fn, fn.kids(j)[1]) for j in fn.walk(r) if fn.nodes[j]['k'] == 'BinaryOperator' and fn.nodes[j].get('op') == '>>']
            uses_len = any(fn.nodes[j]['k'] == 'DeclRefExpr' and fn.nodes[j].get('n') == 'length' for j in fn.walk(r))
            if off is not None and uses_len:
                shifts[off] = sh[0] if sh else 0
    ok_len = shifts == {nonce_c: 24, nonce_c + 1: 16, nonce_c + 2: 8, nonce_c + 3: 0}
    lv = [fn.nodes[i] for i in fn.walk() if fn.nodes[i]['k'] == 'VarDecl' and fn.nodes[i].get('n') == 'length']
    ok_len = ok_len and len(lv) == 1 and any(fn.nodes[j].get('callee', '').endswith('::size') and declref(fn, fn.receiver(j), ct_d) is not None for j in fn.walk(lv[0]['init']))
    ck.ob('C14.frame', 'C14.frame/%s/length' % tag, ok_len, fn.loc(), '%s: bytes 12..15 are ciphertext.size() big endian (found %s)' % (tag, shifts))
    copies = [i for i in fn.walk() if fn.nodes[i].get('callee') == 'std::copy']
    ok_cp = False
    if len(copies) == 2:
        c0, c1 = copies
        d0 = fn.text(fn.call_args(c0)[2])
        d1 = fn.call_args(c1)[2]
        off1 = [const_value(fn, j) for j in fn.walk(d1) if fn.nodes[j]['k'] == 'DeclRefExpr' and const_value(fn, j) is not None]
        ok_cp = 'nonce' in fn.text(fn.call_args(c0)[0]) and d0.startswith('buffer.begin') and declref(fn, fn.receiver(fn.strip(fn.call_args(c1)[0])), ct_d) is not None \
            and sorted(off1) == [len_c, nonce_c]
    ck.ob('C14.frame', 'C14.frame/%s/layout' % tag, ok_cp, fn.loc(), '%s: nonce at offset 0, ciphertext at offset 16' % tag)
    last = sends[-1]
    sa_ = fn.call_args(last)
    ok_send = any(fn.nodes[j].get('callee', '').endswith('::data') for j in fn.walk(sa_[1])) and any(fn.nodes[j].get('callee', '').endswith('::size') for j in fn.walk(sa_[2])) \
        and all('buffer' in fn.text(x) for x in sa_[1:3])
    ck.ob('C14.frame', 'C14.frame/%s/sent-whole' % tag, ok_send, fn.loc(last), '%s writes buffer.data() .. buffer.size()' % tag)


def check_reader(ck, fn, tag, limit_names, recv_re, nonce_c, len_c, allow_zero_reject=False):
    ck.touch(fn)
    recvs = [i for i in fn.walk() if re.search(recv_re, fn.nodes[i].get('callee', ''))]
    applies = fn.calls(APPLY)
    if len(recvs) < 3 or len(applies) != 1:
        raise AnalysisBroken('%s: expected three reads and one ChaCha20::apply' % tag)
    # buffer sizes: first two reads into std::array of 12 and 4
    def arr_n(arg):
        for j in fn.walk(arg):
            t = fn.nodes[j].get('t', '')
            m = re.search(r'std::array<unsigned char, (\d+)>', t)
            if m:
                return int(m.group(1))
        return None
    sizes = [arr_n(fn.call_args(r)[1]) for r in recvs[:2]]
    ck.ob('C14.frame', 'C14.frame/%s/header-reads' % tag, sizes == [nonce_c, len_c], fn.loc(recvs[0]),
          '%s reads %d nonce bytes then %d length bytes (found %s)' % (tag, nonce_c, len_c, sizes))
    lv = [i for i in fn.walk() if fn.nodes[i]['k'] == 'VarDecl' and fn.nodes[i].get('n') == 'length']
    if len(lv) != 1:
        raise AnalysisBroken('%s: no single `length` local' % tag)
    ld = fn.nodes[lv[0]]['d']
    sh = sorted(const_value(fn, fn.kids(j)[1]) for j in fn.walk(fn.nodes[lv[0]]['init']) if fn.nodes[j]['k'] == 'BinaryOperator' and fn.nodes[j].get('op') == '<<')
    idx = sorted(const_value(fn, fn.kids(j)[2]) for j in fn.walk(fn.nodes[lv[0]]['init']) if fn.nodes[j]['k'] == 'CXXOperatorCallExpr' and fn.nodes[j].get('op') == '[]')
    pairs = {}
    for j in fn.walk(fn.nodes[lv[0]]['init']):
        if fn.nodes[j]['k'] == 'BinaryOperator' and fn.nodes[j].get('op') == '<<':
            ix = [const_value(fn, fn.kids(x)[2]) for x in fn.walk(fn.kids(j)[0]) if fn.nodes[x]['k'] == 'CXXOperatorCallExpr' and fn.nodes[x].get('op') == '[]']
            if ix:
                pairs[ix[0]] = const_value(fn, fn.kids(j)[1])
    ck.ob('C14.frame', 'C14.frame/%s/length-decode' % tag, pairs == {0: 24, 1: 16, 2: 8} and idx == [0, 1, 2, 3], fn.loc(lv[0]),
          '%s decodes the length big endian (b0<<24 | b1<<16 | b2<<8 | b3), found %s' % (tag, pairs))
    # allocation and payload read only past length <= limit
    allocs = [i for i in fn.walk() if fn.nodes[i]['k'] == 'VarDecl' and 'init' in fn.nodes[i] and
              'std::vector<unsigned char>' in fn.nodes[i].get('t', '') and declref(fn, (fn.kids(fn.strip(fn.nodes[i]['init'])) or [None])[0], ld) is not None]
    effs = [('allocate payload buffer', a_) for a_ in allocs] + [('read payload', recvs[2])]

    def g_len(fact):
        h = holds(fn, fact)
        if not h:
            return False
        x, rel, y = h
        return (rel == '<=' and declref(fn, x, ld) is not None and is_limit(fn, y, limit_names)) or \
               (rel == '>=' and is_limit(fn, x, limit_names) and declref(fn, y, ld) is not None)
    ck.floor('C14.limit', '%s: payload buffer allocations sized by the received length' % tag, len(allocs), 1)
    fails, _ = gate_check(fn, effs, [('length<=limit', g_len)])
    ck.ob('C14.limit', 'C14.limit/%s' % tag, not fails, fn.loc(lv[0]),
          '%s allocates and reads the payload only past length <= 1 MiB; an oversized length leaves the loop/function' % tag, fails[0][3] if fails else None)
    ap = applies[0]
    a = fn.call_args(ap)
    nonce_d = declref(fn, a[1])
    cps = [i for i in fn.walk() if fn.nodes[i].get('callee') == 'std::copy' and
           any(fn.nodes[j]['k'] == 'DeclRefExpr' and fn.nodes[j].get('d') == nonce_d for j in fn.walk(fn.call_args(i)[2]))]
    ok_nonce = len(cps) == 1 and all(any(fn.nodes[j]['k'] == 'DeclRefExpr' and fn.nodes[j].get('n') == 'nonce_buffer' for j in fn.walk(x))
                                     for x in fn.call_args(cps[0])[:2]) and \
        not any('random_device' in fn.nodes[j].get('callee', '') for j in fn.walk())
    cts = [fn.nodes[j]['d'] for j in fn.walk(a[2]) if fn.nodes[j]['k'] == 'DeclRefExpr' and fn.nodes[j].get('dk') == 'Var']
    ok_ct = len(cts) == 1 and any(fn.nodes[x]['d'] == cts[0] for x in allocs)
    ck.ob('C14.apply', 'C14.apply/%s' % tag, ok_nonce and ok_ct and const_value(fn, a[4]) == 0, fn.loc(ap),
          '%s decrypts the received ciphertext with the received nonce and counter 0' % tag)
    return declref(fn, a[3])


def run(ck):
    P = ck.prog(['src/network/SessionManager.cpp'])
    PM = ck.prog(['src/main.cpp'])
    lim1 = limit_value(P, 'kMaxPayloadSize')
    lim2 = limit_value(PM, 'kTransportMaxPayloadSize')
    ck.ob('C14.table', 'C14.table/limit', lim1 == MIB and lim2 == MIB, '', 'both payload limits are 1 MiB (node %d, CLI %d)' % (lim1, lim2))
    n1, l1 = limit_value(P, 'kNonceSize'), limit_value(P, 'kLengthFieldSize')
    n2, l2 = limit_value(PM, 'kTransportNonceSize'), limit_value(PM, 'kTransportLengthFieldSize')
    ck.ob('C14.table', 'C14.table/header', (n1, l1, n2, l2) == (12, 4, 12, 4), '', 'nonce 12 bytes and length field 4 bytes on both sides (found %s)' % ((n1, l1, n2, l2),))
    check_writer(ck, P.fn(SM + 'send'), 'SessionManager::send', 1, ('kMaxPayloadSize',), r'::send_all$', 12, 4)
    check_writer(ck, P.fn(SM + 'send_encrypted'), 'SessionManager::send_encrypted', 2, ('kMaxPayloadSize',), r'::send_all$', 12, 4)
    cw = [f for f in PM.fns if f.q.endswith('send_encrypted_message')][0]
    check_writer(ck, cw, 'cli send_encrypted_message', 2, ('kTransportMaxPayloadSize',), r'socket_send_all$', 12, 4)
    rl = P.fn(SM + 'receive_loop')
    from sa.paths import reaches as _reaches
    # ---- the key a frame is decrypted with is read when the frame is complete, and session sockets have no send timeout ----------------
    key_copies = [s_ for l_, r_, s_ in _assign14(rl) if (rl.nodes[rl.strip(r_)].get('m') or '').endswith('Session::key')]
    applies = [i for i in rl.walk() if (rl.nodes[i].get('callee') or '').endswith('ChaCha20::apply')]
    recvs14 = [i for i in rl.walk() if (rl.nodes[i].get('callee') or '').endswith('recv_all')]
    stale = [(k_, r_) for k_ in key_copies for r_ in recvs14 for a_ in applies if _reaches(rl, k_, r_) and _reaches(rl, r_, a_) and rl.nodes[r_].get('l', 0) < rl.nodes[a_].get('l', 0)]
    # (a recv that follows the apply belongs to the next frame: the loop back edge makes every later statement reachable, so only a
    # recv that lies between the copy and the apply inside one iteration counts)
    stale = [(k_, r_) for k_, r_ in stale if rl.nodes[k_].get('l', 0) < rl.nodes[r_].get('l', 0)]
    ck.floor('C14.order', 'session-key reads in receive_loop', len(key_copies), 1)
    ck.ob('C14.order', 'C14.order/key-read-after-frame-received', not stale, rl.loc(stale[0][0]) if stale else rl.loc(),
          'receive_loop reads session->key for a frame only after the whole frame has arrived (a key rotated while the reader blocks must be used for the next frame)')
    snd = []
    for f_ in P.fns:
        if not f_.file.endswith('SessionManager.cpp'):
            continue
        for i in f_.walk():
            if (f_.nodes[i].get('callee') or '') == 'setsockopt':
                a_ = f_.call_args(i)
                if len(a_) >= 3 and const_value(f_, a_[2]) == 21:      # SO_SNDTIMEO (Linux)
                    snd.append((f_, i))
    ck.ob('C14.order', 'C14.order/no-send-timeout', not snd, snd[0][0].loc(snd[0][1]) if snd else '',
          'session sockets get no SO_SNDTIMEO: a frame is written whole or the connection is dead (send() does not resume or tear down after a partial write)')

    pt = check_reader(ck, rl, 'SessionManager::receive_loop', ('kMaxPayloadSize',), r'::recv_all$', 12, 4)
    check_reader(ck, P.fn(SM + 'receive_transport_handshake_ack'), 'receive_transport_handshake_ack', ('kMaxPayloadSize',), r'::recv_all$', 12, 4)
    cr = [f for f in PM.fns if f.q.endswith('read_encrypted_message')][0]
    check_reader(ck, cr, 'cli read_encrypted_message', ('kTransportMaxPayloadSize',), r'socket_recv_all$', 12, 4)
    # ---- receive_loop hands the plaintext to the handler exactly once per frame ----------------------------------
    calls = [i for i in rl.walk() if rl.nodes[i]['k'] == 'CXXOperatorCallExpr' and rl.nodes[i].get('op') == '()' and
             'std::function<void (const ephemeralnet::network::TransportMessage &)>' in rl.nodes[i].get('callee', '')]
    ck.ob('C14.deliver', 'C14.deliver/once', len(calls) == 1 and not any(rl.nodes[a]['k'] in ('ForStmt', 'WhileStmt', 'DoStmt', 'CXXForRangeStmt')
                                                                           for a in rl.ancestors(calls[0]) if a != [l for l in loops(rl) if rl.is_in(calls[0], l)][-1]),
          rl.loc(calls[0]) if calls else rl.loc(), 'the message handler is invoked at one site, once per received frame (no retry loop)')
    msg = declref(rl, rl.kids(calls[0])[2]) if calls else None
    from props.common import field_assigns
    fa = field_assigns(rl, msg) if msg is not None else {}
    pl = fa.get('ephemeralnet::network::TransportMessage::payload', [])
    ok = len(pl) == 1 and any(rl.nodes[j]['k'] == 'DeclRefExpr' and rl.nodes[j].get('d') == pt for j in rl.walk(pl[0][0]))
    ck.ob('C14.deliver', 'C14.deliver/plaintext', ok, rl.loc(), 'the delivered message carries the decrypted frame as its payload, unmodified')

    # R-PAIR: the handshake receive timeout never leaks into the session: once read_handshake_payload has set a timeout on the
    # socket, every way out of it passes a reset to zero (directly or through a local helper that does it)
    from sa.paths import Cfg as _Cfg
    rh = P.fn(SM + 'read_handshake_payload') if 'SM' in globals() else P.fn('ephemeralnet::network::SessionManager::read_handshake_payload')
    ck.touch(rh)
    sets = [i for i in rh.walk() if (rh.nodes[i].get('callee') or '').endswith('set_recv_timeout')]

    def is_zero_timeout(f, call):
        a = f.call_args(call)
        if len(a) < 2:
            return False
        for j in f.walk(a[1]):
            if (f.nodes[j].get('callee') or '').endswith('::zero'):
                return True
        return const_value(f, a[1]) == 0
    acquires = [i for i in sets if not is_zero_timeout(rh, i)]
    releases = {i for i in sets if is_zero_timeout(rh, i)}
    helpers = set()
    for g in P.lambdas_of(rh.q):
        if any((g.nodes[j].get('callee') or '').endswith('set_recv_timeout') and is_zero_timeout(g, j) for j in g.walk()) and \
                not any(g.nodes[j]['k'] == 'IfStmt' for j in g.walk()):
            helpers.add(g.q)
    for i in rh.walk():
        if rh.nodes[i].get('callee') in helpers:
            releases.add(i)
    ck.floor('C14.timeout', 'receive-timeout settings in read_handshake_payload', len(acquires), 1)
    cfg_rh = _Cfg.of(rh)
    for n_, a in enumerate(acquires):
        wit = cfg_rh.must_pass(a, lambda e: e in releases or any(rh.is_in(x, e) for x in releases) and rh.nodes[e]['k'] in ('ExprWithCleanups', 'ReturnStmt'))
        # the acquire's own failure branch (`if (!set_recv_timeout(...)) return false;`) has nothing to undo
        if wit is not None:
            par = rh.parent(a)
            while par is not None and rh.nodes[par]['k'] in ('UnaryOperator', 'ImplicitCastExpr', 'ParenExpr', 'BinaryOperator'):
                par = rh.parent(par)
            if par is not None and rh.nodes[par]['k'] == 'IfStmt':
                then = rh.nodes[par]['then']
                rest = cfg_rh.must_pass_from(cfg_rh.locate(rh.nodes[par]['cond']), lambda e: e in releases or any(rh.is_in(x, e) for x in releases) and rh.nodes[e]['k'] in ('ExprWithCleanups', 'ReturnStmt'),
                                             stop_at=lambda e: rh.is_in(e, then))
                wit = rest
        ck.ob('C14.timeout', 'C14.timeout/reset-on-every-exit#%d' % (n_ + 1), wit is None, rh.loc(a),
              'after read_handshake_payload arms the receive timeout, every return resets it to zero (an accepted session must not inherit the 2 s handshake timeout)', wit)
    # ... and the timeout stays armed for the whole handshake read: no reset is followed by another blocking read of the handshake
    from sa.paths import reaches as _reaches
    recvs_ = [i for i in rh.walk() if (rh.nodes[i].get('callee') or '').endswith('recv_all')]
    raw_recv = [i for i in rh.walk() if (rh.nodes[i].get('callee') or '').lstrip(':') in ('recv', 'read', 'recvfrom', 'recvmsg')]
    ck.ob('C14.frame', 'C14.frame/handshake-read-exact', len(recvs_) == 2 and not raw_recv, rh.loc(raw_recv[0]) if raw_recv else rh.loc(),
          'read_handshake_payload takes exactly the length prefix and then exactly the announced body off the socket (two recv_all calls, no raw recv into a '
          'scratch buffer): bytes queued behind the handshake stay in the socket for the frame reader')
    ck.floor('C14.timeout', 'blocking reads in read_handshake_payload', len(recvs_), 1)
    early = [(r_, c_) for r_ in sorted(releases) for c_ in recvs_ if r_ in rh.nodes.keys() if False] if isinstance(rh.nodes, dict) else \
        [(r_, c_) for r_ in sorted(releases) for c_ in recvs_ if _reaches(rh, r_, c_)]
    ck.ob('C14.timeout', 'C14.timeout/armed-for-every-read', not early, rh.loc(early[0][0]) if early else rh.loc(),
          'no path resets the receive timeout and then blocks in another read of the handshake (a silent client must not park the accept thread)')

    # ---- whole-buffer I/O: the running total advances by what the system call reported, nothing else --------------------------------
    from sa.flow import value_sources as _vs14
    for fname, io in (('send_all', 'send'), ('recv_all', 'recv')):
        f_ = P.fn(SM + fname)
        ck.touch(f_)
        ios = [i for i in f_.walk() if (f_.nodes[i].get('callee') or '') in (io, '::' + io)]
        res = [f_.nodes[v]['d'] for v in f_.walk() if f_.nodes[v]['k'] == 'VarDecl' and f_.nodes[v].get('init') is not None and f_.nodes[v]['init'] >= 0 and
               any(j in ios for j in f_.walk(f_.nodes[v]['init']))]
        adv = [i for i in f_.walk() if f_.nodes[i]['k'] == 'CompoundAssignOperator' and f_.nodes[i].get('op') == '+=' and
               f_.nodes[f_.strip(f_.kids(i)[0])]['k'] == 'DeclRefExpr' and f_.nodes[f_.strip(f_.kids(i)[0])].get('dk') == 'Var' and not f_.nodes[f_.strip(f_.kids(i)[0])].get('g')]
        ok_adv = len(ios) >= 1 and len(res) >= 1 and len(adv) == 1 and \
            all(f_.nodes[j].get('d') in res for j in f_.walk(f_.kids(adv[0])[1]) if f_.nodes[j]['k'] == 'DeclRefExpr' and f_.nodes[j].get('dk') in ('Var', 'ParmVar')) and \
            any(f_.nodes[j]['k'] == 'DeclRefExpr' and f_.nodes[j].get('d') in res for j in f_.walk(f_.kids(adv[0])[1]))
        ck.ob('C14.io', 'C14.io/%s/advance-by-returned-count' % fname, ok_adv, f_.loc(adv[0]) if adv else f_.loc(),
              '%s advances its offset by the byte count %s() returned (a partial transfer continues where it stopped; nothing is skipped or repeated)' % (fname, io))

    # ---- installing a key always reaches the live session: register_peer_key has no early exit before the session's key is rewritten ----
    rk_ = P.fn(SM + 'register_peer_key')
    ck.touch(rk_)
    rets_rk = [i for i in rk_.walk() if rk_.nodes[i]['k'] == 'ReturnStmt']
    from sa.flow import field_accesses as _fa14
    sess_w = [i for i, m_, w_ in _fa14(rk_) if w_ and m_ == SM + 'Session::key']
    keys_w = [i for i, m_, w_ in _fa14(rk_) if w_ and m_ == SM + 'keys_']
    ck.ob('C14.key', 'C14.key/register-always-rewrites-session', not rets_rk and len(sess_w) >= 1 and len(keys_w) >= 1, rk_.loc(rets_rk[0]) if rets_rk else rk_.loc(),
          'register_peer_key records the key and rewrites the live session\'s key on every call: no "unchanged" shortcut returns first (a session created '
          'from a snapshot taken before a rotation is repaired by the next registration)')

    # ---- a retiring reader removes the table entry only if it still is its own session object ------------------------------------------------------
    from sa.match import holds as _h14
    ers = [i for i in rl.walk() if rl.nodes[i]['k'] == 'CXXMemberCallExpr' and (rl.nodes[i].get('callee') or '').endswith('::erase') and rl.receiver(i) is not None and
           (rl.nodes[rl.strip(rl.receiver(i))].get('m') or '') == SM + 'sessions_']

    def same_obj(fact):
        h = _h14(rl, fact)
        if not h:
            return False
        a_, op_, b_ = h
        return op_ == '==' and all((rl.nodes[rl.strip(x)].get('callee') or '').endswith('::get') for x in (a_, b_))
    ck.floor('C14.key', 'sessions_.erase sites in receive_loop', len(ers), 1)
    f14, _ = gate_check(rl, [('erase', i) for i in ers], [('same session object', same_obj)])
    ck.ob('C14.key', 'C14.key/reader-erases-only-its-own-session', not f14, rl.loc(f14[0][2]) if f14 else rl.loc(),
          'receive_loop erases sessions_[peer] on exit only past `it->second.get() == session.get()` (after a replacement the entry belongs to the new session)',
          f14[0][3] if f14 else None)

"""C20 — inbound handshakes are accepted only with a valid key and valid PoW."""
from sa.paths import gate_check, must_precede, reaches, Cfg
from sa.flow import derives_from, is_member, origin_chain, field_writes
from sa.match import holds, const_value, same_value, call_true, has_value
from sa.build import AnalysisBroken

UNITS = ['src/core/Node.cpp', 'src/network/SessionManager.cpp']
LEVEL = 'other'
EXPLANATION = (
    'R-GATE on Node::perform_handshake, Node::handle_transport_handshake and '
    'SessionManager::handle_pending_handshake. Every accepting exit and every key/session/reputation-success '
    'effect of perform_handshake is unreachable unless, for the OFFERED public key, validate_public(key) was true '
    'or the key equals the key of the stored (previously validated) record, and for the OFFERED nonce '
    'handshake_pow_valid(claimed peer, own id, offered key, offered nonce, configured difficulty) was true or the '
    'nonce equals the stored record\'s nonce. Every `return false` is preceded by reputation_.record_failure(peer) '
    'and no key/session effect can precede a rejecting exit. The acceptance object, the ACK, replace_session, the '
    'key-table write and the reader thread are reachable only past acceptance.has_value() && accepted on a decoded '
    'TransportHandshake message.')
ASSUMPTIONS = ['reputation values and the timing of the cooldown window are not decided',
               'a stored HandshakeRecord with success==true was produced by the validating path (checked: the only '
               'writes of success=true lie behind both gates)']

N = 'ephemeralnet::Node::'
SM = 'ephemeralnet::network::SessionManager::'
VP = 'ephemeralnet::network::KeyExchange::validate_public'
REC = 'ephemeralnet::Node::HandshakeRecord::'


def param_ref(fn, node, idx):
    want = fn.params[idx]['d']
    return any(fn.nodes[i]['k'] == 'DeclRefExpr' and fn.nodes[i].get('d') == want for i in origin_chain(fn, node))


def run(ck):
    P = ck.prog(UNITS)
    ph = P.fn(N + 'perform_handshake')
    ck.touch(ph)

    def key_gate(fact):
        kind, node, val = fact
        if kind == 'bool' and val is True and ph.nodes[node].get('callee') == VP:
            return param_ref(ph, ph.call_args(node)[0], 1)
        h = holds(ph, fact)
        if h and h[1] == '==':
            a, _r, b = h
            for x, y in ((a, b), (b, a)):
                if ph.nodes[ph.strip(x)].get('m') == REC + 'remote_public' and param_ref(ph, y, 1):
                    return True
        return False

    def pow_gate(fact):
        kind, node, val = fact
        nd = ph.nodes[node]
        if kind == 'bool' and val is True and nd.get('callee', '').endswith('::handshake_pow_valid'):
            a = ph.call_args(node)
            return (len(a) == 5 and param_ref(ph, a[0], 0) and ph.nodes[ph.strip(a[1])].get('m') == N + 'id_'
                    and param_ref(ph, a[2], 1) and param_ref(ph, a[3], 2)
                    and ph.nodes[ph.strip(a[4])].get('m') == 'ephemeralnet::Config::handshake_pow_difficulty')
        h = holds(ph, fact)
        if h and h[1] == '==':
            a, _r, b = h
            for x, y in ((a, b), (b, a)):
                if ph.nodes[ph.strip(x)].get('m') == REC + 'remote_pow_nonce' and param_ref(ph, y, 2):
                    return True
        return False

    effects = []
    for i in ph.walk():
        nd = ph.nodes[i]
        c = nd.get('callee', '')
        if nd['k'] == 'ReturnStmt' and const_value(ph, ph.kids(i)[0]) != 0:
            effects.append(('return true', i))
        elif c.endswith('KeyManager::register_session_with_material') or c.endswith('KeyManager::register_session'):
            effects.append(('key_manager_.' + c.split('::')[-1], i))
        elif c.endswith('SessionManager::register_peer_key'):
            effects.append(('sessions_.register_peer_key', i))
        elif c.endswith('ReputationManager::record_success'):
            effects.append(('reputation_.record_success', i))
    # writes of record.success = true
    for i in ph.walk():
        nd = ph.nodes[i]
        if nd['k'] == 'BinaryOperator' and nd.get('op') == '=' and ph.nodes[ph.strip(ph.kids(i)[0])].get('m') == REC + 'success' \
                and const_value(ph, ph.kids(i)[1]) != 0:
            effects.append(('record.success = true', i))
    ck.floor('C20.gate', 'accepting effects in perform_handshake', len(effects), 6)
    fails, _ = gate_check(ph, effects, [('valid-key', key_gate), ('valid-pow', pow_gate)])
    failed = {(e, g, n): p for e, g, n, p, _c in fails}
    cnt = {}
    for lab, nid in effects:
        cnt[lab] = cnt.get(lab, 0) + 1
        for g in ('valid-key', 'valid-pow'):
            key = 'C20.gate/perform_handshake/%s#%d/%s' % (lab, cnt[lab], g)
            ck.ob('C20.gate', key, (lab, g, nid) not in failed, ph.loc(nid),
                  '%s requires %s for the offered key/nonce (validated now, or equal to the stored validated record)' % (lab, g),
                  failed.get((lab, g, nid)))

    # every rejecting exit lowers the reputation and follows no key/session effect
    # (a return whose value is not the literal `true` may reject: it is held to the same obligations)
    rej = [i for i in ph.walk() if ph.nodes[i]['k'] == 'ReturnStmt' and const_value(ph, ph.kids(i)[0]) in (0, None)]
    ck.floor('C20.reject', 'rejecting exits of perform_handshake', len(rej), 2)

    def is_fail(n):
        nd = ph.nodes[n]
        return nd.get('callee', '').endswith('ReputationManager::record_failure') and param_ref(ph, ph.call_args(n)[0], 0)
    mp = dict(must_precede(ph, rej, is_fail))
    for n_, r in enumerate(rej):
        ck.ob('C20.reject', 'C20.reject/perform_handshake/return-false#%d/record_failure' % n_, r not in mp, ph.loc(r),
              'a rejected handshake lowers the claimed peer\'s reputation before returning', mp.get(r))
        dirty = [lab for lab, e in effects if not lab.startswith('return') and not lab.startswith('record.') and reaches(ph, e, r)]
        ck.ob('C20.reject', 'C20.reject/perform_handshake/return-false#%d/no-effect-before' % n_, not dirty, ph.loc(r),
              'no key/session registration can precede a rejecting exit (found: %s)' % dirty)

    # ---- Node::handle_transport_handshake ----------------------------------------------------
    hth = P.fn(N + 'handle_transport_handshake')
    ck.touch(hth)
    accept = [i for i in hth.walk() if hth.nodes[i]['k'] == 'ReturnStmt' and
              not any('nullopt' in hth.nodes[j].get('n', '') for j in hth.walk(i))]
    ck.floor('C20.node', 'accepting returns of handle_transport_handshake', len(accept), 1)
    PUB = 'ephemeralnet::protocol::TransportHandshakePayload::public_identity'
    NONCE = 'ephemeralnet::protocol::TransportHandshakePayload::work_nonce'

    def vp_gate(fact):
        kind, node, val = fact
        return kind == 'bool' and val is True and hth.nodes[node].get('callee') == VP and \
            hth.nodes[hth.strip(hth.call_args(node)[0])].get('m') == PUB

    def ph_gate(fact):
        kind, node, val = fact
        if kind == 'bool' and val is True and hth.nodes[node].get('callee') == N + 'perform_handshake':
            a = hth.call_args(node)
            return param_ref(hth, a[0], 0) and hth.nodes[hth.strip(a[1])].get('m') == PUB and \
                hth.nodes[hth.strip(a[2])].get('m') == NONCE
        return False
    fails, _ = gate_check(hth, [('return acceptance', a) for a in accept], [('validate_public', vp_gate), ('perform_handshake', ph_gate)])
    failed = {g: p for _e, g, _n, p, _c in fails}
    for g in ('validate_public', 'perform_handshake'):
        ck.ob('C20.node', 'C20.node/handle_transport_handshake/' + g, g not in failed, hth.loc(),
              'an acceptance is returned only past %s(...) == true on the offered values' % g, failed.get(g))

    # ---- SessionManager::handle_pending_handshake --------------------------------------------
    hp = P.fn(SM + 'handle_pending_handshake')
    ck.touch(hp)
    effs = []
    for i in hp.walk():
        nd = hp.nodes[i]
        c = nd.get('callee', '')
        if c == SM + 'send_encrypted':
            effs.append(('send_encrypted(ACK)', i))
        elif c == SM + 'replace_session':
            effs.append(('replace_session', i))
        elif c.startswith('std::thread::thread'):
            effs.append(('spawn reader thread', i))
        elif nd['k'] == 'ReturnStmt' and const_value(hp, hp.kids(i)[0]) != 0:
            effs.append(('return true', i))
    for i, m in field_writes(hp, SM + 'keys_'):
        effs.append(('keys_ write', i))
    ck.floor('C20.session', 'accepting effects in handle_pending_handshake', len(effs), 5)

    def is_handler_call(n):
        nd = hp.nodes[n]
        return nd['k'] == 'CXXOperatorCallExpr' and nd.get('op') == '()' and 'HandshakeAcceptance' in nd.get('t', '')

    def accepted_gate(fact):
        kind, node, val = fact
        nd = hp.nodes[node]
        if kind == 'bool' and val is True and nd.get('m', '').endswith('HandshakeAcceptance::accepted'):
            return derives_from(hp, hp.kids(node)[0], lambda n_, i: is_handler_call(i))
        return False

    def type_gate(fact):
        h = holds(hp, fact)
        if h and h[1] == '==':
            a, _r, b = h
            for x, y in ((a, b), (b, a)):
                if hp.nodes[hp.strip(x)].get('m') == 'ephemeralnet::protocol::Message::type' and \
                        hp.nodes[hp.strip(y)].get('q') == 'ephemeralnet::protocol::MessageType::TransportHandshake':
                    return True
        return False
    gates = [('acceptance.has_value', has_value(hp, is_handler_call)), ('acceptance.accepted', accepted_gate),
             ('message is TransportHandshake', type_gate)]
    fails, _ = gate_check(hp, effs, gates)
    failed = {(e, g, n): p for e, g, n, p, _c in fails}
    cnt = {}
    for lab, nid in effs:
        cnt[lab] = cnt.get(lab, 0) + 1
        for g, _ in gates:
            ck.ob('C20.session', 'C20.session/%s#%d/%s' % (lab, cnt[lab], g), (lab, g, nid) not in failed, hp.loc(nid),
                  '%s only past %s' % (lab, g), failed.get((lab, g, nid)))
    # a refused (or not yet accepted) handshake touches no session state at all: every access to the session / key tables,
    # every write to a Session record and every call of a SessionManager routine other than the read-only helpers lies past
    # the acceptance — so the sessions and keys already registered for the claimed peer stay as they are
    from sa.flow import field_accesses as _fa20
    READ_ONLY = ('endpoint_string', 'peer_key_string', 'read_handshake_payload')
    touch = []
    for i, m_, w_ in _fa20(hp):
        if m_ in (SM + 'sessions_', SM + 'keys_') or (w_ and m_.startswith(SM + 'Session::')):
            touch.append((m_.replace(SM, '') + (' write' if w_ else ' read'), i))
    for i in hp.walk():
        c_ = hp.nodes[i].get('callee') or ''
        if (c_.startswith(SM) or c_.startswith('ephemeralnet::network::(anonymous namespace)::')) and c_.split('::')[-1] not in READ_ONLY \
                and hp.nodes[i]['k'] in ('CallExpr', 'CXXMemberCallExpr'):
            touch.append((c_.split('::')[-1] + '()', i))
    ck.floor('C20.session', 'session-state accesses in handle_pending_handshake', len(touch), 8)
    fails, _ = gate_check(hp, touch, [gates[1]])
    bad20 = sorted({(lab, nid) for lab, _g, nid, _p, _c in fails}, key=lambda x: x[1])
    ck.ob('C20.session', 'C20.session/untouched-unless-accepted', not bad20, hp.loc(bad20[0][1]) if bad20 else hp.loc(),
          'handle_pending_handshake reads or writes session state (%d sites) only past acceptance->accepted%s'
          % (len(touch), '' if not bad20 else ' — reached without it: ' + ', '.join(l for l, _n in bad20[:4])), fails[0][3] if fails else None)

    # ---- the verdict recorded for an attempt is this attempt's: the local HandshakeRecord starts empty (success == false) and is
    # never overwritten as a whole by the stored record of an earlier attempt ------------------------------------------------------
    recs = [ph.nodes[i] for i in ph.walk() if ph.nodes[i]['k'] == 'VarDecl' and (ph.nodes[i].get('t') or '').replace('const ', '').endswith('Node::HandshakeRecord')]
    if len(recs) != 1:
        raise AnalysisBroken('perform_handshake: the local HandshakeRecord was not found')
    rec_d = recs[0]['d']
    ini = ph.strip(recs[0]['init']) if recs[0].get('init') is not None and recs[0]['init'] >= 0 else None
    empty_init = ini is not None and ph.nodes[ini]['k'] in ('InitListExpr', 'CXXConstructExpr', 'CXXTemporaryObjectExpr', 'ImplicitValueInitExpr') and \
        not any(ph.nodes[j]['k'] in ('DeclRefExpr', 'MemberExpr') for j in ph.walk(ini))
    whole = []
    for i in ph.walk():
        nd = ph.nodes[i]
        if nd['k'] in ('CXXOperatorCallExpr', 'BinaryOperator') and nd.get('op') == '=':
            lhs = ph.kids(i)[1 if nd['k'] == 'CXXOperatorCallExpr' else 0]
            ln = ph.nodes[ph.strip(lhs, casts=False)]
            if ln['k'] == 'DeclRefExpr' and ln.get('d') == rec_d:
                whole.append(i)
    ck.ob('C20.reject', 'C20.reject/record-starts-empty', empty_init and not whole, ph.loc(whole[0]) if whole else ph.loc(),
          'the HandshakeRecord written back by perform_handshake is value-initialised in this call and never assigned as a whole (its success flag is '
          'false unless this attempt sets it): a rejected attempt cannot be stored as a success inherited from an earlier record')

    # ---- lowering the reputation cannot be skipped: record_failure reaches its score update on every path ---------------------------------
    PR = ck.prog(['src/network/ReputationManager.cpp'])
    rf = PR.fn('ephemeralnet::network::ReputationManager::record_failure')
    ck.touch(rf)
    from sa.flow import field_accesses as _fa20b
    from sa.paths import Cfg as _Cfg20
    sw = [i for i, m_, w_ in _fa20b(rf) if w_ and m_.endswith('ReputationManager::Entry::score')]
    cfg_rf = _Cfg20.of(rf)
    wit_rf = cfg_rf.must_pass_from((cfg_rf.entry, -1), lambda e, s_=set(sw): e in s_ or any(rf.is_in(x, e) for x in s_)) if sw else ['no write of Entry::score']
    ck.ob('C20.reject', 'C20.reject/record_failure-always-lowers', wit_rf is None, rf.loc(),
          'ReputationManager::record_failure updates the peer\'s score on every path (no capacity or lookup condition returns first)', wit_rf)

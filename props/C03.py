"""C03 — state learned from a manifest never outlives that manifest (structural clauses)."""
from sa.canon import canon, norm, statements, V, C
from sa.paths import gate_check, Cfg, loops, local_writes, must_precede
from sa.flow import origin_chain, value_sources, field_accesses, all_defs
from sa.match import holds, comparison, const_value, has_value
from sa.build import AnalysisBroken
from sa.callgraph import CallGraph
from props.common import declref, assignments, live_fact

UNITS = ['src/core/Node.cpp']
LEVEL = 'other'
EXPLANATION = (
    'R-GATE: in every manifest-ingesting entry of Node (ingest_manifest, receive_chunk, handle_announce, fetch_chunk\'s re-publish '
    'branch) each lifetime-bearing effect — manifest cache write, publish_shards, add_contact, announce_chunk, chunk_store_.put, '
    'update_swarm_plan — is unreachable unless manifest_ttl(manifest, config_) has a value (and validate_shards held); '
    'schedule_assigned_fetch is reached only from handle_announce past those gates. R-FLOW: the ttl operand of each effect is '
    'that manifest_ttl result, or (handle_announce) a value defined as payload.ttl or *ttl, capped by `if (adv > *ttl) adv = *ttl` and '
    'then clamped into the TTL window. Shape of manifest_ttl / enforce_manifest_ttl: expired manifests and remaining lifetimes '
    'below the minimum return nullopt; the lifetime is duration_cast<seconds> (truncating, never rounding up) of expires_at - now; '
    'a larger value is cut to the maximum; nothing else changes it. process_pending_fetches drops a fetch on wall_now >= '
    'manifest_expires before any early continue that would keep it, and manifest_expires is assigned from manifest.expires_at.')
ASSUMPTIONS = ['that system_clock-derived TTLs and steady_clock deadlines denote the same instant is not decided',
               'sub-second rounding is on the safe side by truncation (shown by the cast used, not by value)']

N = 'ephemeralnet::Node::'
NA = 'ephemeralnet::(anonymous namespace)::'
KT = 'ephemeralnet::KademliaTable::'
EFFECTS = ((KT + 'publish_shards', 'dht_.publish_shards', 4), (KT + 'add_contact', 'dht_.add_contact', 2), (N + 'announce_chunk', 'announce_chunk', 1),
           ('ephemeralnet::ChunkStore::put', 'chunk_store_.put', 2), (N + 'update_swarm_plan', 'update_swarm_plan', None),
           (N + 'schedule_assigned_fetch', 'schedule_assigned_fetch', None))


def run(ck):
    P = ck.prog(UNITS)
    # ---- manifest_ttl / enforce_manifest_ttl shape ------------------------------------------------------------------
    mt = P.fn(NA + 'manifest_ttl')
    ck.touch(mt)
    ttl = [mt.nodes[i] for i in mt.walk() if mt.nodes[i]['k'] == 'VarDecl' and mt.nodes[i].get('n') == 'ttl']
    ok_cast = False
    if len(ttl) == 1:
        init = mt.strip(ttl[0]['init'])
        nd = mt.nodes[init]
        ok_cast = nd.get('callee') == 'std::chrono::duration_cast' and 'std::chrono::duration<long>' in nd.get('ctargs', '') and \
            norm(canon(mt, mt.call_args(init)[0]))[0] in ('op-',) and 'expires_at' in mt.text(init) and 'now' in mt.text(init)
    ck.ob('C03.ttl', 'C03.ttl/truncating-cast', ok_cast, mt.loc(), 'the remaining lifetime is duration_cast<seconds>(manifest.expires_at - now): truncated, never rounded up')
    now = [mt.nodes[i] for i in mt.walk() if mt.nodes[i]['k'] == 'VarDecl' and mt.nodes[i].get('n') == 'now']
    ck.ob('C03.ttl', 'C03.ttl/clock', len(now) == 1 and mt.nodes[mt.strip(now[0]['init'])].get('callee') == 'std::chrono::system_clock::now', mt.loc(),
          'the lifetime is measured against system_clock::now() (the clock of manifest.expires_at)')
    rets = [i for i in mt.walk() if mt.nodes[i]['k'] == 'ReturnStmt' and 'nullopt' not in mt.text(i)]
    enf = [i for i in mt.walk() if mt.nodes[i].get('callee') == NA + 'enforce_manifest_ttl']
    ok_enf = len(rets) == 1 and len(enf) == 1 and mt.is_in(enf[0], rets[0])
    if ok_enf:
        a = mt.call_args(enf[0])
        ok_enf = declref(mt, a[0], ttl[0]['d']) is not None and any(mt.nodes[j].get('m', '').endswith('Config::min_manifest_ttl') for j in value_sources(mt, a[1])) and \
            any(mt.nodes[j].get('m', '').endswith('Config::max_manifest_ttl') for j in value_sources(mt, a[2])) and not local_writes(mt, ttl[0]['d'])
    ck.ob('C03.ttl', 'C03.ttl/enforced', ok_enf, mt.loc(), 'the only non-empty result is enforce_manifest_ttl(ttl, config.min_manifest_ttl, config.max_manifest_ttl)')

    def g_live(fact):
        h = holds(mt, fact)
        if not h:
            return False
        a, rel, b = h
        ex = lambda n: mt.nodes[mt.strip(n)].get('n') == 'expires_at'
        nw = lambda n: mt.nodes[mt.strip(n)].get('n') == 'now'
        return (rel == '>' and ex(a) and nw(b)) or (rel == '<' and nw(a) and ex(b))
    fails, _ = gate_check(mt, [('result', r) for r in rets], [('expires_at > now', g_live)])
    ck.ob('C03.ttl', 'C03.ttl/expired-rejected', not fails, mt.loc(), 'a manifest with expires_at <= now yields nullopt', fails[0][3] if fails else None)
    ef = P.fn(NA + 'enforce_manifest_ttl')
    ck.touch(ef)
    t_d, mn_d, mx_d = (p['d'] for p in ef.params)
    erets = [i for i in ef.walk() if ef.nodes[i]['k'] == 'ReturnStmt' and 'nullopt' not in ef.text(i)]

    def g_min(fact):
        h = holds(ef, fact)
        return bool(h) and h[1] == '>=' and declref(ef, h[0], t_d) is not None and declref(ef, h[2], mn_d) is not None

    def g_pos(fact):
        h = holds(ef, fact)
        return bool(h) and h[1] == '>' and declref(ef, h[0], t_d) is not None and (const_value(ef, h[2]) == 0 or 'zero' in ef.text(h[2]))
    fails, _ = gate_check(ef, [('result', r) for r in erets], [('ttl >= min', g_min), ('ttl > 0', g_pos)])
    badg = sorted({g for _e, g, _n, _p, _c in fails})
    ck.ob('C03.ttl', 'C03.ttl/below-minimum-rejected', not fails and len(erets) == 1, ef.loc(), 'enforce_manifest_ttl returns a value only past ttl >= min_ttl and ttl > 0 (missing %s)' % badg)
    ws = local_writes(ef, t_d)
    ok_cap = len(ws) == 1 and declref(ef, ef.kids(ws[0])[-1], mx_d) is not None
    if ok_cap:
        def g_over(fact):
            h = holds(ef, fact)
            return bool(h) and h[1] == '>' and declref(ef, h[0], t_d) is not None and declref(ef, h[2], mx_d) is not None
        f2, _ = gate_check(ef, [('cap', ws[0])], [('ttl > max', g_over)])
        ok_cap = not f2
    ret_is_ttl = bool(erets) and [ef.nodes[j].get('d') for j in ef.walk(erets[0]) if ef.nodes[j]['k'] == 'DeclRefExpr' and ef.nodes[j].get('dk') in ('Var', 'ParmVar')] == [t_d]
    ck.ob('C03.ttl', 'C03.ttl/capped-only', ok_cap and ret_is_ttl, ef.loc(),
          'the returned lifetime is the argument, changed only by `ttl = max_ttl` under ttl > max_ttl (a far-future expiry is capped, never extended)')

    # ---- gates in the ingesting entries -----------------------------------------------------------------------------------
    entries = [N + 'ingest_manifest', N + 'receive_chunk', N + 'handle_announce', N + 'fetch_chunk']
    n_eff = 0
    for q in entries:
        f = P.fn(q)
        ck.touch(f)
        mcalls = [i for i in f.walk() if f.nodes[i].get('callee') == NA + 'manifest_ttl']
        ck.ob('C03.flow', 'C03.flow/%s/lifetimes-derive-from-manifest_ttl' % q.split('::')[-1], bool(mcalls), f.loc(),
              '%s obtains the lifetime it hands on from manifest_ttl(manifest, config_) (not from the age of a stored replica or any other clock)' % q.split('::')[-1])
        if not mcalls:
            continue
        ttl_locals = set()
        for m in mcalls:
            for a in f.ancestors(m):
                if f.nodes[a]['k'] == 'VarDecl':
                    ttl_locals.add(f.nodes[a]['d'])
                    break

        def g_ttl(fact, f=f, mcalls=mcalls, ttl_locals=ttl_locals):
            kind, node, val = fact
            if kind == 'has' and val is True:
                return node in [f.strip(m) for m in mcalls] or declref(f, node) in ttl_locals
            if kind == 'bool' and val is True:
                return declref(f, node) in ttl_locals or any(f.strip(m) == node for m in mcalls)
            return False
        effs = []
        for i in f.walk():
            c = f.nodes[i].get('callee', '')
            for cq, lab, ttl_idx in EFFECTS:
                if c == cq:
                    effs.append((lab, i, ttl_idx))
        for i, m, w in field_accesses(f):
            if w and m == N + 'manifest_cache_':
                effs.append(('manifest_cache_ write', i, None))
        if q == N + 'ingest_manifest':
            # accepting a manifest is itself an effect: `return true` (callers cache the manifest and update the ledger on it)
            for i in f.walk():
                if f.nodes[i]['k'] == 'ReturnStmt' and f.kids(i) and const_value(f, f.kids(i)[0]) not in (0,):
                    effs.append(('return accepted', i, None))
        if q == N + 'fetch_chunk':
            effs = [e for e in effs if e[0] == 'dht_.publish_shards']
        n_eff += len(effs)
        fails, _ = gate_check(f, [(lab, i) for lab, i, _t in effs], [('manifest_ttl', g_ttl)])
        failed = {n: p for _e, _g, n, p, _c in fails}
        for k, (lab, i, ttl_idx) in enumerate(effs):
            ck.ob('C03.gate', 'C03.gate/%s/%s#%d' % (q.split('::')[-1], lab, k), i not in failed, f.loc(i),
                  '%s in %s only past manifest_ttl(manifest, config_).has_value()' % (lab, q.split('::')[-1]), failed.get(i))
            if ttl_idx is not None:
                arg = f.call_args(i)[ttl_idx]
                ttl_names = {nd_['n'] for nd_ in f.nodes if nd_['k'] == 'VarDecl' and nd_['d'] in ttl_locals}
                def is_ttl_value(e, f=f, ttl_names=ttl_names):
                    t = norm(canon(f, e))
                    return (t[0] in ('op*', 'u*') and t[1][0] == 'v' and t[1][1] in ttl_names) or \
                           (t[0] == 'mcall' and t[1] == 'value' and t[2][0] == 'v' and t[2][1] in ttl_names)
                # the argument IS the manifest_ttl result (*ttl / ttl.value(), possibly through once-defined locals), not merely an
                # expression that mentions it: `cond ? announced : *ttl` is not bounded by the manifest's remaining lifetime
                def bounded(e, depth=0, f=f):
                    if depth > 6:
                        return False
                    for j in origin_chain(f, e):
                        if is_ttl_value(j):
                            return True
                        nd_ = f.nodes[f.strip(j)]
                        if nd_.get('callee') == 'std::min' and any(bounded(a_, depth + 1) for a_ in f.call_args(f.strip(j))[:2]):
                            return True            # min(x, *ttl) <= *ttl
                        if nd_.get('callee') == NA + 'clamp_chunk_ttl' and bounded(f.call_args(f.strip(j))[0], depth + 1):
                            return True            # *ttl is already inside [min, max] (C03.ttl/enforced), so the clamp cannot raise a value <= *ttl above it
                    return False
                direct = bounded(arg)
                capped = False
                ad = declref(f, arg)
                if not direct and ad is not None:
                    # accepted derived form: init from (x > 0 ? x : *ttl), `if (v > *ttl) v = *ttl;`, then clamp_chunk_ttl(v, min, max)
                    defs = all_defs(f, ad)
                    cap = [d for d in defs if d[0] == 'assign' and is_ttl_value(d[1])]
                    clamp = [d for d in defs if d[0] == 'assign' and f.nodes[f.strip(d[1])].get('callee') == NA + 'clamp_chunk_ttl']
                    cap_ok = False
                    cap_cond = None
                    for d in cap:
                        ifs = [a for a in f.ancestors(d[2]) if f.nodes[a]['k'] == 'IfStmt']
                        if ifs:
                            c = comparison(f, f.nodes[ifs[0]]['cond'])
                            cap_ok = bool(c) and c[0] == '>' and declref(f, c[1], ad) is not None and \
                                any(f.nodes[j]['k'] == 'DeclRefExpr' and f.nodes[j].get('d') in ttl_locals for j in f.walk(c[2])) and \
                                [x for x in f.kids(f.nodes[ifs[0]]['then']) or [f.nodes[ifs[0]]['then']]] != [] and f.nodes[ifs[0]].get('else') is None
                            cap_cond = f.nodes[ifs[0]]['cond']
                    cfg = Cfg.of(f)
                    order_ok = bool(cap) and bool(clamp) and cap_cond is not None and cfg.dominates(cfg.locate(cap_cond), cfg.locate(clamp[0][2])) and \
                        cfg.dominates(cfg.locate(clamp[0][2]), cfg.locate(i)) and len(defs) == 3
                    capped = cap_ok and order_ok
                ck.ob('C03.flow', 'C03.flow/%s/%s#%d' % (q.split('::')[-1], lab, k), direct or capped, f.loc(i),
                      'the lifetime given to %s is the manifest_ttl result%s' % (lab, '' if direct else ' or a value capped by it (`if (v > *ttl) v = *ttl`) before clamping'))
    ck.floor('C03.gate', 'lifetime-bearing effects in manifest-ingesting entries', n_eff, 13)
    # schedule_assigned_fetch only from handle_announce
    G = CallGraph(P)
    callers = {c for c in G.callers(N + 'schedule_assigned_fetch')}
    ck.ob('C03.gate', 'C03.gate/schedule_assigned_fetch-callers', callers == {N + 'handle_announce'}, '',
          'schedule_assigned_fetch (which caches the manifest and queues a fetch) is called only from handle_announce, past its gates (callers: %s)' % sorted(callers))
    # request_chunk goes through ingest_manifest first
    rq = P.fn(N + 'request_chunk')
    ck.touch(rq)
    ing = [i for i in rq.walk() if rq.nodes[i].get('callee') == N + 'ingest_manifest']
    w = [i for i, m, wr in field_accesses(rq) if wr and m == N + 'manifest_cache_']

    def g_ing(fact):
        kind, node, val = fact
        return kind == 'bool' and val is True and rq.nodes[node].get('callee') == N + 'ingest_manifest'
    fails, _ = gate_check(rq, [('manifest_cache_ write', i) for i in w], [('ingest_manifest', g_ing)])
    ck.ob('C03.gate', 'C03.gate/request_chunk', bool(ing) and not fails, rq.loc(), 'request_chunk caches the manifest only after ingest_manifest accepted it',
          fails[0][3] if fails else None)

    # ---- pending fetches ----------------------------------------------------------------------------------------------------------
    sf = P.fn(N + 'schedule_assigned_fetch')
    ck.touch(sf)
    me = [(l, r, s) for l, r, s in assignments(sf) if sf.nodes[sf.strip(l)].get('n') == 'manifest_expires']
    ok = len(me) == 1 and norm(canon(sf, me[0][1])) == ('m', V('manifest'), 'expires_at')
    ck.ob('C03.pending', 'C03.pending/expiry-recorded', ok, sf.loc(), 'a pending fetch records manifest.expires_at as its deadline')
    # ... whenever it records the manifest (the URI): a re-announcement carrying a new manifest also carries that manifest's deadline
    uri = [s_ for l, r, s_ in assignments(sf) if sf.nodes[sf.strip(l)].get('n') == 'manifest_uri']
    cfg_sf = Cfg.of(sf)
    paired = bool(me) and bool(uri) and all(
        cfg_sf.must_pass(u_, lambda e, t_=me[0][2]: e == t_ or sf.is_in(t_, e) and sf.nodes[e]['k'] == 'ExprWithCleanups') is None or
        not must_precede(sf, [u_], lambda e, t_=me[0][2]: e == t_ or sf.is_in(t_, e) and sf.nodes[e]['k'] == 'ExprWithCleanups') for u_ in uri)
    ck.ob('C03.pending', 'C03.pending/expiry-recorded-with-every-manifest', paired, sf.loc(me[0][2]) if me else sf.loc(),
          'every path of schedule_assigned_fetch that stores the announced manifest URI in the pending state also stores that manifest\'s expires_at '
          '(not only when the entry is first created)')
    pf = P.fn(N + 'process_pending_fetches')
    ck.touch(pf)
    lp = [l for l in loops(pf) if pf.nodes[l]['k'] == 'CXXForRangeStmt' and 'pending_chunk_fetches_' in pf.text(pf.nodes[l]['range'])]
    if len(lp) != 1:
        raise AnalysisBroken('process_pending_fetches lost its loop over pending_chunk_fetches_')
    body = pf.nodes[lp[0]]['body']
    conts = [i for i in pf.walk(body) if pf.nodes[i]['k'] == 'ContinueStmt']
    keep = []
    for c in conts:
        # the branch the `continue` ends: the then/else statement of the nearest enclosing if (braced or not)
        blk = c
        for a in pf.ancestors(c):
            if pf.nodes[a]['k'] == 'IfStmt':
                break
            blk = a
        drops = any(pf.nodes[j].get('callee', '').endswith('::push_back') and 'completed' in pf.text(j) for j in pf.walk(blk))
        if not drops:
            keep.append(c)
    ck.floor('C03.pending', 'iterations of process_pending_fetches that keep a fetch queued', len(keep), 2)
    live = live_fact(pf, names=('manifest_expires',))

    def g_live_or_unset(fact):
        if live(fact):
            return True
        h = holds(pf, fact)
        return bool(h) and h[1] == '==' and any(pf.nodes[pf.strip(x)].get('n') == 'manifest_expires' for x in (h[0], h[2]))
    fails, _ = gate_check(pf, [('keep queued', c) for c in keep], [('not expired', g_live_or_unset)])
    ck.ob('C03.pending', 'C03.pending/expired-dropped-first', not fails, pf.loc(),
          'a fetch stays queued (early continue) only if wall_now < manifest_expires was established in this pass: expired fetches are dropped '
          'whatever their back-off or in-flight state', fails[0][3] if fails else None)

    # ---- the receiving tables stamp the record with THIS lifetime: nothing held earlier extends it ------------------------------
    # (a shard record republished under a shorter-lived manifest must not keep the longer expiry of the record it replaces)
    PK = ck.prog(['src/dht/KademliaTable.cpp'])
    ps = PK.fn(KT + 'publish_shards')
    ck.touch(ps)
    ttl_p = ps.params[4]['d']
    stamps = [i for i in ps.walk() if ps.nodes[i]['k'] == 'CXXOperatorCallExpr' and ps.nodes[i].get('op') == '=' and
              (ps.nodes[ps.strip(ps.kids(i)[1])].get('m') or '').endswith('KeyShardRecord::expires_at')]
    ok_stamp = False
    if len(stamps) == 1:
        srcs = value_sources(ps, ps.kids(stamps[0])[2])
        ok_stamp = any(ps.nodes[j].get('callee') == 'std::chrono::steady_clock::now' for j in srcs) and \
            any(ps.nodes[j].get('op') == '+' for j in srcs) and \
            any(ps.nodes[j]['k'] == 'DeclRefExpr' and ps.nodes[j].get('d') == ttl_p for j in srcs) and \
            not any(ps.nodes[j]['k'] == 'MemberExpr' and (ps.nodes[j].get('m') or '').endswith('::shard_table_') for j in srcs)
        cfgp = Cfg.of(ps)
        wit = cfgp.must_pass_from((cfgp.entry, -1), lambda e, s_=stamps[0]: e == s_ or ps.is_in(s_, e) and ps.nodes[e]['k'] == 'ExprWithCleanups')
        ok_stamp = ok_stamp and wit is None
    ck.ob('C03.shard', 'C03.shard/expiry-from-this-ttl', ok_stamp, ps.loc(stamps[0]) if stamps else ps.loc(),
          'publish_shards stamps the record exactly once, on every path, with steady_clock::now() + ttl of this call '
          '(found %d assignment(s) of expires_at)' % len(stamps))

"""C36 — daemon threads never race on shared node state (lockset analysis over the whole program)."""
from sa.lockset import Locksets, UNSHARED_TYPES
from sa.prog import short
from sa.build import AnalysisBroken
from sa.paths import unique_init

LEVEL = 'other'
EXPLANATION = (
    'R-LOCK (G3, lockset analysis over all product units): thread roots are every callable handed to std::thread plus the daemon '
    'main (serve loop); a root spawned from a loop or from several sites is self-concurrent. For each root the set of mutexes held '
    'on entry of every reachable function is the intersection over call sites of the caller\'s set plus the RAII guards '
    '(scoped_lock / lock_guard / unique_lock, the only locking idiom in the tree) lexically alive at the site; calls through '
    'std::function are resolved by signature to every callable bound anywhere; lambdas handed to std algorithms run at the call. '
    'Every access (read / write, incl. mutating member calls and map operator[]) to a field of the shared node-state classes '
    'is attributed the locks held there. A field is reported when two accesses that can run on different threads, at least one a '
    'write, hold no common mutex. Lock identity is the mutex field (node_mutex of main.cpp and ControlServer::Impl::node_mutex_ '
    'are one object: frozen alias). Not reported, with reasons: std::atomic / mutex / const fields; accesses inside constructors '
    'and destructors and their callees (object not yet / no longer shared); accesses through a local shared_ptr that the function '
    'itself created with make_shared (object not yet published); a write that precedes, in the spawning function, the '
    'construction of the only thread it could conflict with; fields whose type is itself one of the analysed classes (their own '
    'fields are analysed instead); socket descriptors, listening ports and the control server object (transport plumbing used '
    'for shutdown signalling, not node state in the sense of the property — listed in the evidence as information).')
ASSUMPTIONS = ['lock-free protocols on std::atomic fields are assumed correct', 'object-insensitive: one Node / SessionManager / KeyManager per daemon process',
               'deadlock freedom is not decided', 'happens-before edges other than thread construction (condition variables, joins) are not modelled']

E = 'ephemeralnet::'
SHARED = (E + 'Node::', E + 'network::KeyManager::', E + 'KademliaTable::', E + 'ChunkStore::', E + 'network::ReputationManager::',
          E + 'network::SessionManager::', E + 'network::RelayClient::', E + 'network::SwarmCoordinator::', E + 'SwarmCoordinator::',
          E + 'network::NatTraversalManager::', E + 'crypto::CryptoManager::', E + 'Config::',
          # element types of the shared tables (reached through references / iterators into those tables)
          E + 'network::SessionKeyContext::', E + 'ChunkRecord::', E + 'ChunkLocator::', E + 'KademliaTable::KeyShardRecord::',
          E + 'Node::PendingFetchState::', E + 'Node::HandshakeRecord::', E + 'Node::ActiveUploadState::', E + 'Node::PendingUploadRequest::')
ALIASES = {E + 'daemon::ControlServer::Impl::node_mutex_': 'node_mutex'}
# transport plumbing: descriptors and ports read by loops that the owner wakes by closing them (frozen, one reason each)
PLUMBING = {E + 'network::SessionManager::listen_socket_': 'listening descriptor closed by stop() to wake accept()',
            E + 'network::SessionManager::bound_port_': 'written once by start() before the accept thread exists',
            E + 'network::SessionManager::Session::socket': 'descriptor closed by the owner to wake the blocked reader'}


def field_info(P, q):
    cls, n = q.rsplit('::', 1)
    r = P.records.get(cls)
    if not r:
        return {}
    for fl in r['fields']:
        if fl['n'] == n:
            return fl
    return {}


def run(ck):
    units = ck.all_units()
    P = ck.prog(units)
    mains = [f for f in P.by_q.get('main', []) if f.file.endswith('src/main.cpp')]
    if not mains:
        raise AnalysisBroken('daemon main() not found')
    # the daemon's serve-loop mutex is a local of main handed by reference to the ControlServer (which stores the reference in
    # Impl::node_mutex_): one lock, two names — found structurally, whatever the local is called
    aliases = dict(ALIASES)
    mf = mains[0]
    for i in mf.walk():
        nd = mf.nodes[i]
        if nd['k'] in ('CXXConstructExpr', 'CXXTemporaryObjectExpr') and (nd.get('callee') or '').startswith('ephemeralnet::daemon::ControlServer::ControlServer'):
            for a in mf.kids(i):
                an = mf.nodes[mf.strip(a)]
                if an['k'] == 'DeclRefExpr' and 'mutex' in (an.get('t') or '') and not an.get('g'):
                    aliases['local %s in %s' % (an.get('n'), short(mf.q))] = 'node_mutex'
    if len(aliases) < 2:
        raise AnalysisBroken('the serve-loop mutex handed to the ControlServer was not found in main()')
    L = Locksets(P, aliases=aliases, shared_classes=SHARED, roots_extra=[('main (daemon serve loop)', mains[0], False)], skip_ctor_callees=True)
    ck.floor('C36.roots', 'thread roots (std::thread entries + daemon main)', len(L.roots), 5)
    ck.extra['roots'] = {r: {'entry': short(v[0].q), 'self_concurrent': v[1], 'functions_reachable': len(L.must[r]),
                             'spawned_in': [short(f.q) for f, _n in L.spawns.get(r, [])]} for r, v in L.roots.items()}
    for f in P.fns:
        ck.functions_analysed.add(f.q)
    shared_types = tuple(s[:-2] for s in SHARED)

    acc = {}
    n_acc = 0
    info = {}
    for r in L.roots:
        for key, path, w, f, i, ls in L.accesses(r):
            last = field_info(P, path[-1])
            t_ = (last.get('t') or '')
            if last.get('const') or any(u in t_ for u in UNSHARED_TYPES):
                continue
            if any(any(u in (field_info(P, p).get('t') or '') for u in UNSHARED_TYPES) for p in path[:-1]):
                continue
            bare = t_.replace('const ', '').replace('&', '').strip()
            if bare in shared_types:
                continue      # member of an analysed class type: its own fields are analysed (calls in the callee, references via the parameter)
            if fresh_local_object(f, i):
                continue
            n_acc += 1
            acc.setdefault(path[0], []).append((r, tuple(path), w, f, i, ls))
    ck.floor('C36.access', 'accesses to fields of the shared node-state classes from thread roots', n_acc, 400)
    # copying a whole object of an analysed class reads every field of it (e.g. `config_copy = node_.config()`)
    n_copy = 0
    for r in L.roots:
        for fid, base in L.must[r].items():
            f = L.fn_by_id[fid]
            if f.kind in ('ctor', 'dtor'):
                continue
            for i in f.walk():
                src = whole_object_copy(f, i, shared_types)
                if src is None:
                    continue
                cls, node = src
                n_copy += 1
                acc.setdefault(cls + '::*', []).append((r, (cls + '::*',), False, f, node, base | L.held_at(f, node)))
    ck.extra['whole_object_copies'] = n_copy

    races = {}
    # a whole-object read conflicts with a write of any field of that class
    stars = {k: v for k, v in acc.items() if k.endswith('::*')}
    for outer, lst in list(acc.items()):
        if outer.endswith('::*'):
            continue
        extra = []
        for sk, sv in stars.items():
            cls = sk[:-3]
            for a in lst:
                if a[2] and any(p.rsplit('::', 1)[0] == cls for p in a[1]):
                    extra += [(b[0], a[1], False, b[3], b[4], b[5]) for b in sv]
                    break
        lst = lst + extra
        writes = [a for a in lst if a[2]]
        for a in writes:
            for b in lst:
                if a is b:
                    continue
                if a[0] == b[0] and not L.roots[a[0]][1]:
                    continue
                pa, pb = a[1], b[1]
                n = min(len(pa), len(pb))
                if pa[:n] != pb[:n]:
                    continue
                if a[5] & b[5]:
                    continue
                if ordered_by_spawn(L, a, b) or ordered_by_spawn(L, b, a):
                    continue
                k = pa if len(pa) >= len(pb) else pb
                races.setdefault(k, []).append((a, b))
    fields = set()
    for k_, lst in acc.items():
        if k_.endswith('::*'):
            continue
        for a in lst:
            fields.add(a[1])
    ck.extra['fields_analysed'] = len(fields)
    ck.extra['information_only'] = []
    n_ok = 0
    for k in sorted(fields):
        name = '.'.join([short(k[0])] + [p.rsplit('::', 1)[-1] for p in k[1:]])
        prs = races.get(k)
        if prs and k[-1] in PLUMBING:
            a, b = prs[0]
            ck.extra['information_only'].append('%s: unsynchronised %s/%s — %s' % (name, 'write', 'write' if b[2] else 'read', PLUMBING[k[-1]]))
            prs = None
        if not prs:
            n_ok += 1
            accs = [a for lst in acc.values() for a in lst if a[1] == k]
            nw = len([a for a in accs if a[2]])
            threads = sorted({a[0] for a in accs})
            common = None
            for a in accs:
                common = set(a[5]) if common is None else common & set(a[5])
            ck.ob('C36.race', 'C36.race/' + name, True, accs[0][3].loc(accs[0][4]) if accs else '',
                  '%s: %d access(es), %d write(s), from %d thread root(s); %s' % (
                      name, len(accs), nw, len(threads),
                      'never written after construction' if nw == 0 else
                      ('every access holds {%s}' % ', '.join(sorted(short(m) for m in common)) if common else
                       'no two conflicting accesses can run concurrently without a common mutex')))
            continue
        # prefer a witness whose second access is a read on a different root
        prs.sort(key=lambda ab: (ab[0][0] == ab[1][0], len(ab[0][5]) + len(ab[1][5])))
        a, b = prs[0]

        def describe(x):
            r, _p, w, f, i, ls = x
            return '%s of %s at %s on thread %s holding {%s}; call chain: %s' % ('write' if w else 'read', name, f.loc(i), r,
                                                                                   ', '.join(sorted(short(m) for m in ls)) or 'no lock', ' -> '.join(L.chain(r, f)))
        ck.ob('C36.race', 'C36.race/' + name, False, a[3].loc(a[4]),
              'accesses to %s from concurrent threads share no mutex (%d conflicting pairs)' % (name, len(prs)), [describe(a), describe(b)])
    ck.floor('C36.race', 'shared fields analysed', len(fields), 80)


def ordered_by_spawn(L, a, b):
    """a happens before every access of b's thread: a sits, in the function that constructs b's std::thread, before that
    construction (and b's root is spawned nowhere else)."""
    sp = L.spawns.get(b[0], [])
    if len(sp) != 1:
        return False
    sf, sn = sp[0]
    return a[3] is sf and a[4] < sn and not L.roots[b[0]][1]


def fresh_local_object(f, i):
    """The access goes through a local smart pointer initialised in this function by make_shared/make_unique: the object has
    not been published to another thread yet."""
    n = i
    while True:
        nd = f.nodes[n]
        if nd['k'] == 'MemberExpr':
            ks = f.kids(n)
            if not ks:
                return False
            n = f.strip(ks[0])
            continue
        if nd['k'] == 'CXXOperatorCallExpr' and nd.get('op') in ('->', '*') and len(f.kids(n)) >= 2:
            n = f.strip(f.kids(n)[1])
            continue
        if nd['k'] == 'DeclRefExpr' and nd.get('dk') == 'Var' and not nd.get('g'):
            d = nd['d']
            init = None
            for x in f.nodes:
                if x['k'] == 'VarDecl' and x.get('d') == d and x.get('init') is not None and x['init'] >= 0:
                    init = x['init']
            if init is None:
                return False
            # re-seated later?  (session = other;)
            for j in f.walk():
                jn = f.nodes[j]
                if jn['k'] in ('BinaryOperator', 'CXXOperatorCallExpr') and jn.get('op') == '=':
                    ks = f.kids(j) if jn['k'] == 'BinaryOperator' else f.kids(j)[1:]
                    l = f.nodes[f.strip(ks[0])] if ks else {}
                    if l.get('k') == 'DeclRefExpr' and l.get('d') == d:
                        return False
            c = f.nodes[f.strip(init)].get('callee') or ''
            return c.startswith(('std::make_shared', 'std::make_unique'))
        return False


def whole_object_copy(f, i, shared_types):
    """(class, source node) when node i copies a whole object of an analysed class out of shared storage: copy construction or
    copy assignment whose source is not a local value."""
    nd = f.nodes[i]
    src = None
    if nd['k'] == 'CXXConstructExpr' and nd.get('copymove') and len(f.kids(i)) == 1:
        src = f.kids(i)[0]
        cls = (nd.get('t') or '').replace('const ', '').strip()
    elif nd['k'] == 'CXXOperatorCallExpr' and nd.get('op') == '=' and len(f.kids(i)) == 3:
        src = f.kids(i)[2]
        cls = (f.nodes[f.kids(i)[1]].get('t') or '').replace('const ', '').strip()
    else:
        return None
    if cls not in shared_types:
        return None
    s = f.strip(src)
    sn = f.nodes[s]
    if sn['k'] == 'DeclRefExpr' and sn.get('dk') in ('Var', 'ParmVar') and not (sn.get('ts') or sn.get('t') or '').rstrip().endswith('&') and not sn.get('g'):
        return None          # copy of a local value
    if sn['k'] in ('CXXConstructExpr', 'CXXTemporaryObjectExpr', 'CXXBindTemporaryExpr', 'InitListExpr', 'CXXFunctionalCastExpr'):
        return None          # a temporary
    if sn['k'] in ('CallExpr', 'CXXMemberCallExpr') and not (sn.get('t') or '').startswith('const ') and not sn.get('lv'):
        return None          # a function returning by value
    return cls, s

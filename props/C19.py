"""C19 — proof-of-work checks accept exactly the nonces that meet the target."""
from sa.paths import gate_check, returns_true_only_if, loops, Cfg
from sa.flow import origin_chain, value_sources
from sa.match import comparison, const_value, holds
from sa.build import AnalysisBroken
from props.common import declref

UNITS = ['src/core/Node.cpp', 'src/security/StoreProof.cpp', 'src/bootstrap/TokenChallenge.cpp', 'src/main.cpp']
LEVEL = 'other'
EXPLANATION = (
    'R-FIELDS: every PoW digest binds every field of its surface (announce: all 7 AnnouncePayload fields; handshake, node and CLI: '
    'initiator, responder, public key, nonce; store: chunk id, payload size, filename hint, nonce; bootstrap token: chunk id, chunk '
    'hash, endpoint, nonce), each read flowing into an update of the one hasher that is finalised. R-CMP: every validator returns '
    'true only on difficulty == 0 or count_leading_zero_bits(digest of its own arguments) >= difficulty. R-SIB: the node and CLI '
    'handshake digests have the same update sequence; every solver returns only a candidate that its matching validator accepted '
    '(same inputs); every leading-zero counter matches one accepted idiom (byte loop: zero byte adds 8 and continues, bit loop 7..0 '
    'testing (byte >> bit) & 1, stop at the first set bit / first non-zero byte) and digest_meets_difficulty matches the '
    'full-bytes + mask idiom (d/8 zero bytes, then (byte & (0xFF << (8 - d%8))) == 0); difficulty caps equal 24.')
ASSUMPTIONS = ['the accepted counter idioms are listed in this module; a counter written in another style is reported for review '
               '(agreement of the counters for every digest is established idiom by idiom, not by evaluation)',
               'SHA-256 itself is C08']

N = 'ephemeralnet::'
NA = N + '(anonymous namespace)::'
SP = N + 'security::'
SPA = SP + '(anonymous namespace)::'
TC = N + 'bootstrap::'
AP = N + 'protocol::AnnouncePayload::'
SHA = N + 'crypto::Sha256::'


def counter_idiom_bytes(fn):
    """None if fn matches the byte-loop idiom, else a reason."""
    outer = [l for l in loops(fn) if fn.nodes[l]['k'] == 'CXXForRangeStmt']
    if len(outer) != 1:
        return 'expected exactly one range-for over the digest'
    o = outer[0]
    if declref(fn, fn.nodes[o]['range'], fn.params[0]['d']) is None:
        return 'the range-for does not iterate over the digest parameter'
    byte_d = fn.nodes[fn.nodes[o]['var']]['d']
    body = fn.nodes[o]['body']
    stmts = fn.kids(body)
    # zero-byte branch
    zb = [s for s in stmts if fn.nodes[s]['k'] == 'IfStmt']
    if not zb:
        return 'no zero-byte test'
    z = zb[0]
    c = comparison(fn, fn.nodes[z]['cond'])
    if not (c and c[0] == '==' and declref(fn, c[1], byte_d) is not None and const_value(fn, c[2]) == 0):
        return 'the first test in the byte loop is not `byte == 0`'
    then = fn.nodes[z]['then']
    adds8 = [j for j in fn.walk(then) if fn.nodes[j]['k'] == 'CompoundAssignOperator' and fn.nodes[j].get('op') == '+=' and const_value(fn, fn.kids(j)[1]) == 8]
    conts = [j for j in fn.walk(then) if fn.nodes[j]['k'] == 'ContinueStmt']
    if len(adds8) != 1 or len(conts) != 1:
        return 'a zero byte must add 8 and continue'
    total_d = declref(fn, fn.kids(adds8[0])[0])
    inner = [l for l in loops(fn) if fn.nodes[l]['k'] == 'ForStmt' and fn.is_in(l, body)]
    if len(inner) != 1:
        return 'expected one bit loop'
    il = inner[0]
    cond = comparison(fn, fn.nodes[il].get('cond')) if fn.nodes[il].get('cond') is not None else None
    bit_d = declref(fn, cond[1]) if cond else None
    if not (cond and cond[0] == '>=' and const_value(fn, cond[2]) == 0 and bit_d is not None):
        return 'bit loop condition is not `bit >= 0`'
    from sa.flow import all_defs
    defs = all_defs(fn, bit_d)
    if not ([x for x in defs if x[0] == 'init' and const_value(fn, x[1]) == 7] and
            [x for x in defs if x[0] == 'other' and fn.nodes[x[2]].get('op') == '--'] and len(defs) == 2):
        return 'bit loop does not run from 7 down by one'
    ibody = fn.nodes[il]['body']
    tests = [s for s in fn.walk(ibody) if fn.nodes[s]['k'] == 'IfStmt']
    if len(tests) != 1:
        return 'bit loop needs exactly one test'
    tcond = fn.nodes[tests[0]]['cond']
    shr = [j for j in fn.walk(tcond) if fn.nodes[j]['k'] == 'BinaryOperator' and fn.nodes[j].get('op') == '>>' and
           declref(fn, fn.kids(j)[0], byte_d) is not None and declref(fn, fn.kids(j)[1], bit_d) is not None]
    and1 = [j for j in fn.walk(tcond) if fn.nodes[j]['k'] == 'BinaryOperator' and fn.nodes[j].get('op') == '&' and const_value(fn, fn.kids(j)[1]) == 1]
    if not shr or not and1 or any(fn.nodes[j].get('op') == '!' for j in fn.walk(tcond)):
        return 'the bit test is not `(byte >> bit) & 1`'
    exits = [j for j in fn.walk(fn.nodes[tests[0]]['then']) if fn.nodes[j]['k'] in ('BreakStmt', 'ReturnStmt')]
    if not exits:
        return 'a set bit must stop the count'
    incs = [j for j in fn.walk(ibody) if fn.nodes[j]['k'] == 'UnaryOperator' and fn.nodes[j].get('op') == '++' and not fn.is_in(j, tests[0])]
    if len(incs) != 1:
        return 'each clear bit must add exactly one'
    inc_d = declref(fn, fn.kids(incs[0])[0])
    # after the bit loop the byte loop must stop; a separate `leading` counter must be added to the total
    after = stmts[stmts.index(il) + 1:] if il in stmts else []
    stops = [s for s in after if fn.nodes[s]['k'] in ('BreakStmt', 'ReturnStmt')]
    if not stops:
        return 'the byte loop must stop after the first non-zero byte'
    if inc_d != total_d:
        adds = [s for s in after if fn.nodes[s]['k'] == 'CompoundAssignOperator' and fn.nodes[s].get('op') == '+=' and
                declref(fn, fn.kids(s)[0], total_d) is not None and declref(fn, fn.kids(s)[1], inc_d) is not None]
        if len(adds) != 1:
            return 'the per-byte bit count is not added to the total'
    # no other writes of the total
    from sa.paths import local_writes
    others = [w for w in local_writes(fn, total_d) if w not in adds8 and not (fn.nodes[w]['k'] == 'UnaryOperator' and w in incs) and
              not (fn.nodes[w]['k'] == 'CompoundAssignOperator' and fn.is_in(w, body) and w not in adds8 and inc_d != total_d)]
    if others:
        return 'the total is modified elsewhere (%s)' % fn.text(others[0])
    rets = [j for j in fn.walk() if fn.nodes[j]['k'] == 'ReturnStmt']
    if not all(declref(fn, fn.kids(r)[0], total_d) is not None for r in rets):
        return 'a return does not yield the total'
    return None


def mask_idiom(fn):
    """digest_meets_difficulty: d/8 full zero bytes then mask 0xFF << (8 - d%8)."""
    d_d = fn.params[1]['d']
    dig_d = fn.params[0]['d']
    divs = [i for i in fn.walk() if fn.nodes[i]['k'] == 'BinaryOperator' and fn.nodes[i].get('op') == '/' and
            declref(fn, fn.kids(i)[0], d_d) is not None and const_value(fn, fn.kids(i)[1]) == 8]
    mods = [i for i in fn.walk() if fn.nodes[i]['k'] == 'BinaryOperator' and fn.nodes[i].get('op') == '%' and
            declref(fn, fn.kids(i)[0], d_d) is not None and const_value(fn, fn.kids(i)[1]) == 8]
    if len(divs) != 1 or len(mods) != 1:
        return 'full_bytes = d / 8 and remaining = d % 8 not found'
    fl = [l for l in loops(fn) if fn.nodes[l]['k'] == 'ForStmt']
    if len(fl) != 1:
        return 'expected one loop over the full bytes'
    c = comparison(fn, fn.nodes[fl[0]]['cond'])
    if not (c and c[0] == '<' and any(fn.nodes[j].get('op') == '/' for x in origin_chain(fn, c[2]) for j in fn.walk(x))):
        return 'the loop does not run over i < full_bytes'
    body = fn.nodes[fl[0]]['body']
    t = [s for s in fn.walk(body) if fn.nodes[s]['k'] == 'IfStmt']
    ok = len(t) == 1
    if ok:
        cc = comparison(fn, fn.nodes[t[0]]['cond'])
        ok = bool(cc) and cc[0] == '!=' and const_value(fn, cc[2]) == 0 and \
            any(fn.nodes[j]['k'] == 'ReturnStmt' and const_value(fn, fn.kids(j)[0]) == 0 for j in fn.walk(fn.nodes[t[0]]['then']))
    if not ok:
        return 'a non-zero full byte must return false'
    shl = [i for i in fn.walk() if fn.nodes[i]['k'] == 'BinaryOperator' and fn.nodes[i].get('op') == '<<' and const_value(fn, fn.kids(i)[0]) == 0xFF]
    if len(shl) != 1:
        return 'mask 0xFF << (8 - remaining) not found'
    sh = fn.strip(fn.kids(shl[0])[1])
    if not (fn.nodes[sh].get('op') == '-' and const_value(fn, fn.kids(sh)[0]) == 8 and
            any(fn.nodes[j].get('op') == '%' for x in origin_chain(fn, fn.kids(sh)[1]) for j in fn.walk(x))):
        return 'mask shift is not 8 - remaining_bits'
    # the mask is truncated to one byte and applied to digest[full_bytes], compared with 0
    final = [i for i in fn.walk() if fn.nodes[i]['k'] == 'ReturnStmt' and (cmp_ := comparison(fn, fn.kids(i)[0])) and cmp_[0] == '==' and
             const_value(fn, cmp_[2]) == 0 and any(fn.nodes[j].get('op') == '&' for j in fn.walk(cmp_[1]))]
    if len(final) != 1:
        return 'final test (digest[full_bytes] & mask) == 0 not found'
    return None


def digest_fields(ck, fn, tag, wanted, hasher_update_ok=True):
    """Every wanted source (field qualified name or parameter index) flows into an update on the single finalised hasher."""
    ck.touch(fn)
    hs = [fn.nodes[i]['d'] for i in fn.walk() if fn.nodes[i]['k'] == 'VarDecl' and fn.nodes[i].get('t', '').endswith('crypto::Sha256')]
    if len(hs) != 1:
        raise AnalysisBroken('%s: expected exactly one Sha256 hasher' % fn.q)
    h = hs[0]
    upd = []
    for i in fn.walk():
        nd = fn.nodes[i]
        c = nd.get('callee', '')
        if c == SHA + 'update' and declref(fn, fn.receiver(i), h) is not None:
            upd.append(fn.call_args(i)[0])
        elif c.endswith('::update_length_prefixed') and declref(fn, fn.call_args(i)[0], h) is not None:
            upd.append(fn.call_args(i)[1])
    fin = [i for i in fn.walk() if fn.nodes[i].get('callee') == SHA + 'finalize' and declref(fn, fn.receiver(i), h) is not None]
    ck.ob('C19.fields', 'C19.fields/%s/finalised' % tag, len(fin) == 1 and any(fn.nodes[r]['k'] == 'ReturnStmt' and fn.is_in(fin[0], r) for r in fn.walk()),
          fn.loc(), '%s returns hasher.finalize() of its single hasher' % tag)
    seen = []
    for a in upd:
        srcs = value_sources(fn, a)
        labs = set()
        for j in srcs:
            nd = fn.nodes[j]
            if nd['k'] == 'MemberExpr' and nd.get('mk') == 'Field':
                labs.add(nd['m'])
            if nd['k'] == 'DeclRefExpr' and nd.get('dk') == 'ParmVar':
                labs.add('param:%s' % nd['n'])
        seen.append(labs)
    for w in wanted:
        ok = any(w in labs for labs in seen)
        ck.ob('C19.fields', 'C19.fields/%s/%s' % (tag, w.split('::')[-1]), ok, fn.loc(),
              '%s feeds %s into the hash' % (tag, w.split('::')[-1]))
    return seen


def validator(ck, fn, tag, digest_q, counter_qs, diff_idx, passthrough):
    """fn returns true only if difficulty == 0 or counter(digest(args…)) >= difficulty."""
    ck.touch(fn)
    dd = fn.params[diff_idx]['d']

    def g(fact):
        h = holds(fn, fact)
        if not h:
            return False
        a, rel, b = h
        if rel == '==' and declref(fn, a, dd) is not None and const_value(fn, b) == 0:
            return True
        if rel == '>=' and declref(fn, b, dd) is not None:
            cn = fn.strip(a)
            if fn.nodes[cn].get('callee') in counter_qs:
                arg = fn.call_args(cn)[0]
                for j in value_sources(fn, arg):
                    if fn.nodes[j].get('callee') == digest_q:
                        da = fn.call_args(j)
                        return all(declref(fn, da[k], fn.params[p]['d']) is not None for k, p in enumerate(passthrough))
        return False
    fails, nret = returns_true_only_if(fn, [('meets-target', g)])
    ck.floor('C19.valid', 'returns of %s' % tag, nret, 1)
    ck.ob('C19.valid', 'C19.valid/%s' % tag, not fails, fn.loc(),
          '%s returns true only on difficulty == 0 or count_leading_zero_bits(%s(<its own arguments>)) >= difficulty' % (tag, digest_q.split('::')[-1]),
          fails[0][2] if fails else None)
    # and it does return true in that case: the final return is the comparison itself (no extra condition)
    rets = [i for i in fn.walk() if fn.nodes[i]['k'] == 'ReturnStmt']
    last = rets[-1]
    c = comparison(fn, fn.kids(last)[0])
    ck.ob('C19.valid', 'C19.valid/%s/exact' % tag, bool(c) and c[0] == '>=' and declref(fn, c[2], dd) is not None, fn.loc(last),
          '%s accepts every nonce that meets the target (returns the comparison itself)' % tag)


def solver(ck, fn, tag, validator_q, passthrough, cand_arg):
    """Every non-trivial value the solver yields was accepted by validator(<same inputs>, candidate)."""
    ck.touch(fn)
    calls = [i for i in fn.walk() if fn.nodes[i].get('callee') == validator_q]
    ck.floor('C19.solver', 'validator calls in %s' % tag, len(calls), 1)
    v = calls[0]
    a = fn.call_args(v)
    same = all(declref(fn, a[k], fn.params[p]['d']) is not None for k, p in passthrough)
    ck.ob('C19.solver', 'C19.solver/%s/same-inputs' % tag, same, fn.loc(v), '%s tests candidates with the validator on its own inputs' % tag)
    # success results inside the loop are gated by the validator returning true
    lp = [l for l in loops(fn) if fn.is_in(v, l)]
    succ = []
    for i in fn.walk(lp[0]) if lp else []:
        if fn.nodes[i]['k'] == 'ReturnStmt' and fn.kids(i) and const_value(fn, fn.kids(i)[0]) != 0 and 'nullopt' not in fn.text(i):
            succ.append(i)

    def g(fact):
        kind, node, val = fact
        return kind == 'bool' and val is True and node == fn.strip(v)
    fails, _ = gate_check(fn, [('success', s) for s in succ], [('validator-accepted', g)])
    ck.floor('C19.solver', 'success exits in the search loop of %s' % tag, len(succ), 1)
    ck.ob('C19.solver', 'C19.solver/%s/accepted-only' % tag, not fails, fn.loc(), '%s reports success only for a candidate the validator accepted' % tag,
          fails[0][3] if fails else None)
    # ... and so is every other success exit of the solver, except the trivial `difficulty == 0` one: no remembered or
    # precomputed nonce is handed out without being validated against THIS call's inputs
    succ_all = [i for i in fn.walk() if fn.nodes[i]['k'] == 'ReturnStmt' and fn.kids(i) and const_value(fn, fn.kids(i)[0]) not in (0, None) and 'nullopt' not in fn.text(i)]
    pds = {p_['d'] for p_ in fn.params}

    def g_any(fact):
        if g(fact):
            return True
        h = holds(fn, fact)
        if h is None:
            return False
        a_, op_, b_ = h
        return op_ == '==' and const_value(fn, b_) == 0 and declref(fn, a_) in pds
    fails2, _ = gate_check(fn, [('success', s_) for s_ in succ_all], [('validator-accepted or difficulty == 0', g_any)])
    ck.ob('C19.solver', 'C19.solver/%s/no-unvalidated-success' % tag, not fails2, fn.loc(fails2[0][2]) if fails2 else fn.loc(),
          'every success exit of %s (%d) is past the validator accepting the candidate for these inputs, or past difficulty == 0' % (tag, len(succ_all)),
          fails2[0][3] if fails2 else None)
    impure = impure_sites(fn)
    ck.ob('C19.pure', 'C19.pure/%s' % tag, not impure, fn.loc(impure[0]) if impure else fn.loc(),
          '%s keeps no state between calls: no static / thread_local local and no use of a mutable namespace-scope variable' % tag)
    cand = a[cand_arg]
    return cand


def impure_sites(fn):
    """Nodes of fn that make it stateful: non-const static / thread_local locals, and references to mutable variables at
    namespace scope (std:: objects such as std::cerr excepted)."""
    out = []
    for i in fn.walk():
        nd = fn.nodes[i]
        if nd['k'] == 'VarDecl' and (nd.get('static') or nd.get('tls')) and not nd.get('constexpr') and not (nd.get('const') and 'init' in nd):
            out.append(i)
        if nd['k'] == 'DeclRefExpr' and nd.get('g') and nd.get('dk') == 'Var' and 'cv' not in nd and not (nd.get('t') or '').startswith('const ') \
                and not (nd.get('q') or '').startswith('std::'):
            out.append(i)
    return out


def run(ck):
    PN = ck.prog(['src/core/Node.cpp'])
    PS = ck.prog(['src/security/StoreProof.cpp'])
    PT = ck.prog(['src/bootstrap/TokenChallenge.cpp'])
    PM = ck.prog(['src/main.cpp'])

    # ---- counters --------------------------------------------------------------------------------------
    counters = [(PN, NA + 'count_leading_zero_bits', 'node'), (PS, SPA + 'count_leading_zero_bits', 'store'), (PM, 'count_leading_zero_bits', 'cli')]
    cq = []
    for P, q, tag in counters:
        fs = [f for f in P.fns if f.q == q or f.q.endswith('::' + q)]
        fs = [f for f in fs if f.q.split('::')[-1] == 'count_leading_zero_bits']
        if not fs:
            ck.ob('C19.counter', 'C19.counter/' + tag, False, '',
                  'the %s unit no longer has a count_leading_zero_bits of the idiom shared with its siblings; its validator cannot be '
                  'shown to agree with the other leading-zero counters' % tag)
            continue
        f = fs[0]
        ck.touch(f)
        cq.append(f.q)
        why = counter_idiom_bytes(f)
        ck.ob('C19.counter', 'C19.counter/' + tag, why is None, f.loc(),
              'count_leading_zero_bits (%s) follows the byte-loop idiom shared by its siblings%s' % (tag, '' if why is None else ' — ' + why))
    dm = PT.fn(TC + 'digest_meets_difficulty')
    ck.touch(dm)
    why = mask_idiom(dm)
    ck.ob('C19.counter', 'C19.counter/token-mask', why is None, dm.loc(),
          'digest_meets_difficulty follows the full-bytes + mask idiom%s' % ('' if why is None else ' — ' + why))
    ok0 = any((c := comparison(dm, dm.nodes[i]['cond'])) and c[0] == '==' and declref(dm, c[1], dm.params[1]['d']) is not None and const_value(dm, c[2]) == 0
              for i in dm.walk() if dm.nodes[i]['k'] == 'IfStmt')
    ck.ob('C19.counter', 'C19.counter/token-zero', ok0, dm.loc(), 'difficulty 0 is always met')

    # ---- digests ----------------------------------------------------------------------------------------
    ad = PN.fn(NA + 'announce_pow_digest')
    digest_fields(ck, ad, 'announce_pow_digest', [AP + x for x in ('chunk_id', 'peer_id', 'endpoint', 'manifest_uri', 'assigned_shards', 'ttl', 'work_nonce')])
    hd = PN.fn(NA + 'handshake_pow_digest')
    seq_n = digest_fields(ck, hd, 'handshake_pow_digest', ['param:initiator', 'param:responder', 'param:initiator_public', 'param:nonce'])
    td = [f for f in PM.fns if f.q.endswith('transport_handshake_digest')][0]
    seq_c = digest_fields(ck, td, 'transport_handshake_digest(cli)', ['param:initiator', 'param:responder', 'param:initiator_public', 'param:nonce'])
    ck.ob('C19.sib', 'C19.sib/handshake-digest-sequence', [sorted(x) for x in seq_n] == [sorted(x) for x in seq_c], td.loc(),
          'the CLI and the node hash the handshake surface in the same order (%s)' % [sorted(x) for x in seq_c])
    # same helper semantics: both length prefixes are 8-byte big endian of data.size()
    for P, q, tag in ((PN, NA + 'update_length_prefixed', 'node'), (PM, 'update_length_prefixed', 'cli')):
        f = [x for x in P.fns if x.q == q or x.q.endswith('::' + q)][0]
        ok = any(f.nodes[i].get('callee', '').endswith('to_big_endian_bytes') for i in f.walk()) and \
            any(f.nodes[i].get('callee', '').endswith('::size') for i in f.walk())
        ck.ob('C19.sib', 'C19.sib/length-prefix-' + tag, ok, f.loc(), 'update_length_prefixed (%s) hashes to_big_endian_bytes(data.size()) then the data' % tag)
        from sa.paths import Cfg as _Cfg
        ups_ = [i for i in f.walk() if (f.nodes[i].get('callee') or '').endswith('Sha256::update') and
                any((f.nodes[j].get('callee') or '').endswith('to_big_endian_bytes') for j in value_sources(f, f.call_args(i)[0]))]
        cfg_ = _Cfg.of(f)
        wit_ = cfg_.must_pass_from((cfg_.entry, -1), lambda e, s_=set(ups_): e in s_ or any(f.is_in(x, e) for x in s_) and f.nodes[e]['k'] == 'ExprWithCleanups') if ups_ else ['no update(length bytes)']
        ck.ob('C19.sib', 'C19.sib/length-prefix-always-' + tag, wit_ is None, f.loc(),
              'update_length_prefixed (%s) hashes the 8-byte length on every path, also for an empty field (field boundaries stay unambiguous)' % tag, wit_)
    sd = PS.fn(SPA + 'pow_digest')
    SW = SP + 'StoreWorkInput::'
    digest_fields(ck, sd, 'pow_digest(store)', [SW + 'chunk_id', SW + 'payload_size', SW + 'filename_hint', 'param:nonce'])

    # ---- validators ---------------------------------------------------------------------------------------
    validator(ck, PN.fn(NA + 'announce_pow_valid'), 'announce_pow_valid', NA + 'announce_pow_digest', cq, 1, [0])
    validator(ck, PN.fn(NA + 'handshake_pow_valid'), 'handshake_pow_valid', NA + 'handshake_pow_digest', cq, 4, [0, 1, 2, 3])
    tv = [f for f in PM.fns if f.q.endswith('transport_pow_valid')][0]
    validator(ck, tv, 'transport_pow_valid(cli)', td.q, cq, 4, [0, 1, 2, 3])
    validator(ck, PS.fn(SP + 'store_pow_valid'), 'store_pow_valid', SPA + 'pow_digest', cq, 2, [0, 1])

    # ---- solvers --------------------------------------------------------------------------------------------
    solver(ck, PN.fn(NA + 'compute_announce_pow'), 'compute_announce_pow', NA + 'announce_pow_valid', [(0, 0), (1, 1)], 0)
    solver(ck, PN.fn(NA + 'compute_handshake_pow'), 'compute_handshake_pow', NA + 'handshake_pow_valid', [(0, 0), (1, 1), (2, 2), (4, 3)], 3)
    cs = [f for f in PM.fns if f.q.endswith('compute_transport_pow')][0]
    solver(ck, cs, 'compute_transport_pow(cli)', tv.q, [(0, 0), (1, 1), (2, 2), (4, 3)], 3)
    solver(ck, PS.fn(SP + 'compute_store_pow'), 'compute_store_pow', SP + 'store_pow_valid', [(0, 0), (2, 1)], 1)
    st = PT.fn(TC + 'solve_token_challenge')
    ck.touch(st)
    # token: material = chunk_id ‖ chunk_hash ‖ endpoint ‖ nonce(8, BE); digest over the whole material; success gated by digest_meets_difficulty
    ins = [i for i in st.walk() if st.nodes[i].get('callee', '').endswith('::insert')]
    order = []
    for i in ins:
        for j in st.walk(st.call_args(i)[1]):
            if st.nodes[j]['k'] == 'MemberExpr' and st.nodes[j].get('mk') == 'Field':
                order.append(st.nodes[j]['n'])
                break
    ck.ob('C19.fields', 'C19.fields/token/material', order == ['chunk_id', 'chunk_hash', 'endpoint'], st.loc(),
          'the token material is chunk_id, chunk_hash, endpoint (found %s) followed by the 8-byte nonce' % order)
    dg = [i for i in st.walk() if st.nodes[i].get('callee') == SHA + 'digest']
    wn = [i for i in st.walk() if st.nodes[i].get('callee', '').endswith('write_nonce')]
    ok = len(dg) == 1 and len(wn) == 1 and any(st.nodes[j].get('callee', '').endswith('::data') for j in st.walk(dg[0])) and \
        any(st.nodes[j].get('callee', '').endswith('::size') for j in st.walk(dg[0]))
    ck.ob('C19.fields', 'C19.fields/token/digest-whole-material', ok, st.loc(), 'the digest covers material.data() .. material.size() after write_nonce')
    mm = [i for i in st.walk() if st.nodes[i].get('callee') == TC + 'digest_meets_difficulty']
    succ = [i for i in st.walk() if st.nodes[i]['k'] == 'ReturnStmt' and mm and any(st.is_in(i, l) for l in loops(st))]

    def gt(fact):
        kind, node, val = fact
        return kind == 'bool' and val is True and st.nodes[node].get('callee') == TC + 'digest_meets_difficulty' and \
            declref(st, st.call_args(node)[1], st.params[2]['d']) is not None
    fails, _ = gate_check(st, [('success', s) for s in succ], [('meets', gt)])
    ck.ob('C19.solver', 'C19.solver/solve_token_challenge/accepted-only', bool(succ) and not fails, st.loc(),
          'solve_token_challenge returns only a nonce whose digest meets the difficulty', fails[0][3] if fails else None)

    # ---- caps -------------------------------------------------------------------------------------------------
    caps = {}
    for P, q in ((PN, N + 'kMaxHandshakePowDifficulty'), (PN, N + 'kMaxAnnouncePowDifficulty'), (PS, SP + 'kMaxStorePowDifficulty')):
        for g in P.globals:
            if g.endswith(q.split('::')[-1]):
                try:
                    caps[q.split('::')[-1]] = P.global_const(g)
                except AnalysisBroken:
                    pass
    # the store validator caps the demanded difficulty exactly like the solver: whatever difficulty is asked, the number of leading
    # zero bits it requires is min(difficulty, 24) (N1: value of the right operand of the final `zeros >= difficulty` test)
    from sa.absint2 import Analyzer
    from sa.lin import Lin
    sv_ = PS.fn(SP + 'store_pow_valid')
    seen_cmp = {'n': 0, 'bad': None}

    def hook(an_, fn_, node_, st_, fr_):
        if fn_ is not sv_:
            return
        c_ = comparison(fn_, fn_.kids(node_)[0])
        if not c_ or c_[0] not in ('>=', '<='):
            return
        dnode = c_[2] if c_[0] == '>=' else c_[1]
        for s2_, vals_ in an_.silent(lambda: an_.evs(fn_, [dnode], st_.copy(), fr_), fr_):
            d_eff = vals_[0]
            d_in = an_.param_values[2]
            seen_cmp['n'] += 1
            ok_ = isinstance(d_eff, Lin) and isinstance(d_in, Lin) and s2_.cons.entails_le(d_eff - 24) and s2_.cons.entails_le(d_eff - d_in)
            if ok_:
                s3_ = s2_.copy()
                s3_.cons.add_le(d_in - 24)
                ok_ = s3_.cons.is_unsat() or s3_.cons.entails_eq(d_eff - d_in)
            if not ok_ and seen_cmp['bad'] is None:
                seen_cmp['bad'] = (node_, d_eff)
    an_sv = Analyzer(PS, inline=lambda q: False)
    an_sv.return_hook = hook
    an_sv.run(sv_)
    ck.ob('C19.caps', 'C19.caps/store-validator-clamps', seen_cmp['n'] >= 1 and seen_cmp['bad'] is None, sv_.loc(seen_cmp['bad'][0]) if seen_cmp['bad'] else sv_.loc(),
          'store_pow_valid demands min(difficulty, 24) leading zero bits for every requested difficulty, as compute_store_pow solves for '
          '(%d comparison state(s)%s)' % (seen_cmp['n'], '' if seen_cmp['bad'] is None else '; demanded %r' % (seen_cmp['bad'][1],)))
    ck.floor('C19.caps', 'difficulty caps', len(caps), 2)
    ck.ob('C19.caps', 'C19.caps/24', all(v == 24 for v in caps.values()), '', 'PoW difficulty caps equal 24 (found %s)' % caps)

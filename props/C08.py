"""C08 — SHA-256 and HMAC-SHA256 match the standards (constants and shape; necessary conditions)."""
from sa.canon import pin, vn, canon, norm, return_expr, statements, V, C
from sa.paths import loops, Cfg
from sa.match import comparison, const_value
from sa.build import AnalysisBroken
from props.common import declref

UNITS = ['src/crypto/Sha256.cpp', 'src/crypto/HmacSha256.cpp']
LEVEL = 'other'
EXPLANATION = (
    'R-INV (N1, abstract interpretation): the class invariant 0 <= buffer_size_ <= 63 is inductive over Sha256::update and finalize '
    'for every input span (so for every way of splitting a message into update calls), every buffer_/state_/schedule access and '
    'memcpy under it is in bounds, every loop has a ranking function; HmacSha256::compute/verify are memory safe for all key, '
    'message and tag lengths. '
    'R-TABLE against FIPS 180-4 / RFC 2104, computed from first principles in the checker (K = fractional parts of the cube roots '
    'of the first 64 primes, H0 = fractional parts of the square roots of the first 8 primes): the 64 round constants, the 8 '
    'initial state words, rotr, Ch, Maj, the four sigma functions (rotation/shift amounts), big-endian word load/store, the '
    'message-schedule recurrence (offsets -2, -7, -15, -16), the round function (temp1, temp2, register rotation, feed-forward), '
    'block size 64, padding byte 0x80, zero fill to 56, 64-bit big-endian bit length, bit_len_ += 8 * size, buffering by '
    'min(64 - buffer_size_, remaining) and transform at 64. HMAC: pads 0x36 / 0x5c over a 64-byte block, keys longer than the '
    'block replaced by their digest, inner = H(ipad | data), outer = H(opad | inner). These are canonical-tree comparisons '
    '(commutative operands sorted, casts dropped), so equivalent re-spellings compare equal.')
ASSUMPTIONS = ['the digest / MAC values themselves are not computed; a refactor that computes the constants differently makes the check '
               'exit 2 (anchor lost), not raise a violation',
               'verify()\'s full-tag constant-time comparison is checked by C13']

NS = 'ephemeralnet::crypto::'
AN = NS + '(anonymous namespace)::'


def primes(n):
    out, c = [], 2
    while len(out) < n:
        if all(c % p for p in out):
            out.append(c)
        c += 1
    return out


def iroot(x, k):
    lo, hi = 0, 1 << ((x.bit_length() + k - 1) // k + 1)
    while lo < hi:
        mid = (lo + hi + 1) // 2
        if mid ** k <= x:
            lo = mid
        else:
            hi = mid - 1
    return lo


def fips_k():
    return [iroot(p << 96, 3) & 0xFFFFFFFF for p in primes(64)]


def fips_h0():
    return [iroot(p << 64, 2) & 0xFFFFFFFF for p in primes(8)]


def alpha(fn, t):
    names = {p['n']: 'p%d' % i for i, p in enumerate(fn.params)}

    def rec(x):
        if isinstance(x, tuple):
            if len(x) == 2 and x[0] == 'v' and x[1] in names:
                return ('v', names[x[1]])
            return tuple(rec(y) for y in x)
        return x
    return norm(rec(t))


def P_(i):
    return ('v', 'p%d' % i)


def run(ck):
    P = ck.prog(['src/crypto/Sha256.cpp'])

    def fn(name):
        c = [f for f in P.fns if f.q in (AN + name, NS + 'Sha256::' + name)]
        if not c:
            raise AnalysisBroken('Sha256 anchor %s not found' % name)
        ck.touch(c[0])
        return pin(c[0])
    # ---- constants ------------------------------------------------------------------------------------------
    g = P.global_(AN + 'kRoundConstants')
    lits = [int(n['v']) for n in g['nodes'] if n['k'] == 'IntegerLiteral']
    ck.ob('C08.table', 'C08.table/K', lits == fips_k(), '', 'kRoundConstants equals the 64 FIPS 180-4 round constants'
          + ('' if lits == fips_k() else ' (first difference at index %d)' % next((i for i, (a, b) in enumerate(zip(lits, fips_k())) if a != b), len(lits))))
    ctor = [f for f in P.fns if f.q == NS + 'Sha256::Sha256' and f.kind == 'ctor'][0]
    ck.touch(ctor)
    h0 = []
    for i in ctor.walk():
        nd = ctor.nodes[i]
        if nd['k'] == 'CtorInit' and nd.get('m') == NS + 'Sha256::state_':
            h0 = [int(ctor.nodes[j]['v']) for j in ctor.walk(i) if ctor.nodes[j]['k'] == 'IntegerLiteral']
    ck.ob('C08.table', 'C08.table/H0', h0 == fips_h0(), ctor.loc(), 'the initial state equals the FIPS 180-4 H(0) words')
    inits = {ctor.nodes[i].get('m', '').split('::')[-1]: [const_value(ctor, j) for j in ctor.walk(i) if 'cv' in ctor.nodes[j]] for i in ctor.walk() if ctor.nodes[i]['k'] == 'CtorInit'}
    ck.ob('C08.table', 'C08.table/zero-start', 0 in (inits.get('buffer_size_') or []) and 0 in (inits.get('bit_len_') or []), ctor.loc(),
          'buffer_size_ and bit_len_ start at 0')
    # ---- small functions --------------------------------------------------------------------------------------
    want = {
        'rotr': ('|', ('>>', P_(0), P_(1)), ('<<', P_(0), ('-', C(32), P_(1)))),
        'ch': ('^', ('&', P_(0), P_(1)), ('&', ('u~', P_(0)), P_(2))),
        'maj': ('^', ('&', P_(0), P_(1)), ('&', P_(0), P_(2)), ('&', P_(1), P_(2))),
        'big_sigma0': ('^', ('call', 'rotr', P_(0), C(2)), ('call', 'rotr', P_(0), C(13)), ('call', 'rotr', P_(0), C(22))),
        'big_sigma1': ('^', ('call', 'rotr', P_(0), C(6)), ('call', 'rotr', P_(0), C(11)), ('call', 'rotr', P_(0), C(25))),
        'small_sigma0': ('^', ('call', 'rotr', P_(0), C(7)), ('call', 'rotr', P_(0), C(18)), ('>>', P_(0), C(3))),
        'small_sigma1': ('^', ('call', 'rotr', P_(0), C(17)), ('call', 'rotr', P_(0), C(19)), ('>>', P_(0), C(10))),
        'read_be32': ('|', ('<<', ('idx', P_(0), C(0)), C(24)), ('<<', ('idx', P_(0), C(1)), C(16)), ('<<', ('idx', P_(0), C(2)), C(8)), ('idx', P_(0), C(3))),
    }
    for name, ref in want.items():
        f = fn(name)
        got = alpha(f, return_expr(f) or ('?',))
        ck.ob('C08.fn', 'C08.fn/' + name, got == norm(ref), f.loc(), '%s has the FIPS 180-4 definition (found %s)' % (name, got if got != norm(ref) else 'ok'))
    wb = fn('write_be32')
    st = [(op, alpha(wb, l), alpha(wb, r)) for op, l, r, _i in statements(wb)]
    ref = [('=', ('idx', P_(0), C(k)), norm(('&', ('>>', P_(1), C(sh)), C(255))) if sh else norm(('&', P_(1), C(255)))) for k, sh in ((0, 24), (1, 16), (2, 8), (3, 0))]
    ck.ob('C08.fn', 'C08.fn/write_be32', sorted(st, key=repr) == sorted(ref, key=repr), wb.loc(), 'write_be32 stores the word big endian')

    # ---- transform ------------------------------------------------------------------------------------------------
    tr = fn('transform')
    sts = [(op, norm(l), norm(r)) for op, l, r, _i in statements(tr)]
    i_ = V('i')
    sched = lambda k: ('idx', V('schedule'), ('-', i_, C(k)))
    need = [
        ('=', ('idx', V('schedule'), i_), norm(('call', 'read_be32', ('+', V('block'), ('*', i_, C(4)))))),
        ('=', ('idx', V('schedule'), i_), norm(('+', ('call', 'small_sigma1', sched(2)), sched(7), ('call', 'small_sigma0', sched(15)), sched(16)))),
        ('=', V('h'), V('g')), ('=', V('g'), V('f')), ('=', V('f'), V('e')), ('=', V('e'), norm(('+', V('d'), V('temp1')))),
        ('=', V('d'), V('c')), ('=', V('c'), V('b')), ('=', V('b'), V('a')), ('=', V('a'), norm(('+', V('temp1'), V('temp2')))),
    ] + [('+=', ('idx', ('f', 'state_'), C(k)), V(r)) for k, r in enumerate('abcdefgh')]
    missing = [x for x in need if x not in sts]
    ck.ob('C08.transform', 'C08.transform/statements', not missing, tr.loc(),
          'transform contains the schedule load, the schedule recurrence (-2,-7,-15,-16), the register rotation and the feed-forward'
          + ('' if not missing else ' — missing %s' % (missing[:2],)))
    # order of the register rotation (h first … a last) inside the round loop
    order = [s[1] for s in sts if s[0] == '=' and s[1] in [V(x) for x in 'hgfedcba']]
    ck.ob('C08.transform', 'C08.transform/rotation-order', order == [V(x) for x in 'hgfedcba'], tr.loc(), 'registers are shifted in the order h,g,f,e,d,c,b,a')
    temps = {}
    for i in tr.walk():
        nd = tr.nodes[i]
        if nd['k'] == 'VarDecl' and vn(tr, nd) in ('temp1', 'temp2') and 'init' in nd:
            temps[vn(tr, nd)] = norm(canon(tr, nd['init']))
    t1 = norm(('+', V('h'), ('call', 'big_sigma1', V('e')), ('call', 'ch', V('e'), V('f'), V('g')), ('idx', C(0), i_), ('idx', V('schedule'), i_)))
    got1 = temps.get('temp1')
    # kRoundConstants[i] is a global array reference: accept any idx whose base is not a local
    ok1 = got1 is not None and got1[0] == '+' and len(got1) == 6 and V('h') in got1 and ('call', 'big_sigma1', V('e')) in got1 and \
        ('call', 'ch', V('e'), V('f'), V('g')) in got1 and ('idx', V('schedule'), i_) in got1 and \
        any(x[0] == 'idx' and x[2] == i_ and x[1] != V('schedule') for x in got1[1:] if isinstance(x, tuple))
    ck.ob('C08.transform', 'C08.transform/temp1', ok1, tr.loc(), 'temp1 = h + Sigma1(e) + Ch(e,f,g) + K[i] + W[i] (found %s)' % (got1,))
    ck.ob('C08.transform', 'C08.transform/temp2', temps.get('temp2') == norm(('+', ('call', 'big_sigma0', V('a')), ('call', 'maj', V('a'), V('b'), V('c')))), tr.loc(),
          'temp2 = Sigma0(a) + Maj(a,b,c)')
    uses_k = any(tr.nodes[j].get('q', '').endswith('kRoundConstants') for j in tr.walk())
    ck.ob('C08.transform', 'C08.transform/uses-K', uses_k, tr.loc(), 'the round function indexes kRoundConstants')
    bounds = []
    for l in loops(tr):
        c = comparison(tr, tr.nodes[l].get('cond'))
        init = [tr.nodes[j] for j in tr.walk(l) if tr.nodes[j]['k'] == 'VarDecl' and vn(tr, tr.nodes[j]) == 'i']
        start = const_value(tr, init[0]['init']) if init else None
        end = const_value(tr, c[2]) if c else None
        if end is None and c and tr.nodes[tr.strip(c[2])].get('callee', '').endswith('::size'):
            end = 64
        bounds.append((start, c[0] if c else None, end))
    ck.ob('C08.transform', 'C08.transform/loop-bounds', bounds == [(0, '<', 16), (16, '<', 64), (0, '<', 64)], tr.loc(),
          'loops run over 0..15 (load), 16..63 (schedule), 0..63 (rounds); found %s' % bounds)
    # a,b,...,h start from state_[0..7]
    regs = {}
    for i in tr.walk():
        nd = tr.nodes[i]
        if nd['k'] == 'VarDecl' and vn(tr, nd) in list('abcdefgh') and 'init' in nd:
            regs[vn(tr, nd)] = norm(canon(tr, nd['init']))
    ck.ob('C08.transform', 'C08.transform/registers-from-state', regs == {r: ('idx', ('f', 'state_'), C(k)) for k, r in enumerate('abcdefgh')}, tr.loc(),
          'a..h are initialised from state_[0..7]')

    # ---- update ---------------------------------------------------------------------------------------------------
    up = fn('update')
    su = [(op, norm(l), norm(r)) for op, l, r, _i in statements(up)]
    need = [('+=', ('f', 'bit_len_'), norm(('*', ('mcall', 'size', V('data')), C(8)))),
            ('+=', ('f', 'buffer_size_'), V('chunk')), ('+=', V('offset'), V('chunk')), ('=', ('f', 'buffer_size_'), C(0))]
    missing = [x for x in need if x not in su]
    ck.ob('C08.update', 'C08.update/statements', not missing, up.loc(), 'update counts 8*size bits, advances buffer_size_ and offset by the copied chunk, resets at a full block'
          + ('' if not missing else ' — missing %s' % (missing,)))
    decls = {vn(up, up.nodes[i]): norm(canon(up, up.nodes[i]['init'])) for i in up.walk() if up.nodes[i]['k'] == 'VarDecl' and 'init' in up.nodes[i]}
    ok = decls.get('space') == ('-', C(64), ('f', 'buffer_size_')) and \
        decls.get('chunk') == ('call', 'min', V('space'), ('-', ('mcall', 'size', V('data')), V('offset')))
    ck.ob('C08.update', 'C08.update/chunking', ok, up.loc(), 'space = 64 - buffer_size_, chunk = min(space, data.size() - offset) (found %s / %s)' % (decls.get('space'), decls.get('chunk')))
    mc = [i for i in up.walk() if up.nodes[i].get('callee') in ('memcpy', 'std::memcpy')]
    okm = len(mc) == 1 and [norm(canon(up, a)) for a in up.call_args(mc[0])] == [
        norm(('+', ('mcall', 'data', ('f', 'buffer_')), ('f', 'buffer_size_'))), norm(('+', ('mcall', 'data', V('data')), V('offset'))), V('chunk')]
    ck.ob('C08.update', 'C08.update/copy', okm, up.loc(), 'the chunk is copied to buffer_ + buffer_size_ from data + offset')
    full = [i for i in up.walk() if up.nodes[i]['k'] == 'IfStmt' and (c := comparison(up, up.nodes[i]['cond'])) and c[0] == '==' and
            norm(canon(up, c[1])) == ('f', 'buffer_size_') and const_value(up, c[2]) == 64 and
            any(up.nodes[j].get('callee') == NS + 'Sha256::transform' for j in up.walk(up.nodes[i]['then']))]
    ck.ob('C08.update', 'C08.update/transform-at-64', len(full) == 1, up.loc(), 'a full 64-byte buffer is compressed and the buffer restarts')

    # ---- finalize -------------------------------------------------------------------------------------------------
    fi = fn('finalize')
    sf = [(op, norm(l), norm(r)) for op, l, r, _i in statements(fi)]
    pad = ('=', ('idx', ('f', 'buffer_'), ('u++post', ('f', 'buffer_size_'))), C(0x80))
    ck.ob('C08.finalize', 'C08.finalize/0x80', pad in sf, fi.loc(), 'padding starts with the byte 0x80 at buffer_[buffer_size_++]')
    big = [i for i in fi.walk() if fi.nodes[i]['k'] == 'IfStmt' and (c := comparison(fi, fi.nodes[i]['cond'])) and c[0] == '>' and
           norm(canon(fi, c[1])) == ('f', 'buffer_size_') and const_value(fi, c[2]) == 56 and
           any(fi.nodes[j].get('callee') == NS + 'Sha256::transform' for j in fi.walk(fi.nodes[i]['then']))]
    ck.ob('C08.finalize', 'C08.finalize/extra-block', len(big) == 1, fi.loc(), 'when more than 56 bytes are buffered the block is zero-filled, compressed and restarted')
    fills = [i for i in fi.walk() if fi.nodes[i].get('callee') == 'std::fill']
    fa = [[norm(canon(fi, a)) for a in fi.call_args(i)] for i in fills]
    ok56 = any(a[1] == norm(('+', ('mcall', 'begin', ('f', 'buffer_')), C(56))) and a[2] == C(0) for a in fa)
    ck.ob('C08.finalize', 'C08.finalize/zero-to-56', ok56 and ('=', ('f', 'buffer_size_'), C(56)) in sf, fi.loc(), 'zero fill up to offset 56, then buffer_size_ = 56')
    ln = [s for s in sf if s[0] == '=' and s[1] == ('idx', ('f', 'buffer_'), ('u++post', ('f', 'buffer_size_'))) and s[2] != C(0x80)]
    okl = len(ln) == 1 and ln[0][2] == norm(('&', ('>>', ('f', 'bit_len_'), ('*', V('i'), C(8))), C(255)))
    lp = [l for l in loops(fi) if fi.nodes[l]['k'] == 'ForStmt']
    lb = []
    for l in lp:
        c = comparison(fi, fi.nodes[l].get('cond'))
        init = [fi.nodes[j] for j in fi.walk(l) if fi.nodes[j]['k'] == 'VarDecl' and vn(fi, fi.nodes[j]) == 'i']
        dec = any(fi.nodes[j]['k'] == 'UnaryOperator' and fi.nodes[j].get('op') == '--' for j in fi.walk(l))
        lb.append((const_value(fi, init[0]['init']) if init else None, c[0] if c else None, const_value(fi, c[2]) if c else None, dec))
    ck.ob('C08.finalize', 'C08.finalize/length-big-endian', okl and (7, '>=', 0, True) in lb, fi.loc(),
          'the 64-bit bit length is appended most significant byte first (i = 7..0, bit_len_ >> 8i)')
    wr = [i for i in fi.walk() if fi.nodes[i].get('callee') == AN + 'write_be32']
    okw = len(wr) == 1 and [norm(canon(fi, a)) for a in fi.call_args(wr[0])] == [norm(('+', ('mcall', 'data', V('digest')), ('*', V('i'), C(4)))), ('idx', ('f', 'state_'), V('i'))]
    ck.ob('C08.finalize', 'C08.finalize/output', okw, fi.loc(), 'the digest is state_[0..7] written big endian at digest + 4i')
    ntr = len([i for i in fi.walk() if fi.nodes[i].get('callee') == NS + 'Sha256::transform'])
    ck.ob('C08.finalize', 'C08.finalize/transforms', ntr == 2, fi.loc(), 'finalize compresses the (optional) overflow block and the final block')
    dg = fn('digest')
    seq = [dg.nodes[i].get('callee', '').split('::')[-1] for i in dg.walk() if dg.nodes[i].get('callee', '').startswith(NS + 'Sha256::') and dg.nodes[i]['k'] == 'CXXMemberCallExpr']
    ck.ob('C08.finalize', 'C08.finalize/digest', seq == ['update', 'finalize'] or sorted(seq) == ['finalize', 'update'], dg.loc(), 'digest(data) = fresh hasher, update(data), finalize()')

    # ---- HMAC -----------------------------------------------------------------------------------------------------
    PH = ck.prog(['src/crypto/HmacSha256.cpp'])
    hc = pin(PH.fn(NS + 'HmacSha256::compute'))
    ck.touch(hc)
    blk = None
    for gq in PH.globals:
        if gq.endswith('HmacSha256::kBlockSize'):
            blk = PH.global_const(gq)
    if blk is None:
        for i in hc.walk():
            if hc.nodes[i].get('n') == 'kBlockSize' and 'cv' in hc.nodes[i]:
                blk = int(hc.nodes[i]['cv'])
    ck.ob('C08.hmac', 'C08.hmac/block-size', blk == 64, hc.loc(), 'HMAC block size is 64 (found %s)' % blk)
    key_d = hc.params[0]['d']
    long_key = [i for i in hc.walk() if hc.nodes[i]['k'] == 'IfStmt' and (c := comparison(hc, hc.nodes[i]['cond'])) and c[0] == '>' and
                norm(canon(hc, c[1])) == ('mcall', 'size', V(vn(hc, hc.params[0]))) and const_value(hc, c[2]) == 64]
    okk = False
    if len(long_key) == 1:
        then, els = hc.nodes[long_key[0]]['then'], hc.nodes[long_key[0]].get('else')
        okk = any(hc.nodes[j].get('callee') == NS + 'Sha256::digest' and declref(hc, hc.call_args(j)[0], key_d) is not None for j in hc.walk(then)) and els is not None and \
            any(hc.nodes[j].get('callee') == 'std::copy' for j in hc.walk(els)) and any(hc.nodes[j].get('callee') == 'std::copy' for j in hc.walk(then))
    ck.ob('C08.hmac', 'C08.hmac/long-key-hashed', okk, hc.loc(), 'a key longer than the 64-byte block is replaced by its SHA-256 digest; shorter keys are zero padded')
    sh = [(op, norm(l), norm(r)) for op, l, r, _i in statements(hc)]
    okp = ('=', ('idx', V('o_key_pad'), V('i')), norm(('^', ('idx', V('key_block'), V('i')), C(0x5c)))) in sh and \
        ('=', ('idx', V('i_key_pad'), V('i')), norm(('^', ('idx', V('key_block'), V('i')), C(0x36)))) in sh
    ck.ob('C08.hmac', 'C08.hmac/pads', okp, hc.loc(), 'opad = key ^ 0x5c and ipad = key ^ 0x36 over the whole block')
    lp = [l for l in loops(hc) if hc.nodes[l]['k'] == 'ForStmt']
    c = comparison(hc, hc.nodes[lp[0]]['cond']) if lp else None
    ck.ob('C08.hmac', 'C08.hmac/pad-loop', bool(c) and c[0] == '<' and const_value(hc, c[2]) == 64, hc.loc(), 'the pad loop covers all 64 bytes')
    def vname(n_):
        for j in hc.walk(n_):
            if hc.nodes[j]['k'] == 'DeclRefExpr' and hc.nodes[j].get('dk') in ('Var', 'ParmVar'):
                return vn(hc, hc.nodes[j])
        return hc.text(n_)
    ups = [(vname(hc.receiver(i)), vname(hc.call_args(i)[0])) for i in hc.walk() if hc.nodes[i].get('callee') == NS + 'Sha256::update']
    fins = [vname(hc.receiver(i)) for i in hc.walk() if hc.nodes[i].get('callee') == NS + 'Sha256::finalize']
    # each update hashes a whole named object (pad, message, inner digest): nothing selects a prefix / sub-range of it
    partial = [i for i in hc.walk() if hc.nodes[i].get('callee') == NS + 'Sha256::update' and
               any(hc.nodes[j]['k'] in ('CallExpr', 'CXXMemberCallExpr', 'CXXOperatorCallExpr', 'BinaryOperator', 'UnaryOperator', 'ArraySubscriptExpr') for j in hc.walk(hc.call_args(i)[0]))]
    ck.ob('C08.hmac', 'C08.hmac/whole-operands', not partial, hc.loc(partial[0]) if partial else hc.loc(),
          'HMAC hashes ipad, the whole message, opad and the whole inner digest: no update() is given a sub-range (first(n), subspan, pointer arithmetic) of its operand')
    want_seq = [('inner', 'i_key_pad'), ('inner', vn(hc, hc.params[1])), ('outer', 'o_key_pad'), ('outer', 'inner_hash')]
    got_seq = list(ups)
    ck.ob('C08.hmac', 'C08.hmac/composition', got_seq == want_seq and fins == ['inner', 'outer'], hc.loc(),
          'inner = H(ipad | data), outer = H(opad | inner) (found %s)' % got_seq)
    ih = [hc.nodes[i] for i in hc.walk() if hc.nodes[i]['k'] == 'VarDecl' and vn(hc, hc.nodes[i]) == 'inner_hash']
    okih = len(ih) == 1 and hc.nodes[hc.strip(ih[0]['init'])].get('callee') == NS + 'Sha256::finalize'
    rets = [i for i in hc.walk() if hc.nodes[i]['k'] == 'ReturnStmt']
    okr = len(rets) == 1 and hc.nodes[hc.strip(hc.kids(rets[0])[0])].get('callee') == NS + 'Sha256::finalize' and vname(rets[0]) == 'outer'
    ck.ob('C08.hmac', 'C08.hmac/result', okih and okr, hc.loc(), 'inner_hash = inner.finalize(); the result is outer.finalize()')
    n1_memory(ck, ck.prog(UNITS))
    _purity(ck, ck.prog(UNITS))


def n1_memory(ck, P):
    """R-INV (N1): class invariant 0 <= buffer_size_ <= 63 of Sha256 is inductive over update() and finalize() for every input
    span, and under it every buffer access is in bounds; HmacSha256::compute / verify are memory safe for every key, message
    and tag length."""
    from sa.absint2 import Analyzer, summarize, report
    from sa.absint import Obj
    from sa.lin import Lin
    sites = {}

    def merge(an):
        for key, e in summarize(an).items():
            cur = sites.get(key)
            if cur is None:
                sites[key] = e
            else:
                cur['n'] += e['n']
                cur['failed'] += e['failed']
    ctor = [f for f in P.fns if f.kind == 'ctor' and f.cls == NS + 'Sha256']
    init0 = False
    for f in ctor:
        for r in f.d.get('inits', []):
            nd = f.nodes[r]
            if nd.get('m', '').endswith('::buffer_size_'):
                from sa.match import const_value as cvf
                init0 = any(f.nodes[j].get('cv') == '0' for j in f.walk(r))
    ck.ob('C08.inv', 'C08.inv/constructor', init0, ctor[0].loc() if ctor else '', 'the Sha256 constructor establishes buffer_size_ == 0')
    for name in ('update', 'finalize'):
        f = P.fn(NS + 'Sha256::' + name)
        ck.touch(f)
        an = Analyzer(P, inline=lambda q: q.startswith(NS))
        box = {}

        def pre(an_, st, fr, pv):
            tk = ('this', fr.id)
            bs = an_.fresh(st, 'buffer_size', 'unsigned long')
            st.cons.add_le(bs - 63)
            st.env[tk + ('.buffer_size_',)] = bs
            st.lens['buf_buffer'] = Lin.const(64)
            st.env[tk + ('.buffer_',)] = Obj('buf_buffer')
            st.lens['buf_state'] = Lin.const(8)
            st.env[tk + ('.state_',)] = Obj('buf_state')
            box['tk'] = tk
        rets = an.run(f, pre=pre)
        merge(an)
        bad = None
        for st, _v in rets:
            bs = st.env.get(box['tk'] + ('.buffer_size_',))
            if not (isinstance(bs, Lin) and st.cons.entails_le(bs - 63) and st.cons.entails_le(-bs)):
                bad = (st, bs)
                break
        ck.ob('C08.inv', 'C08.inv/' + name, bad is None and rets, f.loc(),
              'assuming 0 <= buffer_size_ <= 63 on entry, Sha256::%s re-establishes it on every return, for every input (%d return states)%s'
              % (name, len(rets), '' if bad is None else ' — exit value %r' % (bad[1],)))
    for name in ('compute', 'verify'):
        f = P.fn(NS + 'HmacSha256::' + name)
        ck.touch(f)
        an = Analyzer(P, inline=lambda q: q.startswith(NS + 'HmacSha256') or q.endswith('constant_time_equal'))
        rets = an.run(f)
        merge(an)
        if name == 'verify':
            mac = an.param_values[2]
            bad = None
            n_true = 0
            for st, v in rets:
                if isinstance(v, Lin) and v.is_const() and v.c == 0:
                    continue
                n_true += 1
                if not st.cons.entails_eq(mac.length - 32):
                    bad = st
            ck.ob('C08.hmac', 'C08.hmac/verify-exact-length', bad is None and n_true >= 1, f.loc(getattr(bad, 'ret_site', None)) if bad else f.loc(),
                  'HmacSha256::verify can return true only for a candidate tag of exactly 32 bytes (%d accepting abstract state(s))' % n_true)
    report(ck, 'C08', sites)
    ck.floor('C08.bound', 'memory-access obligations in Sha256::update/finalize/transform and HmacSha256', len([1 for e in sites.values() if e['kind'] == 'bound']), 40)
    ck.floor('C08.loop', 'loops in the SHA-256 / HMAC code', len([1 for e in sites.values() if e['kind'] == 'loop']), 6)


def _purity(ck, P):
    """No state survives a call: the digest / MAC of a message depends on that message (and key) only."""
    for f in P.fns:
        if not f.file.endswith(('Sha256.cpp', 'HmacSha256.cpp')) or f.body is None or f.body < 0:
            continue
        st_ = [i for i in f.walk() if f.nodes[i]['k'] == 'VarDecl' and f.nodes[i].get('static') and not f.nodes[i].get('const') and not f.nodes[i].get('constexpr')]
        ck.ob('C08.pure', 'C08.pure/' + f.q.split('::')[-1], not st_, f.loc(st_[0]) if st_ else f.loc(),
              '%s keeps no mutable static / thread_local state between calls%s' % (f.q.split('::')[-1], (' — found `%s`' % f.nodes[st_[0]].get('n')) if st_ else ''))

"""C16 — protocol decoding is total and memory-safe (numeric abstract interpretation + escape analysis + flow rules)."""
from sa.absint2 import analyse, report
from sa.escape import Escape, short
from sa.build import AnalysisBroken
from sa.callgraph import CallGraph
from props.common import declref

UNITS = ['src/protocol/Message.cpp', 'src/crypto/HmacSha256.cpp', 'src/crypto/Sha256.cpp']
LEVEL = 'proof'
EXPLANATION = (
    'R-BOUND (N1, abstract interpretation over linear forms with Fourier-Motzkin entailment): protocol::decode and decode_signed are '
    'analysed with an input span of unconstrained length and unconstrained content; the parsers they call (parse_announce_payload, '
    'decode_payload_v1, read_u32, read_u64, parse_chunk_id, parse_peer_id) are inlined at each call site with the caller\'s pointer '
    'offsets and guards. Every index, dereference, memcpy, assign(ptr,n), assign(first,last), span.first/last is an obligation '
    '`0 <= off && off + n <= length` that must be entailed by the guards on the path; an integer conversion or sum that is not '
    'provably in range of its type becomes an unknown value (so a wrapped 32-bit length sum can no longer prove the bound that '
    'follows it). R-LOOP: each loop needs a conjunct of its condition whose distance shrinks by a constant every iteration. '
    'R-ESC: whole-call-graph exception escape sets of decode / decode_signed are empty (std::bad_alloc excluded). R-REC: no '
    'recursion among the functions reachable from the two entry points. R-FLOW: every field of a decoded payload is assigned '
    'from a read of the input buffer with no arithmetic applied to the value read.')
ASSUMPTIONS = ['HmacSha256::verify is treated as an opaque call here (its buffer handling is C08\'s subject); it receives only '
               'sub-spans whose bounds are obligations of this check',
               'allocation failure (std::bad_alloc) is outside the property',
               're-encoding equality itself is a value equality and is not decided; layout agreement of encoder and decoder is C15']

PR = 'ephemeralnet::protocol::'
ANON = PR + '(anonymous namespace)::'
READERS = ('read_u32', 'read_u64', 'parse_chunk_id', 'parse_peer_id')
ARITH = ('+', '-', '*', '/', '%', '&', '|', '^', '<<', '>>', '~')


def run(ck):
    P = ck.prog(UNITS)
    dec, sig = P.fn(PR + 'decode'), P.fn(PR + 'decode_signed')
    for f in (dec, sig):
        ck.touch(f)
    from sa.absint2 import Analyzer, summarize
    sites, info = {}, {'throws': [], 'entries': [], 'unsupported': []}
    length_dependent = []
    n_access = 0
    for entry in (dec, sig):
        an = Analyzer(P, inline=lambda q: q.startswith(PR))
        an.watch_access = lambda b: b.startswith('buf_buffer')
        # memory requested while decoding is backed by input: a length word cannot make the decoder reserve / resize beyond the
        # bytes it was given (an escaping std::bad_alloc or std::length_error is an exception out of decode)
        an.alloc_limit = lambda a_, st_: getattr(a_.param_values[0], 'length', None) if a_.param_values else None
        rets = an.run(entry)
        info['throws'] += an.throws
        info['unsupported'] += an.unsupported
        info['entries'].append({'entry': entry.name, 'return_states': len(rets), 'obligation_instances': len(an.obls)})
        for key, e in summarize(an).items():
            cur = sites.get(key)
            if cur is None:
                sites[key] = e
            else:
                cur['n'] += e['n']
                cur['failed'] += e['failed']
        # prefix property: where a field is read never depends on how long the input is (bytes appended to a message
        # must not change what is decoded from it); the only length-relative reads are the trailing MAC of decode_signed
        in_buf = an.param_values[0]
        len_syms = an_len_syms(in_buf)
        for a in an.access_log:
            if a['fn'].q == sig.q:
                continue          # decode_signed splits off the 32-byte tag at the end by design
            n_access += 1
            if a['off'].syms() & len_syms:
                length_dependent.append(a)
    # the MAC primitive the signed decoder relies on, for every key / message / tag length (Sha256 itself is C08's subject)
    CR = 'ephemeralnet::crypto::'
    for name in ('verify', 'compute'):
        an = Analyzer(P, inline=lambda q: q.startswith(CR + 'HmacSha256') or q.endswith('constant_time_equal'))
        an.run(P.fn(CR + 'HmacSha256::' + name))
        info['throws'] += an.throws
        for key, e in summarize(an).items():
            cur = sites.get(key)
            if cur is None:
                sites[key] = e
            else:
                cur['n'] += e['n']
                cur['failed'] += e['failed']
    ck.floor('C16.prefix', 'reads of the input buffer in decode', n_access, 20)
    ld = length_dependent[0] if length_dependent else None
    ck.ob('C16.prefix', 'C16.prefix/read-positions-independent-of-length', ld is None, ld['fn'].loc(ld['node']) if ld else dec.loc(),
          'no field of a plain message is read at a position computed from the input length (re-encoding a decoded message reproduces a prefix of the '
          'input)%s' % ('' if ld is None else ' — %s at offset %r' % (ld['what'], ld['off'])))
    for f, n, t in sorted({(f, n, t) for f, n, t in info['throws']}, key=lambda x: (x[0].q, x[1])):
        ck.ob('C16.throw', 'C16.throw/%s' % short(f.q).split('::')[-1], False, f.loc(n), 'throw of %s reachable from protocol decoding' % t)
    for key, e in sites.items():
        ck.touch(e['fn'])
    n = report(ck, 'C16', sites)
    nb = len([1 for e in sites.values() if e['kind'] == 'bound'])
    ck.floor('C16.bound', 'memory-access obligations reachable from decode/decode_signed', nb, 20)
    # every primitive reader and both parsers must have been reached (else the inlining silently lost them)
    reached = {short(e['fn'].q).split('::')[-1] for e in sites.values()}
    for r in READERS:
        ck.ob('C16.reach', 'C16.reach/' + r, r in reached, '', 'accesses inside %s were analysed in the context of their callers' % r)
    ck.extra['n1'] = {'entries': info['entries'], 'sites': len(sites), 'unsupported_expressions': sorted(set(info['unsupported']))}

    # ---- R-ESC / R-REC ---------------------------------------------------------------------------------
    E = Escape(P)
    for f in (dec, sig):
        esc = E.esc.get(f.q, {})
        wit = ['%s: %s' % (t, ' | '.join(E.path(f.q, t))) for t in sorted(esc)]
        ck.ob('C16.escape', 'C16.escape/' + short(f.q).split('::')[-1], not esc, f.loc(),
              'no exception leaves %s' % short(f.q) + (' — escaping: %s' % sorted(esc) if esc else ''), wit or None)
    from props.C38 import sccs
    G = CallGraph(P)
    reach = G.reachable([dec.q, sig.q])
    reach = {q for q in reach if q in P.by_q}
    rec = set()
    for c in sccs(reach, G.edges):
        if len(c) > 1 or c[0] in G.edges.get(c[0], ()):
            rec |= set(c)
    ck.ob('C16.rec', 'C16.rec', not rec, dec.loc(), 'no recursion among the %d functions reachable from decode/decode_signed%s'
          % (len(reach), (': ' + ', '.join(sorted(short(q) for q in rec))) if rec else ''))

    # ---- R-FLOW: fields verbatim ---------------------------------------------------------------------------
    nfield = 0
    for q in (ANON + 'parse_announce_payload', ANON + 'decode_payload_v1'):
        f = P.fn(q)
        ck.touch(f)
        for i in f.walk():
            nd = f.nodes[i]
            tgt = rhs = None
            if nd['k'] in ('BinaryOperator', 'CXXOperatorCallExpr') and nd.get('op') == '=':
                ks = f.kids(i) if nd['k'] == 'BinaryOperator' else f.kids(i)[1:]
                tgt, rhs = ks[0], [ks[1]]
            elif nd['k'] == 'CXXMemberCallExpr' and (nd.get('callee') or '').endswith('::assign'):
                tgt, rhs = f.receiver(i), f.call_args(i)
            if tgt is None:
                continue
            tn = f.nodes[f.strip(tgt, casts=False)]
            if tn['k'] != 'MemberExpr' or tn.get('mk') != 'Field':
                continue
            nfield += 1
            bad = verbatim_violation(f, rhs)
            ck.ob('C16.verbatim', 'C16.verbatim/%s/%s' % (short(q).split('::')[-1], tn['n']), bad is None, f.loc(i),
                  'decoded field %s is taken from the input unchanged' % tn['n'] + ('' if bad is None else ' — ' + bad))
    ck.floor('C16.verbatim', 'decoded payload fields assigned in the parsers', nfield, 17)


def verbatim_violation(f, roots):
    """None when every value in the expression is a read of the input (through a reader call, a dereference, or a local
    initialised from one) and no arithmetic touches it outside pointer-offset arguments."""
    seen = set()
    work = list(roots)
    has_read = False
    while work:
        i = work.pop()
        if i in seen:
            continue
        seen.add(i)
        nd = f.nodes[i]
        k = nd['k']
        c = (nd.get('callee') or '').split('::')[-1]
        if k == 'CallExpr' and c in READERS:
            has_read = True
            continue          # the argument is a pointer offset
        if k == 'UnaryOperator' and nd.get('op') == '*':
            has_read = True
            continue
        if k in ('CallExpr', 'CXXMemberCallExpr') and not (nd.get('callee') or '').startswith('std::'):
            return 'the decoded value is passed through %s() before it is stored' % c
        if k == 'BinaryOperator' and nd.get('op') in ARITH or k == 'UnaryOperator' and nd.get('op') in ('~', '-') or k == 'CompoundAssignOperator':
            pt = (nd.get('t') or '')
            if pt.endswith('*'):
                has_read = has_read or 'data' in f.text(i)
                continue      # pointer arithmetic: an iterator into the input (assign(first, last))
            return 'arithmetic `%s` applied to a decoded value' % f.text(i)[:60]
        if k == 'DeclRefExpr' and nd.get('dk') == 'Var':
            # a local: follow its initialiser
            for j in f.walk():
                jn = f.nodes[j]
                if jn['k'] == 'VarDecl' and jn.get('d') == nd.get('d') and jn.get('init') is not None and jn['init'] >= 0:
                    work.append(jn['init'])
            continue
        if k == 'DeclRefExpr' and nd.get('dk') == 'ParmVar':
            has_read = has_read or (nd.get('t') or '').endswith('*')
            continue
        if k in ('IntegerLiteral',) and not _is_zero_compare(f, i):
            par = f.parent(i)
            return 'constant %s mixed into a decoded value' % nd.get('v') if par is not None and f.nodes[par]['k'] not in ('CXXConstructExpr',) else None
        work += f.kids(i)
    return None if has_read else 'no read of the input reaches this field'


def _is_zero_compare(f, i):
    p = f.parent(i)
    while p is not None and f.nodes[p]['k'] in ('ImplicitCastExpr', 'ParenExpr'):
        p = f.parent(p)
    return p is not None and f.nodes[p].get('op') in ('!=', '==')


def an_len_syms(v):
    """Symbols of the length of an input view."""
    ln = getattr(v, 'length', None)
    return set(ln.syms()) if ln is not None and hasattr(ln, 'syms') else set()

"""C09 — ChaCha20 matches RFC 8439 and is its own inverse (constants and shape; necessary conditions)."""
from sa.canon import pin, vn, canon, norm, return_expr, statements, V, C
from sa.paths import loops
from sa.match import comparison, const_value
from sa.build import AnalysisBroken
from props.common import declref
from props.C08 import alpha, P_

UNITS = ['src/crypto/ChaCha20.cpp', 'src/crypto/CryptoManager.cpp']
LEVEL = 'other'
EXPLANATION = (
    'R-TABLE against RFC 8439: kSigma is "expand 32-byte k" as four little-endian words; rotl32; quarter_round is the add / xor / '
    'rotate sequence with amounts 16, 12, 8, 7 on (a,b,c,d); the block function loads sigma at words 0-3, the key little endian at '
    '4-11, the counter at 12 and the nonce at 13-15, runs 10 double rounds with the 4 column and 4 diagonal index tuples of section '
    '2.3, adds the initial state and stores little endian. R-FLOW: apply calls the block function once per 64-byte block with the '
    'same uint32_t counter incremented by one per block; each output byte is input[processed+i] ^ keystream[i]; the block length is '
    'min(64, remaining); output is resized to the input length. CryptoManager: derive_counter reads chunk_id[0..3] little endian and '
    'encrypt / decrypt pass that same expression and the same key and nonce roles.')
ASSUMPTIONS = ['keystream values are not computed; involution follows from XOR with a keystream that depends only on (key, nonce, counter, position)',
               'the 32-bit counter wraps by unsigned arithmetic of its type (uint32_t)']

NS = 'ephemeralnet::crypto::'
AN = NS + '(anonymous namespace)::'
COLS = [(0, 4, 8, 12), (1, 5, 9, 13), (2, 6, 10, 14), (3, 7, 11, 15)]
DIAG = [(0, 5, 10, 15), (1, 6, 11, 12), (2, 7, 8, 13), (3, 4, 9, 14)]


def run(ck):
    P = ck.prog(['src/crypto/ChaCha20.cpp'])

    def fn(name):
        c = [f for f in P.fns if f.q in (AN + name, NS + 'ChaCha20::' + name)]
        if not c:
            raise AnalysisBroken('ChaCha20 anchor %s not found' % name)
        ck.touch(c[0])
        return pin(c[0])
    g = P.global_(AN + 'kSigma')
    sig = [int(n['v']) for n in g['nodes'] if n['k'] == 'IntegerLiteral']
    want_sig = [int.from_bytes(b'expand 32-byte k'[i:i + 4], 'little') for i in range(0, 16, 4)]
    ck.ob('C09.table', 'C09.table/sigma', sig == want_sig, '', 'kSigma is "expand 32-byte k" in little-endian words')
    ck.ob('C09.table', 'C09.table/block-size', P.global_const(AN + 'kBlockSize') == 64, '', 'the block size is 64 bytes')
    rl = fn('rotl32')
    ck.ob('C09.fn', 'C09.fn/rotl32', alpha(rl, return_expr(rl)) == norm(('|', ('<<', P_(0), P_(1)), ('>>', P_(0), ('-', C(32), P_(1))))), rl.loc(),
          'rotl32(v, s) = (v << s) | (v >> (32 - s))')
    ld = fn('load32_le')
    ck.ob('C09.fn', 'C09.fn/load32_le', alpha(ld, return_expr(ld)) == norm(('|', ('idx', P_(0), C(0)), ('<<', ('idx', P_(0), C(1)), C(8)),
                                                                             ('<<', ('idx', P_(0), C(2)), C(16)), ('<<', ('idx', P_(0), C(3)), C(24)))), ld.loc(),
          'load32_le reads a little-endian word')
    st = fn('store32_le')
    got = sorted([(op, alpha(st, l), alpha(st, r)) for op, l, r, _i in statements(st)], key=repr)
    ref = sorted([('=', ('idx', P_(0), C(k)), norm(('&', ('>>', P_(1), C(8 * k)), C(255))) if k else norm(('&', P_(1), C(255)))) for k in range(4)], key=repr)
    ck.ob('C09.fn', 'C09.fn/store32_le', got == ref, st.loc(), 'store32_le writes a little-endian word')
    qr = fn('quarter_round')
    seq = [(op, alpha(qr, l), alpha(qr, r)) for op, l, r, _i in statements(qr)]
    a, b, c, d = P_(0), P_(1), P_(2), P_(3)
    ref = [('+=', a, b), ('^=', d, a), ('=', d, ('call', 'rotl32', d, C(16))),
           ('+=', c, d), ('^=', b, c), ('=', b, ('call', 'rotl32', b, C(12))),
           ('+=', a, b), ('^=', d, a), ('=', d, ('call', 'rotl32', d, C(8))),
           ('+=', c, d), ('^=', b, c), ('=', b, ('call', 'rotl32', b, C(7)))]
    ck.ob('C09.fn', 'C09.fn/quarter_round', seq == [tuple(norm(x) if isinstance(x, tuple) else x for x in r) for r in ref], qr.loc(),
          'quarter_round is the RFC 8439 sequence with rotations 16, 12, 8, 7')
    # ---- block function -------------------------------------------------------------------------------------------------
    bl = fn('chacha20_block')
    sts = [(op, norm(l), norm(r)) for op, l, r, _i in statements(bl)]
    need = [('=', ('idx', V('state'), C(k)), ('idx', C(want_sig[k]) if False else ('idx',), C(k))) for k in range(0)]   # placeholder, sigma checked below
    sig_ok = all(any(s[0] == '=' and s[1] == ('idx', V('state'), C(k)) and isinstance(s[2], tuple) and s[2][0] == 'idx' and s[2][2] == C(k) for s in sts) for k in range(4))
    sig_src = sum(1 for j in bl.walk() if bl.nodes[j].get('q', '').endswith('kSigma')) >= 4
    ck.ob('C09.block', 'C09.block/sigma-words', sig_ok and sig_src, bl.loc(), 'state[0..3] = kSigma[0..3]')
    key_ok = ('=', ('idx', V('state'), norm(('+', C(4), V('i')))), ('call', 'load32_le', ('u&', ('idx', ('m', V('key'), 'bytes'), norm(('*', V('i'), C(4))))))) in sts
    ck.ob('C09.block', 'C09.block/key-words', key_ok, bl.loc(), 'state[4 + i] = load32_le(&key.bytes[4 i]) for i < 8')
    ctr_ok = ('=', ('idx', V('state'), C(12)), V('counter')) in sts
    non_ok = all(('=', ('idx', V('state'), C(13 + k)), ('call', 'load32_le', ('u&', ('idx', ('m', V('nonce'), 'bytes'), C(4 * k))))) in sts for k in range(3))
    ck.ob('C09.block', 'C09.block/counter-nonce', ctr_ok and non_ok, bl.loc(), 'state[12] = counter, state[13..15] = nonce words')
    qs = []
    for i in bl.walk():
        if bl.nodes[i].get('callee') == AN + 'quarter_round':
            idx = []
            for a_ in bl.call_args(i):
                t = norm(canon(bl, a_))
                idx.append(t[2][1] if t[0] == 'idx' and t[1] == V('working_state') and t[2][0] == 'c' else None)
            qs.append(tuple(idx))
    ck.ob('C09.block', 'C09.block/round-indices', qs == COLS + DIAG, bl.loc(), 'a double round applies the 4 column then the 4 diagonal quarter rounds (found %s)' % qs)
    lp = [l for l in loops(bl) if any(bl.is_in(i, l) for i in bl.walk() if bl.nodes[i].get('callee') == AN + 'quarter_round')]
    c = comparison(bl, bl.nodes[lp[0]]['cond']) if lp else None
    ck.ob('C09.block', 'C09.block/ten-double-rounds', bool(c) and c[0] == '<' and const_value(bl, c[2]) == 10, bl.loc(), 'the double round runs 10 times (20 rounds)')
    ws = [bl.nodes[i] for i in bl.walk() if bl.nodes[i]['k'] == 'VarDecl' and vn(bl, bl.nodes[i]) == 'working_state']
    ck.ob('C09.block', 'C09.block/working-copy', len(ws) == 1 and norm(canon(bl, ws[0]['init'])) == V('state'), bl.loc(), 'the rounds run on a copy of the initial state')
    ff = ('+=', ('idx', V('working_state'), V('i')), ('idx', V('state'), V('i'))) in sts
    out = [i for i in bl.walk() if bl.nodes[i].get('callee') == AN + 'store32_le']
    oka = len(out) == 1 and [norm(canon(bl, x)) for x in bl.call_args(out[0])] == [('u&', ('idx', V('buffer'), norm(('*', V('i'), C(4))))), ('idx', V('working_state'), V('i'))]
    ck.ob('C09.block', 'C09.block/feed-forward-and-store', ff and oka, bl.loc(), 'the initial state is added word by word and the block is stored little endian')
    # ---- apply -----------------------------------------------------------------------------------------------------------
    ap = fn('apply')
    sa_ = [(op, norm(l), norm(r)) for op, l, r, _i in statements(ap)]
    xor = ('=', ('idx', V('output'), norm(('+', V('processed'), V('i')))), norm(('^', ('idx', V('input'), ('+', V('processed'), V('i'))), ('idx', V('keystream'), V('i')))))
    ck.ob('C09.apply', 'C09.apply/xor', xor in sa_, ap.loc(), 'output[processed + i] = input[processed + i] ^ keystream[i]')
    blk = [i for i in ap.walk() if ap.nodes[i].get('callee') == AN + 'chacha20_block']
    okb = len(blk) == 1 and [norm(canon(ap, x)) for x in ap.call_args(blk[0])] == [V('key'), V('nonce'), V('counter'), V('keystream')]
    incs = [i for i in ap.walk() if ap.nodes[i]['k'] == 'UnaryOperator' and ap.nodes[i].get('op') == '++' and declref(ap, ap.kids(i)[0], ap.params[4]['d']) is not None]
    same_loop = False
    if blk and incs:
        l1 = [l for l in loops(ap) if ap.is_in(blk[0], l)]
        l2 = [l for l in loops(ap) if ap.is_in(incs[0], l)]
        same_loop = len(incs) == 1 and l1 and l2 and l1[-1] == l2[-1] and len(l2) == 1
    # all keystream comes from that one call, driven by the caller's counter: no other function generates blocks (a "single block"
    # helper with its own counter), and apply has no exit that bypasses the block loop
    elsewhere = [(g_, i) for g_ in P.fns for i in g_.walk() if g_.nodes[i].get('callee') == AN + 'chacha20_block' and g_ is not ap]
    ck.ob('C09.apply', 'C09.apply/sole-keystream-site', not elsewhere, elsewhere[0][0].loc(elsewhere[0][1]) if elsewhere else ap.loc(),
          'chacha20_block is called from ChaCha20::apply only (with the running counter)')
    early = [i for i in ap.walk() if ap.nodes[i]['k'] == 'ReturnStmt']
    ck.ob('C09.apply', 'C09.apply/no-early-exit', not early, ap.loc(early[0]) if early else ap.loc(),
          'ChaCha20::apply has a single exit after the block loop: no input length takes a separate path')
    from sa.paths import local_writes
    other_w = [w for w in local_writes(ap, ap.params[4]['d']) if w not in incs]
    ck.ob('C09.apply', 'C09.apply/one-block-per-counter', okb and same_loop and not other_w and 'unsigned int' in ap.params[4]['t'], ap.loc(),
          'each loop iteration generates one block with the current counter and then increments the 32-bit counter exactly once')
    decl = {vn(ap, ap.nodes[i]): norm(canon(ap, ap.nodes[i]['init'])) for i in ap.walk() if ap.nodes[i]['k'] == 'VarDecl' and 'init' in ap.nodes[i]}
    okz = decl.get('block_size') == ('call', 'min', C(64), ('-', ('mcall', 'size', V('input')), V('processed'))) and \
        ('+=', V('processed'), V('block_size')) in sa_
    ck.ob('C09.apply', 'C09.apply/block-length', okz, ap.loc(), 'block_size = min(64, input.size() - processed); processed advances by it (found %s)' % (decl.get('block_size'),))
    wl = [l for l in loops(ap) if ap.nodes[l]['k'] == 'WhileStmt']
    c = comparison(ap, ap.nodes[wl[0]]['cond']) if wl else None
    okw = bool(c) and c[0] == '<' and norm(canon(ap, c[1])) == V('processed') and norm(canon(ap, c[2])) == ('mcall', 'size', V('input'))
    rz = [i for i in ap.walk() if ap.nodes[i].get('callee', '').endswith('::resize') and norm(canon(ap, ap.call_args(i)[0])) == ('mcall', 'size', V('input'))]
    ck.ob('C09.apply', 'C09.apply/whole-input', okw and len(rz) == 1, ap.loc(), 'the loop runs while processed < input.size() and output is resized to input.size()')
    il = [l for l in loops(ap) if ap.nodes[l]['k'] == 'ForStmt']
    c = comparison(ap, ap.nodes[il[0]]['cond']) if il else None
    ck.ob('C09.apply', 'C09.apply/inner-bound', bool(c) and c[0] == '<' and norm(canon(ap, c[2])) == V('block_size'), ap.loc(), 'the byte loop runs over i < block_size')
    # ---- CryptoManager --------------------------------------------------------------------------------------------------
    PC = ck.prog(['src/crypto/CryptoManager.cpp'])
    dc = [f for f in PC.fns if f.q.endswith('::derive_counter')][0]
    ck.touch(dc)
    ck.ob('C09.counter', 'C09.counter/derive', alpha(dc, return_expr(dc)) == norm(('|', ('idx', P_(0), C(0)), ('<<', ('idx', P_(0), C(1)), C(8)),
                                                                                     ('<<', ('idx', P_(0), C(2)), C(16)), ('<<', ('idx', P_(0), C(3)), C(24)))), dc.loc(),
          'derive_counter reads chunk_id[0..3] little endian')
    sites = {}
    for name in ('encrypt', 'decrypt'):
        f = pin(PC.fn(NS + 'CryptoManager::' + name))
        ck.touch(f)
        ap_ = [i for i in f.walk() if f.nodes[i].get('callee') == NS + 'ChaCha20::apply']
        cnt = [f.nodes[i] for i in f.walk() if f.nodes[i]['k'] == 'VarDecl' and vn(f, f.nodes[i]) == 'counter']
        ok = len(ap_) == 1 and len(cnt) == 1 and norm(canon(f, cnt[0]['init'])) == ('call', 'derive_counter', V(vn(f, f.params[0]))) and \
            norm(canon(f, f.call_args(ap_[0])[4])) == V('counter') and norm(canon(f, f.call_args(ap_[0])[0])) == ('f', 'key_')
        sites[name] = ok
        ck.ob('C09.counter', 'C09.counter/' + name, ok, f.loc(), '%s applies ChaCha20 with key_, the given nonce and derive_counter(chunk_id)' % name)
    purity(ck, P, fn)
    # the output is sized to the input on every path (an early exit would hand back whatever a reused output vector held)
    from sa.paths import Cfg as _Cfg
    ap_ = fn('apply')
    rz_ = [i for i in ap_.walk() if (ap_.nodes[i].get('callee') or '').endswith('::resize') or (ap_.nodes[i].get('callee') or '').endswith('::assign')]
    cfg_ = _Cfg.of(ap_)
    wit_ = cfg_.must_pass_from((cfg_.entry, -1), lambda e, s_=set(rz_): e in s_ or any(ap_.is_in(x, e) for x in s_) and ap_.nodes[e]['k'] == 'ExprWithCleanups') if rz_ else ['no resize']
    ck.ob('C09.apply', 'C09.apply/output-sized-always', wit_ is None, ap_.loc(), 'every call of ChaCha20::apply sizes the output to the input, also for an empty input', wit_)


def purity(ck, P, fn):
    """R-PURE: the keystream is a function of (key, nonce, counter) only — no state survives a call, and the block function
    has a single exit after the store loop."""
    fns = [fn(n) for n in ('rotl32', 'load32_le', 'store32_le', 'quarter_round', 'chacha20_block', 'apply')]
    for f in fns:
        statics = [i for i in f.walk() if f.nodes[i]['k'] == 'VarDecl' and f.nodes[i].get('static') and not f.nodes[i].get('constexpr')
                   and not (f.nodes[i].get('const') and 'init' in f.nodes[i])]
        gw = []
        for i in f.walk():
            nd = f.nodes[i]
            if nd['k'] in ('BinaryOperator', 'CompoundAssignOperator', 'CXXOperatorCallExpr') and (nd.get('op') == '=' or nd['k'] == 'CompoundAssignOperator'):
                ks = f.kids(i) if nd['k'] != 'CXXOperatorCallExpr' else f.kids(i)[1:]
                if ks:
                    for j in f.walk(ks[0]):
                        if f.nodes[j]['k'] == 'DeclRefExpr' and f.nodes[j].get('g'):
                            gw.append(i)
        name = f.q.split('::')[-1]
        ck.ob('C09.pure', 'C09.pure/' + name, not statics and not gw, f.loc((statics + gw)[0]) if statics + gw else f.loc(),
              '%s keeps no state between calls (no static / thread_local local, no write to a global)%s'
              % (name, (' — found `%s`' % f.nodes[statics[0]].get('n')) if statics else ''))
    bl = fn('chacha20_block')
    rets = [i for i in bl.walk() if bl.nodes[i]['k'] in ('ReturnStmt', 'GotoStmt')]
    ck.ob('C09.pure', 'C09.pure/block-single-exit', not rets, bl.loc(rets[0]) if rets else bl.loc(),
          'chacha20_block has no early exit: every call runs the 20 rounds, the feed-forward and the store loop')

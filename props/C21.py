"""C21 — announces change state only when admissible and within the throttle."""
from sa.paths import gate_check, must_precede, returns_true_only_if, reaches, Cfg, loops, implied
from sa.flow import origin_chain, field_accesses, value_sources
from sa.match import holds, const_value, call_true, has_value, comparison, is_zero
from sa.build import AnalysisBroken
from props.common import rx

UNITS = ['src/core/Node.cpp']
LEVEL = 'other'
EXPLANATION = (
    'R-GATE on Node::handle_announce: every state effect (manifest cache write, publish_shards, update_swarm_plan, '
    'add_contact, schedule_assigned_fetch, broadcast_manifest, note_peer_seed, clear_announce_failures, record_success) is '
    'unreachable unless all admission gates were passed: sender not locked out, payload.peer_id == sender, non-empty '
    'manifest URI decoded inside a try whose handlers leave the function, manifest.chunk_id == payload.chunk_id, '
    'validate_shards, manifest_ttl(...).has_value(), every assigned shard index present among the manifest\'s shards '
    '(all_of/any_of on shard.index == index), verify_announce_pow, register_incoming_announce. Every rejecting exit past the '
    'lock-out test records an announce failure and a reputation failure. verify_announce_pow returns true only with '
    'difficulty 0 or (version >= 3 and announce_pow_valid). Throttle: an announce is recorded only past '
    'since_last >= announce_min_interval and history.size() < announce_burst_limit; the history is only ever pruned from the '
    'front while front < now - window; lock-out after kAnnounceFailureThreshold(3) failures within 120 s for 180 s.')
ASSUMPTIONS = ['the counting argument over timed sequences (never more than the burst limit within a window) follows from the '
               'guards and the front-only pruning; it is not enumerated']

N = 'ephemeralnet::Node::'
AP = 'ephemeralnet::protocol::AnnouncePayload::'
ANON = 'ephemeralnet::(anonymous namespace)::'
DEC = 'ephemeralnet::protocol::decode_manifest'


def run(ck):
    P = ck.prog(UNITS)
    _lockout_from_now(ck, P)
    ha = P.fn(N + 'handle_announce')
    ck.touch(ha)
    sender = ha.params[1]['d']
    payload = ha.params[0]['d']
    version = ha.params[2]['d']

    def is_decl(n, d):
        nd = ha.nodes[ha.strip(n)]
        return nd['k'] == 'DeclRefExpr' and nd.get('d') == d

    def pmember(n, name):
        m = ha.strip(n)
        return ha.nodes[m].get('m') == AP + name and is_decl(ha.kids(m)[0], payload)

    effects = []
    for i in ha.walk():
        nd = ha.nodes[i]
        c = nd.get('callee', '')
        for pat, lab in (('KademliaTable::publish_shards', 'dht_.publish_shards'), ('Node::update_swarm_plan', 'update_swarm_plan'),
                         ('KademliaTable::add_contact', 'dht_.add_contact'), ('Node::schedule_assigned_fetch', 'schedule_assigned_fetch'),
                         ('Node::broadcast_manifest', 'broadcast_manifest'), ('ReputationManager::record_success', 'reputation_.record_success'),
                         ('Node::note_peer_seed', 'note_peer_seed'), ('Node::clear_announce_failures', 'clear_announce_failures')):
            if c.endswith(pat):
                effects.append((lab, i))
    for i, m, w in field_accesses(ha):
        if w and m == N + 'manifest_cache_':
            effects.append(('manifest_cache_ write', i))
    ck.floor('C21.gate', 'state effects in handle_announce', len(effects), 9)

    decs = ha.calls(DEC)
    manifest_var = None
    for d in decs:
        p = ha.parent(d)
        while p is not None and ha.nodes[p]['k'] not in ('CXXOperatorCallExpr', 'BinaryOperator', 'VarDecl'):
            p = ha.parent(p)
        if p is not None and ha.nodes[p].get('op') == '=':
            manifest_var = ha.nodes[ha.strip(ha.kids(p)[1])].get('d')

    def is_manifest(n):
        return manifest_var is not None and is_decl(n, manifest_var)

    def g_unlocked(fact):
        kind, node, val = fact
        return kind == 'bool' and val is False and ha.nodes[node].get('callee') == N + 'announce_sender_locked' and is_decl(ha.call_args(node)[0], sender)

    def g_self(fact):
        h = holds(ha, fact)
        return bool(h) and h[1] == '==' and ((pmember(h[0], 'peer_id') and is_decl(h[2], sender)) or (pmember(h[2], 'peer_id') and is_decl(h[0], sender)))

    def g_uri(fact):
        kind, node, val = fact
        nd = ha.nodes[node]
        return kind == 'bool' and val is False and nd.get('callee', '').endswith('::empty') and pmember(ha.receiver(node), 'manifest_uri')

    def g_chunk(fact):
        h = holds(ha, fact)
        if not h or h[1] != '==':
            return False
        a, b = ha.strip(h[0]), ha.strip(h[2])
        mid = lambda n: ha.nodes[n].get('m') == 'ephemeralnet::protocol::Manifest::chunk_id' and is_manifest(ha.kids(n)[0])
        return (mid(a) and pmember(b, 'chunk_id')) or (mid(b) and pmember(a, 'chunk_id'))

    def g_shards(fact):
        kind, node, val = fact
        return kind == 'bool' and val is True and ha.nodes[node].get('callee') == ANON + 'validate_shards' and is_manifest(ha.call_args(node)[0])

    def ttl_call(n):
        return ha.nodes[n].get('callee') == ANON + 'manifest_ttl' and is_manifest(ha.call_args(n)[0]) and \
            ha.nodes[ha.strip(ha.call_args(n)[1])].get('m') == N + 'config_'

    def g_pow(fact):
        kind, node, val = fact
        return kind == 'bool' and val is True and ha.nodes[node].get('callee') == N + 'verify_announce_pow' and \
            is_decl(ha.call_args(node)[0], payload) and is_decl(ha.call_args(node)[1], version)

    def g_throttle(fact):
        kind, node, val = fact
        return kind == 'bool' and val is True and ha.nodes[node].get('callee') == N + 'register_incoming_announce' and is_decl(ha.call_args(node)[0], sender)

    # assigned shards: a bool local initialised with  empty() || all_of(assigned, [any_of(manifest.shards, shard.index == index)])
    def assigned_ok_init(init):
        e = ha.strip(init)
        nd = ha.nodes[e]
        if not (nd['k'] == 'BinaryOperator' and nd.get('op') == '||'):
            return False
        l, r = ha.kids(e)
        ls = ha.strip(l)
        if not (ha.nodes[ls].get('callee', '').endswith('::empty') and pmember(ha.receiver(ls), 'assigned_shards')):
            return False
        rs = ha.strip(r)
        if ha.nodes[rs].get('callee') != 'std::all_of':
            return False
        a = ha.call_args(rs)
        if not all(any(ha.nodes[j].get('m') == AP + 'assigned_shards' for j in ha.walk(x)) for x in a[:2]):
            return False
        lam1 = [j for j in ha.walk(a[2]) if ha.nodes[j]['k'] == 'LambdaExpr']
        if len(lam1) != 1:
            return False
        f1 = P.fn(ha.nodes[lam1[0]]['fn'])
        r1 = [x for x in f1.walk() if f1.nodes[x]['k'] == 'ReturnStmt']
        if len(r1) != 1:
            return False
        e1 = f1.strip(f1.kids(r1[0])[0])
        if f1.nodes[e1].get('callee') != 'std::any_of':
            return False
        a1 = f1.call_args(e1)
        if not all(any(f1.nodes[j].get('m') == 'ephemeralnet::protocol::Manifest::shards' for j in f1.walk(x)) for x in a1[:2]):
            return False
        lam2 = [j for j in f1.walk(a1[2]) if f1.nodes[j]['k'] == 'LambdaExpr']
        if len(lam2) != 1:
            return False
        f2 = P.fn(f1.nodes[lam2[0]]['fn'])
        r2 = [x for x in f2.walk() if f2.nodes[x]['k'] == 'ReturnStmt']
        if len(r2) != 1:
            return False
        c = comparison(f2, f2.kids(r2[0])[0])
        if not c or c[0] != '==':
            return False
        sides = [f2.strip(c[1]), f2.strip(c[2])]
        has_index = any(f2.nodes[s].get('m') == 'ephemeralnet::protocol::KeyShard::index' and
                        f2.nodes[f2.strip(f2.kids(s)[0])].get('d') == f2.params[0]['d'] for s in sides)
        # the other side is the index parameter of the outer lambda (captured)
        has_param = any(f2.nodes[s]['k'] == 'DeclRefExpr' and f2.nodes[s].get('n') == f1.params[0]['n'] for s in sides)
        return has_index and has_param

    def g_assigned(fact):
        kind, node, val = fact
        nd = ha.nodes[node]
        if kind == 'bool' and val is True and nd['k'] == 'DeclRefExpr' and nd.get('dk') == 'Var':
            from sa.paths import unique_init
            init = unique_init(ha, nd['d'], node)
            return init is not None and assigned_ok_init(init)
        return False

    gates = [('sender-not-locked', g_unlocked), ('names-itself', g_self), ('manifest-uri-present', g_uri),
             ('chunk-id-matches', g_chunk), ('validate_shards', g_shards), ('manifest_ttl.has_value', has_value(ha, ttl_call)),
             ('assigned-shards-present', g_assigned), ('verify_announce_pow', g_pow), ('throttle', g_throttle)]
    fails, _ = gate_check(ha, effects, gates)
    failed = {(e, g, n): p for e, g, n, p, _c in fails}
    cnt = {}
    for lab, nid in effects:
        cnt[lab] = cnt.get(lab, 0) + 1
        for g, _ in gates:
            ck.ob('C21.gate', 'C21.gate/%s#%d/%s' % (lab, cnt[lab], g), (lab, g, nid) not in failed, ha.loc(nid),
                  '%s in handle_announce only past gate %s' % (lab, g), failed.get((lab, g, nid)))
    # decodable manifest: the decode call precedes every effect and every handler of its try leaves
    ok = len(decs) == 1 and pmember(ha.call_args(decs[0])[0], 'manifest_uri')
    if ok:
        mp = must_precede(ha, [n for _l, n in effects], lambda n: n == decs[0])
        tries = [a for a in ha.ancestors(decs[0]) if ha.nodes[a]['k'] == 'CXXTryStmt']
        ok = not mp and len(tries) == 1
        if ok:
            for h in ha.nodes[tries[0]]['handlers']:
                body = ha.nodes[h]['body']
                if any(reaches(ha, ha.kids(body)[0] if ha.kids(body) else body, n) for _l, n in effects):
                    ok = False
    ck.ob('C21.gate', 'C21.gate/decodable-manifest', ok, ha.loc(),
          'every effect follows decode_manifest(payload.manifest_uri) inside a try whose handlers return')

    # rejecting exits
    rets = [r for r in ha.walk() if ha.nodes[r]['k'] == 'ReturnStmt']
    ck.floor('C21.reject', 'rejecting exits of handle_announce', len(rets), 9)

    def locked_edge(fact):
        kind, node, val = fact
        return kind == 'bool' and val is True and ha.nodes[node].get('callee') == N + 'announce_sender_locked'
    mp1 = dict(must_precede(ha, rets, lambda n: ha.nodes[n].get('callee', '').endswith('ReputationManager::record_failure') and is_decl(ha.call_args(n)[0], sender)))
    mp2 = dict(must_precede(ha, rets, lambda n: ha.nodes[n].get('callee') == N + 'record_announce_failure' and is_decl(ha.call_args(n)[0], sender),
                            bypass=locked_edge))
    for k_, r in enumerate(rets):
        ck.ob('C21.reject', 'C21.reject/return#%d' % k_, r not in mp1 and r not in mp2, ha.loc(r),
              'a rejected announce records an announce failure and lowers the sender\'s reputation', mp1.get(r) or mp2.get(r))

    # ---- verify_announce_pow --------------------------------------------------------------------
    vp = P.fn(N + 'verify_announce_pow')
    ck.touch(vp)
    DIFF = 'ephemeralnet::Config::announce_pow_difficulty'

    def zero(fact):
        h = holds(vp, fact)
        return bool(h) and h[1] == '==' and vp.nodes[vp.strip(h[0])].get('m') == DIFF and const_value(vp, h[2]) == 0

    def v3(fact):
        h = holds(vp, fact)
        return bool(h) and h[1] == '>=' and vp.nodes[vp.strip(h[0])].get('d') == vp.params[1]['d'] and const_value(vp, h[2]) == 3

    def valid(fact):
        kind, node, val = fact
        if kind == 'bool' and val is True and vp.nodes[node].get('callee') == ANON + 'announce_pow_valid':
            a = vp.call_args(node)
            return vp.nodes[vp.strip(a[0])].get('d') == vp.params[0]['d'] and vp.nodes[vp.strip(a[1])].get('m') == DIFF
        return False
    fails, nret = returns_true_only_if(vp, [('difficulty==0 or version>=3', lambda f: zero(f) or v3(f)),
                                            ('difficulty==0 or announce_pow_valid', lambda f: zero(f) or valid(f))])
    failed = {g for g, _r, _w in fails}
    for g in ('difficulty==0 or version>=3', 'difficulty==0 or announce_pow_valid'):
        ck.ob('C21.pow', 'C21.pow/' + g, g not in failed and nret >= 2, vp.loc(), 'verify_announce_pow returns true only if ' + g)

    # ---- throttle -----------------------------------------------------------------------------------
    ri = P.fn(N + 'register_incoming_announce')
    ck.touch(ri)
    pushes = [c for c in ri.calls(rx(r'deque<.*time_point.*::push_back$'))]
    rets_t = [r for r in ri.walk() if ri.nodes[r]['k'] == 'ReturnStmt' and const_value(ri, ri.kids(r)[0]) == 1]
    MI, BL, BW = ('ephemeralnet::Config::announce_min_interval', 'ephemeralnet::Config::announce_burst_limit', 'ephemeralnet::Config::announce_burst_window')

    def spaced(fact):
        h = holds(ri, fact)
        if h:
            a, rel, b = h
            if rel == '>=' and ri.nodes[ri.strip(b)].get('m') == MI:
                srcs = value_sources(ri, a)
                return any(ri.nodes[j].get('callee', '').endswith('::back') for j in srcs) and any(ri.nodes[j].get('op') == '-' for j in srcs)
            if rel == '<=' and ri.nodes[ri.strip(a)].get('m') == MI and is_zero(ri, b):
                return True          # interval disabled
        kind, node, val = fact
        if kind == 'bool' and val is True and ri.nodes[node].get('callee', '').endswith('::empty'):
            return True              # no previous announce
        return False

    def below(fact):
        h = holds(ri, fact)
        if not h:
            return False
        a, rel, b = h
        if rel == '<' and ri.nodes[ri.strip(a)].get('callee', '').endswith('::size') and ri.nodes[ri.strip(b)].get('m') == BL:
            return True
        if rel in ('<=', '==') and ri.nodes[ri.strip(a)].get('m') == BL and const_value(ri, b) == 0:
            return True              # limit disabled
        return False
    fails, _ = gate_check(ri, [('push_back(now)', p) for p in pushes] + [('return true', r) for r in rets_t],
                          [('min-interval', spaced), ('burst-limit', below)])
    failed = {g for _e, g, _n, _p, _c in fails}
    ck.floor('C21.throttle', 'accepting effects in register_incoming_announce', len(pushes) + len(rets_t), 2)
    for g in ('min-interval', 'burst-limit'):
        ck.ob('C21.throttle', 'C21.throttle/' + g, g not in failed, ri.loc(),
              'an announce is admitted only past the %s check' % g, next((p for _e, g2, _n, p, _c in fails if g2 == g), None))
    # history mutations: pop_front only in the window-prune loop, push_back(now)
    muts = []
    for i in ri.walk():
        nd = ri.nodes[i]
        if nd['k'] == 'CXXMemberCallExpr' and not nd.get('cconst'):
            r = ri.receiver(i)
            if r is not None and any(ri.nodes[j].get('m') == N + 'peer_announce_history_' for j in origin_chain(ri, r)):
                meth = nd['callee'].split('::')[-1]
                if meth in ('operator[]', 'back', 'front', 'begin', 'end', 'size', 'empty'):
                    continue
                muts.append((meth, i))
    ok = True
    detail = []
    for meth, i in muts:
        if meth == 'push_back':
            a = ri.strip(ri.call_args(i)[0])
            good = ri.nodes[a].get('d') == ri.params[1]['d']
        elif meth == 'pop_front':
            lp = [l for l in loops(ri) if ri.nodes[l]['k'] == 'WhileStmt' and ri.is_in(i, l)]
            good = False
            if len(lp) == 1:
                facts = implied(ri, ri.nodes[lp[0]]['cond'], True)
                for fact in facts:
                    h = holds(ri, fact)
                    if h and h[1] == '<' and ri.nodes[ri.strip(h[0])].get('callee', '').endswith('::front'):
                        srcs = value_sources(ri, h[2])
                        if any(ri.nodes[j].get('m') == BW for j in srcs) and any(ri.nodes[j].get('op') == '-' for j in srcs) and \
                                any(ri.nodes[j].get('d') == ri.params[1]['d'] for j in srcs):
                            good = True
        else:
            good = False
        detail.append('%s:%s' % (meth, 'ok' if good else 'BAD'))
        ok = ok and good
    ck.ob('C21.throttle', 'C21.throttle/history-mutations', ok and len(muts) >= 2, ri.loc(),
          'the per-peer history is only appended with `now` and pruned from the front while front < now - window (%s)' % detail)

    # ---- failure lock-out -------------------------------------------------------------------------
    consts = {'kAnnounceFailureThreshold': 3}
    ck.ob('C21.lockout', 'C21.lockout/threshold', P.global_const(ANON + 'kAnnounceFailureThreshold') == 3, '', 'three rejections lock a peer out')
    for q, v in (('kAnnounceFailureWindow', 120), ('kAnnounceLockoutDuration', 180)):
        ints = [int(n['v']) for n in P.global_(ANON + q)['nodes'] if n['k'] == 'IntegerLiteral']
        ck.ob('C21.lockout', 'C21.lockout/' + q, ints == [v], '', '%s == %d s' % (q, v))
    rf = P.fn(N + 'record_announce_failure')
    ck.touch(rf)
    lw = [i for i, m, w in field_accesses(rf) if w and m == N + 'peer_announce_lockouts_' and
          any(rf.nodes[a].get('op') == '=' for a in list(rf.ancestors(i))[:4])]

    def thr(fact):
        h = holds(rf, fact)
        return bool(h) and h[1] == '>=' and rf.nodes[rf.strip(h[0])].get('callee', '').endswith('::size') and const_value(rf, h[2]) == 3
    ok = len(lw) == 1
    if ok:
        fails, _ = gate_check(rf, [('lockout', lw[0])], [('size>=threshold', thr)])
        asg = [a for a in rf.ancestors(lw[0]) if rf.nodes[a].get('op') == '='][0]
        srcs = value_sources(rf, rf.kids(asg)[2] if rf.nodes[asg]['k'] == 'CXXOperatorCallExpr' else rf.kids(asg)[1])
        ok = not fails and any(rf.nodes[j].get('q') == ANON + 'kAnnounceLockoutDuration' for j in srcs) and \
            any(rf.nodes[j].get('d') == rf.params[1]['d'] for j in srcs)
    ck.ob('C21.lockout', 'C21.lockout/set-at-threshold', ok, rf.loc(), 'the lock-out (now + 180 s) is set exactly when the failure history reaches the threshold')
    asl = P.fn(N + 'announce_sender_locked')

    def active(fact):
        h = holds(asl, fact)
        return bool(h) and h[1] == '>' and asl.nodes[asl.strip(h[2])].get('d') == asl.params[1]['d']
    fails, nret = returns_true_only_if(asl, [('lockout > now', active)])
    ck.ob('C21.lockout', 'C21.lockout/locked-while-deadline-ahead', not fails and nret >= 1, asl.loc(),
          'announce_sender_locked is true only while the stored deadline is after now')

    # ---- own ------------------------------------------------------------------------------------------
    allowed = {N + x for x in ('register_incoming_announce', 'announce_sender_locked', 'record_announce_failure', 'clear_announce_failures', 'Node')}
    for field in ('peer_announce_history_', 'peer_announce_lockouts_', 'peer_announce_failure_history_'):
        ws = {f.q for f in P.fns if any(w and m == N + field for _i, m, w in field_accesses(f))}
        ck.ob('C21.own', 'C21.own/' + field, ws and ws <= allowed, '', '%s is written only by the throttle functions (found: %s)' % (field, sorted(x.split('::')[-1] for x in ws)))

    # ---- the interval test compares the exact elapsed time; and a lockout is lifted by nothing but an accepted announce -----------------
    from sa.flow import value_sources as _vs21
    from sa.match import comparison as _cmp21
    from sa.prog import short
    ROUNDERS = ('std::chrono::round', 'std::chrono::floor', 'std::chrono::ceil', 'std::chrono::duration_cast', 'std::chrono::time_point_cast')
    rounded = []
    ncmp = 0
    for i in ri.walk():
        c_ = _cmp21(ri, i)
        if not c_:
            continue
        for side in (c_[1], c_[2]):
            srcs = _vs21(ri, side)
            if any(ri.nodes[j].get('callee') == 'std::chrono::steady_clock::now' or ri.nodes[j].get('n') == 'now' for j in srcs):
                ncmp += 1
                if any((ri.nodes[j].get('callee') or '') in ROUNDERS for j in srcs):
                    rounded.append(i)
    ck.floor('C21.rate', 'time comparisons in register_incoming_announce', ncmp, 2)
    ck.ob('C21.rate', 'C21.rate/exact-elapsed-time', not rounded, ri.loc(rounded[0]) if rounded else ri.loc(),
          'the throttle compares the exact steady_clock difference with the configured interval / window (no rounding or truncation of the elapsed time)')
    callers = sorted({short(f_.q) for f_ in P.fns for j in f_.walk() if f_.nodes[j].get('callee') == N + 'clear_announce_failures'})
    ck.ob('C21.lock', 'C21.lock/cleared-only-by-accepted-announce', callers == ['Node::handle_announce'], '',
          'clear_announce_failures is called from handle_announce only (a handshake or any other event must not lift a lockout early); callers: %s' % callers)


def _lockout_from_now(ck, P):
    """The lockout a peer earns runs from the moment it is imposed: peer_announce_lockouts_[key] = now + kAnnounceLockoutDuration."""
    from props.common import assignments
    from sa.canon import canon, norm
    N_ = 'ephemeralnet::Node::'
    n = 0
    for f in P.fns:
        if not f.q.startswith(N_):
            continue
        for l_, r_, s_ in assignments(f):
            if not any(f.nodes[j]['k'] == 'MemberExpr' and f.nodes[j].get('m') == N_ + 'peer_announce_lockouts_' for j in f.walk(l_)):
                continue
            n += 1
            ck.touch(f)
            t = norm(canon(f, r_))
            nows = {nd_.get('n') for nd_ in f.nodes if nd_['k'] == 'VarDecl' and nd_.get('init') is not None and nd_['init'] >= 0 and
                    any((f.nodes[j].get('callee') or '') == 'std::chrono::steady_clock::now' for j in f.walk(nd_['init']))} | {p_['n'] for p_ in f.params if 'time_point' in (p_.get('t') or '')}
            ok = t[0] in ('op+', '+') and any(x[0] == 'v' and x[1] in nows for x in t[1:]) and any(x[0] == 'c' and x[1] == 180 or 'kAnnounceLockoutDuration' in repr(x) for x in t[1:])
            ck.ob('C21.lockout', 'C21.lockout/runs-from-now#%d' % n, ok, f.loc(s_),
                  'a lockout is stored as now + kAnnounceLockoutDuration (not anchored at an earlier rejection, which would shorten it) — found %r' % (t,))
    ck.floor('C21.lockout', 'assignments of a lockout deadline', n, 1)

"""C26 — the relay never crashes and releases everything once clients leave (structural clauses)."""
from sa.paths import gate_check, Cfg, must_precede
from sa.flow import field_accesses, origin_chain
from sa.match import holds, comparison, const_value
from sa.build import AnalysisBroken
from sa.escape import Escape, short
from props.common import declref, assignments

UNITS = ['src/relay/RelayServer.cpp', 'src/relay/EventLoop.cpp', 'src/relay/main.cpp']
LEVEL = 'other'
EXPLANATION = (
    'R-ESC: the escape set of EventLoop::run — the only long-running frame, callbacks resolved through the EventCallback '
    'bindings — is empty for input-dependent throws (std::system_error from epoll/kqueue registration is an OS-resource failure, '
    'excluded by policy). R-PAIR release set: once close_session has set `closing`, every path performs remove_registration, '
    'detach_partner, loop_.remove(fd), ::close(fd) and sessions_.erase(fd); every disconnect edge (recv <= 0, send error, error '
    'event, partner gone) calls close_session; every accepted descriptor is entered into sessions_ and the loop. R-OWN: '
    'sessions_ and registered_ are written only by the listed functions, and registered_ holds weak_ptr (no ownership cycle). '
    'R-BOUND: substr(0,pos)/erase(0,pos+1) run only past find != npos, substr/erase(0,kPeerIdBytes) only past size() >= '
    'kPeerIdBytes, and erase(0, sent) only with sent >= 0.')
ASSUMPTIONS = ['unbounded growth of read_buffer / write_buffer for newline-free or unread input is a resource bound, not a crash, and is not decided',
               'destruction of the executing callback object inside EventLoop::remove is not modelled']

R = 'ephemeralnet::relay::RelayServer::'
EL = 'ephemeralnet::relay::EventLoop::'


def run(ck):
    P = ck.prog(UNITS)
    E = Escape(P, policy_excluded=lambda fn, node, typ: 'OS resource failure' if typ == 'std::system_error' else None)
    run_q = EL + 'run'
    esc = E.esc.get(run_q, {})
    ck.ob('C26.esc', 'C26.esc/EventLoop::run', not esc, P.fn(run_q).loc(),
          'no input-dependent exception leaves EventLoop::run (escaping: %s)' % sorted(esc),
          ['%s: %s' % (t, ' | '.join(E.path(run_q, t))) for t in esc] or None)
    cb = sorted({short(t) for s, t, _f in E.binding_sites})
    ck.floor('C26.esc', 'callbacks bound to the event loop', len(cb), 2)
    ck.extra['event_callbacks'] = cb
    for f in P.fns:
        if f.q.startswith(R) or f.q.startswith(EL):
            ck.touch(f)
            if f.kind == 'dtor' or f.noexcept:
                ck.ob('C26.esc', 'C26.esc/%s' % short(f.q), not E.esc.get(f.q), f.loc(), 'no exception leaves %s' % short(f.q))

    fns = {f.q: f for f in P.fns if f.q.startswith(R)}
    # ---- release set ---------------------------------------------------------------------------------------
    cs = fns[R + 'close_session']
    cfg = Cfg.of(cs)
    flag = [s for l, r, s in assignments(cs) if cs.nodes[cs.strip(l)].get('m') == R + 'ClientSession::closing']
    if not flag:
        raise AnalysisBroken('close_session no longer sets the closing flag')
    steps = {
        'remove_registration': lambda e: cs.nodes[e].get('callee') == R + 'remove_registration',
        'detach_partner': lambda e: cs.nodes[e].get('callee') == R + 'detach_partner',
        'loop_.remove': lambda e: cs.nodes[e].get('callee') == EL + 'remove',
        '::close': lambda e: cs.nodes[e].get('callee') == 'close',
        'sessions_.erase': lambda e: cs.nodes[e].get('callee', '').endswith('::erase') and cs.receiver(e) is not None and cs.nodes[cs.receiver(e)].get('m') == R + 'sessions_',
    }
    for name, pred in steps.items():
        wit = cfg.must_pass(flag[0], pred)
        ck.ob('C26.release', 'C26.release/close_session/' + name, wit is None, cs.loc(), 'close_session always performs %s' % name, wit)
    # re-entrancy guard: the only early return is `if (closing) return`
    # descriptor closed is the session's own
    cl = [i for i in cs.walk() if cs.nodes[i].get('callee') == 'close']
    ok = len(cl) == 1 and cs.nodes[cs.strip(cs.call_args(cl[0])[0])].get('m') == R + 'ClientSession::fd'
    ck.ob('C26.release', 'C26.release/close_session/own-fd', ok, cs.loc(), 'the descriptor closed is session->fd')
    # ---- disconnect edges ---------------------------------------------------------------------------------------
    n_edges = 0
    hr = fns[R + 'handle_read']
    for f, what in ((hr, 'handle_read'), (fns[R + 'handle_write'], 'handle_write')):
        rets = [i for i in f.walk() if f.nodes[i]['k'] == 'ReturnStmt' and const_value(f, f.kids(i)[0]) == 0]
        mp = must_precede(f, rets, lambda e, f=f: f.nodes[e].get('callee') == R + 'close_session')
        n_edges += len(rets)
        ck.ob('C26.release', 'C26.release/%s/failure-closes' % what, bool(rets) and not mp, f.loc(),
              'every failing return of %s has closed the session' % what, mp[0][1] if mp else None)
    # recv == 0 and recv < 0 (other than EAGAIN) are failing returns
    sd = hr.params[0]['d']
    rec = [nd for nd in hr.nodes if nd['k'] == 'VarDecl' and nd.get('n') == 'received']
    ok = False
    if len(rec) == 1:
        zero = [i for i in hr.walk() if hr.nodes[i]['k'] == 'IfStmt' and (c := comparison(hr, hr.nodes[i]['cond'])) and c[0] == '==' and
                declref(hr, c[1], rec[0]['d']) is not None and const_value(hr, c[2]) == 0 and
                any(hr.nodes[j].get('callee') == R + 'close_session' for j in hr.walk(hr.nodes[i]['then']))]
        neg = [i for i in hr.walk() if hr.nodes[i]['k'] == 'IfStmt' and (c := comparison(hr, hr.nodes[i]['cond'])) and c[0] == '<' and
               declref(hr, c[1], rec[0]['d']) is not None and const_value(hr, c[2]) == 0 and
               any(hr.nodes[j].get('callee') == R + 'close_session' for j in hr.walk(hr.nodes[i]['then']))]
        ok = len(zero) == 1 and len(neg) == 1
    ck.ob('C26.release', 'C26.release/handle_read/eof-and-error', ok, hr.loc(), 'recv() == 0 and recv() < 0 (other than EAGAIN) close the session')
    oc = fns[R + 'on_client_event']
    err = [i for i in oc.walk() if oc.nodes[i]['k'] == 'IfStmt' and any(oc.nodes[j].get('n') == 'kEventError' for j in oc.walk(oc.nodes[i]['cond'])) and
           any(oc.nodes[j].get('callee') == R + 'close_session' for j in oc.walk(oc.nodes[i]['then']))]
    ck.ob('C26.release', 'C26.release/error-event-closes', len(err) == 1, oc.loc(), 'an error/hang-up event closes the session')
    fp = fns[R + 'forward_to_partner']
    qb = fp.calls(R + 'queue_binary')

    def g_alive(fact):
        kind, node, val = fact
        nd = fp.nodes[node]
        return kind == 'bool' and val is True and (nd['k'] == 'DeclRefExpr' and nd.get('n') == 'partner' or 'operator bool' in nd.get('callee', ''))
    fails, _ = gate_check(fp, [('queue', c) for c in qb], [('partner-alive', g_alive)])
    closes = fp.calls(R + 'close_session')
    ck.ob('C26.release', 'C26.release/partner-gone-closes', not fails and len(closes) >= 1, fp.loc(),
          'forward_to_partner queues only to a live partner and closes the session otherwise', fails[0][3] if fails else None)
    total_close = sum(len(f.calls(R + 'close_session')) for f in fns.values())
    ck.floor('C26.release', 'close_session call sites (disconnect edges)', total_close, 8)
    # ---- accept ------------------------------------------------------------------------------------------------
    ac = fns[R + 'accept_new_clients']
    cfga = Cfg.of(ac)
    cfgsock = [i for i in ac.walk() if ac.nodes[i].get('callee') == R + 'configure_socket']
    ok = False
    if cfgsock:
        w1 = cfga.must_pass(cfgsock[0], lambda e: ac.nodes[e].get('callee', '').endswith('::emplace') and ac.receiver(e) is not None and ac.nodes[ac.receiver(e)].get('m') == R + 'sessions_')
        w2 = cfga.must_pass(cfgsock[0], lambda e: ac.nodes[e].get('callee') == EL + 'add')
        ok = w1 is None and w2 is None
    ck.ob('C26.release', 'C26.release/accept-registers', ok, ac.loc(), 'every accepted descriptor is entered into sessions_ and into the event loop')
    # ---- ownership -------------------------------------------------------------------------------------------------
    owners = {R + 'sessions_': {R + 'accept_new_clients', R + 'close_session', R + 'stop', R + 'RelayServer', R + '~RelayServer'},
              R + 'registered_': {R + 'handle_register', R + 'handle_connect', R + 'detach_partner', R + 'remove_registration', R + 'find_registered', R + 'stop',
                                  R + 'RelayServer', R + '~RelayServer'}}
    for fld, allowed in owners.items():
        writers = set()
        for f in P.fns:
            for _i, m, w in field_accesses(f):
                if w and m == fld:
                    writers.add(f.q if not f.is_lambda else f.parent_fn)
        ck.ob('C26.own', 'C26.own/' + fld.split('::')[-1], writers <= allowed and bool(writers), '',
              '%s is written only by %s (found %s)' % (fld.split('::')[-1], sorted(short(x).split('::')[-1] for x in allowed), sorted(short(x) for x in writers)))
    rec_ = P.record('ephemeralnet::relay::RelayServer')
    ft = {f_['n']: f_.get('t', '') for f_ in rec_.get('fields', [])}
    ck.ob('C26.own', 'C26.own/registered-weak', 'weak_ptr' in ft.get('registered_', ''), '', 'registered_ holds weak_ptr (a registration does not keep a closed session alive)')
    # a registration is removed by looking up session->peer_hex: it must have been entered under that same key
    from sa.canon import canon
    ins = []
    for f in P.fns:
        for i in f.walk():
            nd = f.nodes[i]
            if nd['k'] == 'CXXOperatorCallExpr' and nd.get('op') == '=' and len(f.kids(i)) == 3:
                l, r = f.strip(f.kids(i)[1]), f.strip(f.kids(i)[2])
                ln = f.nodes[l]
                if ln['k'] == 'CXXOperatorCallExpr' and ln.get('op') == '[]' and len(f.kids(l)) == 3:
                    cont = f.nodes[f.strip(f.kids(l)[1])]
                    if cont['k'] == 'MemberExpr' and cont.get('m') == 'ephemeralnet::relay::RelayServer::registered_':
                        ins.append((f, i, canon(f, f.kids(l)[2]), canon(f, r)))
    ck.floor('C26.release', 'insertions into registered_', len(ins), 2)
    for f, i, key, val in ins:
        ok = key[0] == 'm' and key[2] == 'peer_hex' and key[1] in (val, ('op->', val), ('u*', val))
        ck.ob('C26.release', 'C26.release/registration-key/%s' % short(f.q).split('::')[-1], ok, f.loc(i),
              'registered_ is keyed by the canonical peer_hex of the very session it stores (remove_registration looks it up by session->peer_hex); found key %s for value %s' % (key, val))
    crec = P.record('ephemeralnet::relay::RelayServer::ClientSession')
    cft = {f_['n']: f_.get('t', '') for f_ in crec.get('fields', [])}
    ck.ob('C26.own', 'C26.own/partner-weak', 'weak_ptr' in cft.get('partner', ''), '', 'ClientSession::partner is a weak_ptr (no ownership cycle between bridged sessions)')
    # ---- string bounds ----------------------------------------------------------------------------------------------
    nb = 0
    for q in (R + 'process_protocol', R + 'handle_identity_ready', R + 'handle_write'):
        f = fns[q]
        for i in f.walk():
            nd = f.nodes[i]
            c = nd.get('callee', '')
            if not (c.endswith('basic_string<char>::substr') or c.endswith('basic_string<char>::erase')):
                continue
            a = [x for x in f.call_args(i) if f.nodes[x]['k'] != 'CXXDefaultArgExpr']
            if len(a) < 2 or const_value(f, a[0]) != 0:
                continue
            nb += 1
            cnt = a[1]
            names = {f.nodes[j].get('n') for j in f.walk(cnt) if f.nodes[j]['k'] == 'DeclRefExpr'}
            if 'pos' in names:
                def g(fact, f=f):
                    h = holds(f, fact)
                    return bool(h) and h[1] == '!=' and any(f.nodes[f.strip(x)].get('n') == 'pos' for x in (h[0], h[2])) and \
                        any('npos' in f.text(x) for x in (h[0], h[2]))
                lab = 'pos != npos'
            elif 'kPeerIdBytes' in names:
                def g(fact, f=f):
                    h = holds(f, fact)
                    if not h:
                        return False
                    x, rel, y = h
                    sz = lambda n: f.nodes[f.strip(n)].get('callee', '').endswith('::size')
                    kp = lambda n: f.nodes[f.strip(n)].get('n') == 'kPeerIdBytes'
                    return (rel == '>=' and sz(x) and kp(y)) or (rel == '<=' and kp(x) and sz(y))
                lab = 'size() >= kPeerIdBytes'
            elif 'sent' in names:
                def g(fact, f=f):
                    h = holds(f, fact)
                    if not h:
                        return False
                    x, rel, y = h
                    return rel == '>=' and f.nodes[f.strip(x)].get('n') == 'sent' and const_value(f, y) == 0
                lab = 'sent >= 0'
            else:
                ck.ob('C26.bound', 'C26.bound/%s#%d' % (q.split('::')[-1], i), False, f.loc(i), 'unrecognised count operand in %s' % f.text(i))
                continue
            fails, _ = gate_check(f, [('string op', i)], [(lab, g)])
            ck.ob('C26.bound', 'C26.bound/%s#%d' % (q.split('::')[-1], i), not fails, f.loc(i),
                  '%s runs only past %s' % (f.text(i)[:60], lab), fails[0][3] if fails else None)
    ck.floor('C26.bound', 'prefix substr/erase operations on session buffers', nb, 5)
    # positional string operations whose position is not the constant 0 throw std::out_of_range when the position exceeds the
    # size (an uncaught exception in an event-loop callback ends the relay): each must sit past `v != npos` for the search
    # result v it is computed from (v, or v + 1)
    npos_ops = 0
    for f in P.fns:
        if not f.file.endswith('src/relay/RelayServer.cpp'):
            continue
        for i in f.walk():
            c = f.nodes[i].get('callee', '') or ''
            if not c.endswith(('basic_string<char>::substr', 'basic_string<char>::erase', 'basic_string<char>::at', 'basic_string<char>::insert',
                               'basic_string<char>::replace', 'basic_string<char>::compare', 'basic_string_view<char>::substr')):
                continue
            a = [x for x in f.call_args(i) if f.nodes[x]['k'] != 'CXXDefaultArgExpr']
            if not a or const_value(f, a[0]) == 0 or (f.nodes[f.strip(a[0])].get('t') or '').find('iterator') >= 0:
                continue
            npos_ops += 1
            ck.touch(f)
            vs = {f.nodes[j]['d'] for j in f.walk(a[0]) if f.nodes[j]['k'] == 'DeclRefExpr' and f.nodes[j].get('dk') == 'Var'}
            consts = [const_value(f, j) for j in f.walk(a[0]) if f.nodes[j]['k'] == 'IntegerLiteral']
            from sa.flow import all_defs as _ad26
            searched = len(vs) == 1 and all(c_ in (0, 1) for c_ in consts) and \
                all(rhs_ is not None and any((f.nodes[j].get('callee') or '').split('::')[-1] in ('find', 'rfind', 'find_first_of', 'find_last_of', 'find_first_not_of', 'find_last_not_of')
                                             for j in f.walk(rhs_)) for _k, rhs_, _s in _ad26(f, next(iter(vs)))) if vs else False
            if not searched:
                ck.ob('C26.bound', 'C26.bound/position/%s#%d' % (short(f.q).split('::')[-1], i), False, f.loc(i),
                      'position operand `%s` is not a guarded search result' % f.text(a[0])[:40])
                continue
            vd = next(iter(vs))

            def g_np(fact, f=f, vd=vd):
                h = holds(f, fact)
                if not h:
                    return False
                x, rel, y = h
                return rel == '!=' and ((declref(f, x) == vd and 'npos' in f.text(y)) or (declref(f, y) == vd and 'npos' in f.text(x)))
            fails, _ = gate_check(f, [('positional string op', i)], [('search result != npos', g_np)])
            ck.ob('C26.bound', 'C26.bound/position/%s#%d' % (short(f.q).split('::')[-1], i), not fails, f.loc(i),
                  '%s runs only past a `!= npos` test of the search result it is positioned by' % f.text(i)[:50], fails[0][3] if fails else None)
    ck.floor('C26.bound', 'string operations at a searched position in the relay server', npos_ops, 1)

    # ---- the protocol loop makes progress only by consuming input, and never feeds a closed session -------------------------------
    from sa.callgraph import CallGraph as _CG
    from sa.match import holds as _holds, const_value as _cv
    pp_ = P.fn(R + 'process_protocol')
    ck.touch(pp_)
    sets_ = [s_ for l_, r_, s_ in assignments(pp_) if pp_.nodes[pp_.strip(l_)].get('k') == 'DeclRefExpr' and pp_.nodes[pp_.strip(l_)].get('n') == 'progress' and pp_.nodes[pp_.strip(r_)].get('cv') == '1']
    idr = [i for i in pp_.walk() if pp_.nodes[i].get('callee') == R + 'handle_identity_ready']
    idsets = [s_ for s_ in sets_ if any(pp_.is_in(s_, a) and pp_.is_in(c_, a) for c_ in idr for a in pp_.ancestors(c_) if pp_.nodes[a]['k'] == 'CompoundStmt' and pp_.nodes[pp_.parent(a) or 0]['k'] == 'IfStmt')]
    kid = P.global_const('ephemeralnet::relay::(anonymous namespace)::kPeerIdBytes') if any(g.endswith('kPeerIdBytes') for g in P.globals) else 32

    def enough(fact):
        h = _holds(pp_, fact)
        if not h:
            return False
        a_, rel, b_ = h
        return rel == '>=' and (pp_.nodes[pp_.strip(a_)].get('callee') or '').endswith('::size') and _cv(pp_, b_) == kid
    effects = [('progress=true', s_) for s_ in idsets] + [('handle_identity_ready', c_) for c_ in idr]
    ck.floor('C26.loop', 'identity-stage progress sites in process_protocol', len(effects), 2)
    fails_, _n = gate_check(pp_, effects, [('read_buffer.size() >= kPeerIdBytes', enough)])
    ck.ob('C26.loop', 'C26.loop/identity-progress-needs-32-bytes', not fails_, pp_.loc(fails_[0][2]) if fails_ else pp_.loc(),
          'while a session awaits the peer identity the loop reports progress only when the %d identity bytes are buffered (a shorter fragment must '
          'leave the loop, not spin in it)' % kid, fails_[0][3] if fails_ else None)
    G_ = _CG(P)
    hl_reach = G_.reachable([R + 'handle_line'])
    closes_ = R + 'close_session' in hl_reach
    ck.ob('C26.loop', 'C26.loop/line-handlers-do-not-close', not closes_, P.fn(R + 'handle_line').loc(),
          'no command handler reached from handle_line closes the session: process_protocol keeps feeding buffered lines to it afterwards'
          + ('' if not closes_ else ' — path %s' % ' -> '.join(short(x) for x in (G_.path(R + 'handle_line', R + 'close_session') or []))))

    # ---- dispatch: the watcher is looked up for each event just before its callback runs ----------------------------------------
    # (an earlier callback of the same batch may have closed this descriptor — and a new client may have been given the same
    # number: a callback resolved before the batch started would then run the dead session's handler on the new client's watcher)
    from sa.paths import loops as _loops26
    from sa.flow import all_defs as _ad
    run_f = P.fn(run_q)
    inv = [i for i in run_f.walk() if run_f.nodes[i]['k'] == 'CXXOperatorCallExpr' and run_f.nodes[i].get('op') == '()' and
           (run_f.nodes[i].get('callee') or '').startswith('std::function<void (int, unsigned int)>')]
    ck.floor('C26.loop', 'callback invocations in EventLoop::run', len(inv), 1)
    for i in inv:
        obj = run_f.kids(i)[1]
        its = [run_f.nodes[j]['d'] for j in run_f.walk(obj) if run_f.nodes[j]['k'] == 'DeclRefExpr' and run_f.nodes[j].get('dk') == 'Var']
        via_member = any(run_f.nodes[j]['k'] == 'MemberExpr' and (run_f.nodes[j].get('m') or '').endswith('Watcher::callback') for j in run_f.walk(obj))
        fresh = False
        if via_member and len(its) == 1:
            defs = _ad(run_f, its[0])
            finds = [s_ for _k, rhs_, s_ in defs if rhs_ is not None and any((run_f.nodes[j].get('callee') or '').endswith('::find') and
                     any((run_f.nodes[x].get('m') or '').endswith('EventLoop::watchers_') for x in run_f.walk(j)) for j in run_f.walk(rhs_))]
            inner = lambda n: next((a for a in run_f.ancestors(n) if a in set(_loops26(run_f))), None)
            fresh = len(defs) == 1 and len(finds) == 1 and inner(finds[0]) is not None and inner(finds[0]) == inner(i)
        ck.ob('C26.loop', 'C26.loop/dispatch-looks-up-watcher-per-event', fresh, run_f.loc(i),
              'the callback invoked for an event is the one found in watchers_ for that descriptor in the same loop iteration (not a copy resolved earlier)')

    # ---- re-registration: the old listing is removed while the session still carries the old key -------------------------------
    hr_ = P.fn(R + 'handle_register')
    ck.touch(hr_)
    rm_ = [i for i in hr_.walk() if hr_.nodes[i].get('callee') == R + 'remove_registration']
    rekey = [i for i, m_, w_ in field_accesses(hr_) if w_ and m_.endswith(('ClientSession::peer_hex', 'ClientSession::peer_id'))]
    ck.floor('C26.release', 'writes of the registration key in handle_register', len(rekey), 1)
    late = must_precede(hr_, rekey, lambda e, s_=set(rm_): e in s_ or any(hr_.is_in(x, e) for x in s_) and hr_.nodes[e]['k'] == 'ExprWithCleanups') if rm_ else [(rekey[0], ['no remove_registration call'])]
    ck.ob('C26.release', 'C26.release/unlist-before-rekey', not late, hr_.loc(late[0][0]) if late else hr_.loc(),
          'handle_register calls remove_registration(session) before it overwrites session->peer_id / peer_hex (the listing is keyed by the old value)',
          late[0][1] if late else None)

    # ---- identity stage always consumes its 32 bytes: handle_identity_ready has no exit that leaves them (and the state) in place ------------
    hir = P.fn(R + 'handle_identity_ready')
    ck.touch(hir)
    cons = [i for i in hir.walk() if (hir.nodes[i].get('callee') or '').endswith('basic_string<char>::erase') and
            any((hir.nodes[j].get('m') or '').endswith('ClientSession::read_buffer') for j in hir.walk(i))]
    # exits before the erase are allowed only for: wrong state, fewer than 32 bytes buffered, or the claimed target already gone
    # (the connector is then itself being closed by the target's teardown and is never dispatched again)
    from props.common import refusal_reasons as _rr26
    from sa.canon import norm as _n26, V as _V26, C as _C26
    wit_h = None
    if not cons:
        wit_h = ['no erase of the identity bytes']
    else:
        cfg_h = Cfg.of(hir)
        early = [r for r in hir.walk() if hir.nodes[r]['k'] == 'ReturnStmt' and not any(cfg_h.dominates(cfg_h.locate(c_), cfg_h.locate(r)) for c_ in cons)]
        for r_, conds in _rr26(hir, lambda r: r in early):
            for c_ in (conds or [('unconditional',)]):
                txt = repr(c_)
                ok_c = ("'state'" in txt and 'AwaitingIdentity' in txt and c_[0] == '!=') or \
                    (c_[0] == '<' and "'read_buffer'" in txt and 'size' in txt) or \
                    (c_[0] == 'u!' and ("'target'" in txt or 'partner' in txt))
                if not ok_c and wit_h is None:
                    wit_h = ['%s: return under `%s`' % (hir.loc(r_), txt[:90])]
    ck.ob('C26.loop', 'C26.loop/identity-always-consumed', wit_h is None, hir.loc(),
          'every path through handle_identity_ready removes the 32 identity bytes from read_buffer (an exit that leaves them while the state stays '
          'AwaitingIdentity makes process_protocol spin forever)', wit_h)

    # ---- tearing a pair down unlinks the survivor before anything else is done with it -------------------------------------------------------
    dp = P.fn(R + 'detach_partner')
    ck.touch(dp)
    resets = [i for i in dp.walk() if (dp.nodes[i].get('callee') or '').endswith('::reset') and any((dp.nodes[j].get('m') or '').endswith('ClientSession::partner') for j in dp.walk(i))]
    after = [i for i in dp.walk() if dp.nodes[i].get('callee') == R + 'close_session'] + \
        [i for i, m_, w_ in field_accesses(dp) if w_ and m_ == R + 'registered_']
    late_dp = must_precede(dp, after, lambda e, s_=set(resets): e in s_ or any(dp.is_in(x, e) for x in s_)) if resets and after else [(None, ['partner.reset() or the follow-up actions were not found'])]
    ck.ob('C26.release', 'C26.release/unlink-before-close-or-relist', not late_dp, dp.loc(late_dp[0][0]) if late_dp and late_dp[0][0] is not None else dp.loc(),
          'detach_partner resets the survivor\'s partner link before it closes or re-registers it (otherwise the survivor\'s own teardown detaches back and '
          're-lists a session that is being closed)', late_dp[0][1] if late_dp else None)

    # ---- `closing` means "close_session ran": nobody else sets or clears it (a deferred-close flag would turn the real close into a no-op) ------
    cl_w = sorted({f.name for f in P.fns for i, m_, w_ in field_accesses(f) if w_ and m_.endswith('ClientSession::closing') and f.kind not in ('ctor', 'dtor')})
    ck.ob('C26.own', 'C26.own/closing-flag', cl_w == ['relay::RelayServer::close_session'] or cl_w == ['RelayServer::close_session'] or (len(cl_w) == 1 and cl_w[0].endswith('close_session')), '',
          'ClientSession::closing is written by close_session only (found writers: %s)' % cl_w)

"""C18 — manifest decoding is total and free of undefined behaviour (numeric abstract interpretation + typed escape analysis)."""
from sa.absint2 import analyse, report
from sa.escape import Escape, short
from sa.callgraph import CallGraph

UNITS = ['src/protocol/Manifest.cpp']
LEVEL = 'proof'
EXPLANATION = (
    'N1 (abstract interpretation over linear forms, Fourier-Motzkin entailment with integer tightening) analyses '
    'protocol::decode_manifest for an unconstrained URI string with base64_decode, read_u64 and read_u16 inlined. R-BOUND: every '
    'input[i+k], decode[...], payload[...], copy_n source/destination and iterator-range construction is an obligation '
    '`0 <= off && off + n <= size` entailed by the guards on its path; loops are summarised by verified inductive invariants '
    '(constant strides such as i = 4K with size = 4q, offset = 88 + 33K under offset + 33*count <= size, and `offset <= size` for '
    'the variable-length sections). R-BOUND chrono: a count converted to a finer std::chrono period must provably stay inside 64 '
    'bits after the multiplication (seconds -> system_clock nanoseconds, x 10^9). R-LOOP: every loop has a ranking function. '
    'R-ESC typed: the whole-call-graph escape set of decode_manifest is a subset of {std::invalid_argument} (std::bad_alloc '
    'excluded) and every throw expression reached by the interpreter throws std::invalid_argument. R-REC: no recursion.')
ASSUMPTIONS = ['allocation failure (std::bad_alloc / length_error from exhausting memory) is outside the property',
               'std::string::rfind / substr / strlen behave as specified; substr(pos) is proved in range from the rfind guard by the '
               'escape engine\'s prefix rule']

PR = 'ephemeralnet::protocol::'


def run(ck):
    P = ck.prog(UNITS)
    dm = P.fn(PR + 'decode_manifest')
    ck.touch(dm)
    sites, info = analyse(P, [(dm, None, None)], inline=lambda q: q.startswith(PR))
    for e in sites.values():
        ck.touch(e['fn'])
    report(ck, 'C18', sites)
    nb = len([1 for e in sites.values() if e['kind'] == 'bound'])
    ck.floor('C18.bound', 'memory-access obligations reachable from decode_manifest', nb, 40)
    ck.floor('C18.chrono', 'std::chrono period conversions of decoded counts', len([1 for e in sites.values() if e['kind'] == 'chrono']), 1)
    ck.floor('C18.loop', 'loops reachable from decode_manifest', len([1 for e in sites.values() if e['kind'] == 'loop']), 7)
    reached = {short(e['fn'].q).split('::')[-1] for e in sites.values()}
    for r in ('base64_decode', 'read_u64', 'read_u16'):
        ck.ob('C18.reach', 'C18.reach/' + r, r in reached, '', 'accesses inside %s were analysed in the context of decode_manifest' % r)
    # typed throws seen by the interpreter
    seen = {}
    for f, n, t in info['throws']:
        seen.setdefault((f.q, n), (f, n, t))
    bad = [(f, n, t) for f, n, t in seen.values() if t != 'std::invalid_argument']
    ck.floor('C18.throw', 'throw expressions reached from decode_manifest', len(seen), 25)
    ck.ob('C18.throw', 'C18.throw/typed', not bad, bad[0][0].loc(bad[0][1]) if bad else dm.loc(),
          'each of the %d throw expressions reached throws std::invalid_argument%s' % (len(seen), (' — found %s' % bad[0][2]) if bad else ''))
    ck.extra['n1'] = {'entries': info['entries'], 'sites': len(sites), 'unsupported_expressions': sorted(set(info['unsupported']))}

    E = Escape(P)
    esc = E.esc.get(dm.q, {})
    other = {t: o for t, o in esc.items() if t != 'std::invalid_argument'}
    ck.ob('C18.escape', 'C18.escape/decode_manifest', not other, dm.loc(),
          'only std::invalid_argument leaves decode_manifest (escape set: %s)' % sorted(esc),
          ['%s: %s' % (t, ' | '.join(E.path(dm.q, t))) for t in sorted(other)] or None)
    ck.ob('C18.escape', 'C18.escape/refuses', 'std::invalid_argument' in esc, dm.loc(), 'malformed input is refused by throwing std::invalid_argument')
    from props.C38 import sccs
    G = CallGraph(P)
    reach = {q for q in G.reachable([dm.q]) if q in P.by_q}
    rec = set()
    for c in sccs(reach, G.edges):
        if len(c) > 1 or c[0] in G.edges.get(c[0], ()):
            rec |= set(c)
    ck.ob('C18.rec', 'C18.rec', not rec, dm.loc(), 'no recursion among the %d functions reachable from decode_manifest' % len(reach))

    # comparators handed to std::sort and friends must be strict (irreflexive): `<=` / `>=` is undefined behaviour inside the sort
    SORTS = ('std::sort', 'std::stable_sort', 'std::partial_sort', 'std::nth_element', 'std::make_heap', 'std::sort_heap', 'std::lower_bound', 'std::upper_bound')
    from sa.match import comparison as _cmp
    nsort = 0
    for f in [x for x in P.fns if x.file.endswith('Manifest.cpp')]:
        for i in f.walk():
            if (f.nodes[i].get('callee') or '') in SORTS:
                nsort += 1
                for j in f.walk(i):
                    if f.nodes[j]['k'] == 'LambdaExpr' and f.nodes[j].get('fn'):
                        for g in P.by_q.get(f.nodes[j]['fn'], []):
                            bad_ = []
                            for r in [x for x in g.walk() if g.nodes[x]['k'] == 'ReturnStmt' and g.kids(x)]:
                                c_ = _cmp(g, g.kids(r)[0])
                                if c_ and c_[0] in ('<=', '>='):
                                    bad_.append(r)
                            ck.ob('C18.ub', 'C18.ub/strict-comparator/%s#%d' % (short(f.q).split('::')[-1], nsort), not bad_, g.loc(bad_[0]) if bad_ else g.loc(),
                                  'the comparator handed to %s in %s is a strict ordering (`<` / `>`): a reflexive `<=` lets the sort run off the range'
                                  % (f.nodes[i]['callee'], short(f.q)))
    ck.extra['sort_calls_in_manifest_codec'] = nsort

"""C10 — Shamir sharing reconstructs from any threshold subset and rejects bad sets."""
from sa.paths import gate_check, Cfg, local_writes, loops
from sa.flow import origin_chain, value_sources, all_defs
from sa.match import holds, comparison, const_value
from sa.build import AnalysisBroken
from sa.prog import int_type
from props.common import declref, member_on, field_assigns

UNITS = ['src/crypto/Shamir.cpp']
LEVEL = 'other'
EXPLANATION = (
    'R-LOOP: every counted for-loop of Shamir.cpp has an induction variable that can exceed its bound (`i <= n` needs '
    'max(type i) > max(type n), `i < n` needs >=), so split terminates for every share count including 255. R-ESC typed: every '
    'throw in the unit is std::invalid_argument. R-GATE on combine: interpolate is reached only past shares.size() >= threshold '
    'and past a loop over the interpolated subset that throws on a repeated index (seen-table or pairwise comparison of '
    'ShamirShare::index); the subset is exactly the first `threshold` shares. split: throws unless 1 <= threshold <= share_count; '
    'share indices are the loop counter starting at 1, one share per iteration; each byte uses threshold-1 coefficients drawn '
    'from std::random_device and evaluate_polynomial(share.index, secret[byte], coefficients). gf_div throws on a zero divisor.')
ASSUMPTIONS = ['that the exp/log tables form GF(2^8) and that Lagrange interpolation returns the secret is numeric and not decided',
               'information-theoretic secrecy is reduced to: the threshold-1 coefficients of every byte come from std::random_device']

NS = 'ephemeralnet::crypto::'
IDX = NS + 'ShamirShare::index'


def pre_promotion_type(fn, n):
    """Type of an operand before the implicit integral conversions of a comparison."""
    while True:
        nd = fn.nodes[n]
        if nd['k'] in ('ImplicitCastExpr', 'ParenExpr') and fn.kids(n):
            if nd['k'] == 'ImplicitCastExpr' and nd.get('ck') not in ('IntegralCast', 'LValueToRValue', 'NoOp'):
                break
            n = fn.kids(n)[0]
            continue
        break
    return fn.nodes[n].get('t')


def tmax(t):
    it = int_type(t)
    if it is None:
        return None
    bits, signed = it
    return (1 << (bits - 1)) - 1 if signed else (1 << bits) - 1


def run(ck):
    P = ck.prog(UNITS)
    unit_fns = [f for f in P.fns if f.file.endswith('src/crypto/Shamir.cpp')]
    # ---- R-LOOP ---------------------------------------------------------------------------------
    nloops = 0
    for f in unit_fns:
        ck.touch(f)
        for lp in loops(f):
            nd = f.nodes[lp]
            if nd['k'] != 'ForStmt':
                continue
            cond = nd.get('cond')
            c = comparison(f, cond) if cond is not None and cond >= 0 else None
            if c is None:
                continue
            op, a, b = c
            if op in ('>', '>='):
                op, a, b = {'>': '<', '>=': '<='}[op], b, a
            if op not in ('<', '<='):
                continue
            iv = f.nodes[f.strip(a)]
            if iv['k'] != 'DeclRefExpr':
                continue
            nloops += 1
            it = pre_promotion_type(f, a)
            imax = tmax(it)
            bconst = const_value(f, b)
            bmax = bconst if bconst is not None else tmax(pre_promotion_type(f, b))
            if imax is None or bmax is None:
                ok = False
            else:
                ok = imax > bmax if op == '<=' else imax >= bmax
            ck.ob('C10.loop', 'C10.loop/%s/%s' % (f.name, iv.get('n')), ok, f.loc(lp),
                  'for (%s %s %s %s): the counter type (max %s) can pass the largest bound (max %s), so the loop exits'
                  % (it, iv.get('n'), op, f.text(b), imax, bmax))
    ck.floor('C10.loop', 'counted for-loops in Shamir.cpp', nloops, 8)

    # ---- R-ESC typed ----------------------------------------------------------------------------
    nthrow = 0
    for f in unit_fns:
        for i in f.walk():
            if f.nodes[i]['k'] == 'CXXThrowExpr':
                nthrow += 1
                ck.ob('C10.esc', 'C10.esc/%s#%d' % (f.name, nthrow), f.nodes[i].get('thrown') == 'std::invalid_argument', f.loc(i),
                      'throw site of type %s (only std::invalid_argument may leave split/combine)' % f.nodes[i].get('thrown'))
    ck.floor('C10.esc', 'throw sites in Shamir.cpp', nthrow, 5)

    # ---- combine --------------------------------------------------------------------------------
    cb = P.fn(NS + 'Shamir::combine')
    cfg = Cfg.of(cb)
    inter = cb.calls(NS + '(anonymous namespace)::interpolate')
    ck.floor('C10.combine', 'interpolate call in combine', len(inter), 1)
    I = inter[0]
    shares_d, thr_d = cb.params[0]['d'], cb.params[1]['d']

    def g_size(fact):
        h = holds(cb, fact)
        if not h:
            return False
        a, rel, b = h
        issz = lambda n: cb.nodes[cb.strip(n)].get('callee', '').endswith('::size') and declref(cb, cb.receiver(cb.strip(n)), shares_d) is not None
        return (rel == '>=' and issz(a) and declref(cb, b, thr_d) is not None) or (rel == '<=' and issz(b) and declref(cb, a, thr_d) is not None)
    fails, _ = gate_check(cb, [('interpolate', I)], [('size>=threshold', g_size)])
    ck.ob('C10.combine', 'C10.combine/enough-shares', not fails, cb.loc(I),
          'interpolate is reached only past shares.size() >= threshold', fails[0][3] if fails else None)
    # subset = first `threshold` shares
    S = declref(cb, cb.call_args(I)[0])
    sub_ok = False
    if S is not None:
        defs = all_defs(cb, S)
        if len(defs) == 1 and defs[0][0] == 'init':
            c = cb.strip(defs[0][1])
            args = cb.kids(c)
            if cb.nodes[c]['k'] == 'CXXConstructExpr' and len(args) >= 2:
                a0, a1 = cb.strip(args[0]), cb.strip(args[1])
                beg = lambda n: cb.nodes[n].get('callee', '').endswith('::begin') and declref(cb, cb.receiver(n), shares_d) is not None
                plus = cb.nodes[a1]
                if beg(a0) and plus.get('op') == '+' and len(cb.kids(a1)) >= 2:
                    ops = cb.kids(a1)[-2:]
                    sub_ok = beg(cb.strip(ops[0])) and declref(cb, ops[1], thr_d) is not None
    ck.ob('C10.combine', 'C10.combine/subset-is-first-threshold-shares', sub_ok, cb.loc(I),
          'the interpolated vector is constructed once as (shares.begin(), shares.begin() + threshold)')
    # distinct-index validation dominating interpolate
    valid = None
    for t in [i for i in cb.walk() if cb.nodes[i]['k'] == 'CXXThrowExpr']:
        guard = None
        for a in cb.ancestors(t):
            if cb.nodes[a]['k'] == 'IfStmt':
                guard = a
                break
        if guard is None:
            continue
        cond = cb.nodes[guard]['cond']
        outer = [a for a in cb.ancestors(guard) if cb.nodes[a]['k'] in ('CXXForRangeStmt', 'ForStmt', 'WhileStmt')]
        if not outer:
            continue
        top = outer[-1]
        # the loop ranges over the interpolated subset
        over_S = any(cb.nodes[j]['k'] == 'DeclRefExpr' and cb.nodes[j].get('d') == S for lp in outer for j in
                     cb.walk(cb.nodes[lp].get('range') if cb.nodes[lp]['k'] == 'CXXForRangeStmt' else lp))
        if not over_S:
            continue
        # (b) pairwise comparison of two index fields with different bases
        pairwise = False
        for j in cb.walk(cond):
            c = comparison(cb, j)
            if c and c[0] == '==' and member_on(cb, c[1], IDX) and member_on(cb, c[2], IDX) and cb.text(c[1]) != cb.text(c[2]):
                pairwise = True
        # (a) seen-table: a local container read in the condition (indexed by / queried with .index) and written with .index in the loop
        seen_tbl = False
        for j in cb.walk(cond):
            nd = cb.nodes[j]
            if nd['k'] == 'DeclRefExpr' and nd.get('dk') == 'Var' and nd.get('d') != S:
                d = nd['d']
                reads_idx = any(cb.nodes[x].get('m') == IDX for x in cb.walk(cond))
                writes = [w for w in local_writes(cb, d) if cb.is_in(w, top) and any(cb.nodes[x].get('m') == IDX for x in cb.walk(w))]
                if reads_idx and writes:
                    seen_tbl = True
        if not (pairwise or seen_tbl):
            continue
        # loop header dominates the interpolate call
        hdr = [b for b in cfg.blocks.values() if b.get('term') == top]
        loc = cfg.locate(I)
        if hdr and loc is not None and hdr[0]['id'] in cfg.dominators().get(loc[0], set()):
            valid = (t, 'pairwise' if pairwise else 'seen-table')
    ck.ob('C10.combine', 'C10.combine/distinct-index-validation', valid is not None, cb.loc(valid[0]) if valid else cb.loc(I),
          'before interpolating, combine loops over the interpolated subset and throws on a repeated ShamirShare::index'
          + (' (%s form)' % valid[1] if valid else ' — no such validation found; duplicate indices would rely on gf_div throwing, which the zero-value shortcut bypasses'))

    # ---- gf_div ---------------------------------------------------------------------------------
    gd = P.fn(NS + '(anonymous namespace)::gf_div')
    ck.touch(gd)
    idx_reads = [i for i in gd.walk() if gd.nodes[i]['k'] == 'CXXOperatorCallExpr' and gd.nodes[i].get('op') == '[]']
    ck.floor('C10.gfdiv', 'table reads in gf_div', len(idx_reads), 3)
    b_d = gd.params[1]['d']

    def g_nz(fact):
        h = holds(gd, fact)
        if not h:
            return False
        a, rel, b = h
        return rel == '!=' and ((declref(gd, a, b_d) is not None and const_value(gd, b) == 0) or (declref(gd, b, b_d) is not None and const_value(gd, a) == 0))
    fails, _ = gate_check(gd, [('table read', i) for i in idx_reads], [('divisor!=0', g_nz)])
    ck.ob('C10.gfdiv', 'C10.gfdiv/zero-divisor-throws', not fails, gd.loc(), 'gf_div reaches its table lookups only past b != 0 (throws otherwise)',
          fails[0][3] if fails else None)

    # ---- split ----------------------------------------------------------------------------------
    sp = P.fn(NS + 'Shamir::split')
    ck.touch(sp)
    t_d, n_d = sp.params[1]['d'], sp.params[2]['d']
    rets = [i for i in sp.walk() if sp.nodes[i]['k'] == 'ReturnStmt']

    def zero_of(d):
        def g(fact):
            h = holds(sp, fact)
            if not h:
                return False
            a, rel, b = h
            return (rel == '!=' and ((declref(sp, a, d) is not None and const_value(sp, b) == 0) or (declref(sp, b, d) is not None and const_value(sp, a) == 0))) or \
                   (rel in ('>', '>=') and declref(sp, a, d) is not None and const_value(sp, b) in (0, 1) and (rel == '>' or const_value(sp, b) == 1))
        return g

    def g_le(fact):
        h = holds(sp, fact)
        if not h:
            return False
        a, rel, b = h
        return (rel == '<=' and declref(sp, a, t_d) is not None and declref(sp, b, n_d) is not None) or \
               (rel == '>=' and declref(sp, a, n_d) is not None and declref(sp, b, t_d) is not None)
    fails, _ = gate_check(sp, [('return', r) for r in rets], [('threshold!=0', zero_of(t_d)), ('share_count!=0', zero_of(n_d)), ('threshold<=share_count', g_le)])
    bad = {g for _e, g, _n, _p, _c in fails}
    for g in ('threshold!=0', 'share_count!=0', 'threshold<=share_count'):
        ck.ob('C10.split', 'C10.split/' + g, g not in bad, sp.loc(), 'split returns shares only past ' + g)
    # index loop: for (T i = 1; i <= share_count; ++i) { share.index = i; shares.push_back(share); }
    idx_ok = False
    for lp in loops(sp):
        nd = sp.nodes[lp]
        if nd['k'] != 'ForStmt':
            continue
        c = comparison(sp, nd.get('cond')) if nd.get('cond') is not None else None
        if not c or c[0] != '<=' or declref(sp, c[2], n_d) is None:
            continue
        iv = declref(sp, c[1])
        if iv is None:
            continue
        defs = all_defs(sp, iv)
        init1 = [x for x in defs if x[0] == 'init' and const_value(sp, x[1]) == 1]
        incs = [x for x in defs if x[0] == 'other' and sp.nodes[x[2]].get('op') == '++']
        if len(init1) != 1 or len(incs) != 1 or len(defs) != 2:
            continue
        body = nd.get('body')
        pushes = [i for i in sp.walk(body) if sp.nodes[i].get('callee', '').endswith('::push_back')]
        if len(pushes) != 1 or any(sp.nodes[a]['k'] in ('IfStmt', 'ForStmt', 'WhileStmt', 'CXXForRangeStmt') for a in sp.ancestors(pushes[0]) if sp.is_in(a, body)):
            continue
        tmp = declref(sp, sp.call_args(pushes[0])[0])
        fa = field_assigns(sp, tmp) if tmp is not None else {}
        a = fa.get(IDX, [])
        if len(a) == 1 and any(sp.nodes[j]['k'] == 'DeclRefExpr' and sp.nodes[j].get('d') == iv for j in origin_chain(sp, a[0][0])):
            idx_ok = True
    ck.ob('C10.split', 'C10.split/indices-1..n', idx_ok, sp.loc(),
          'one share is appended per iteration of a loop counting from 1 to share_count, with index = the counter (distinct, non-zero)')
    # coefficients: threshold-1 random bytes per secret byte; evaluate_polynomial(share.index, secret[byte], coefficients)
    coef_ok = False
    rnd_ok = False
    for lp in loops(sp):
        nd = sp.nodes[lp]
        if nd['k'] != 'ForStmt':
            continue
        c = comparison(sp, nd.get('cond')) if nd.get('cond') is not None else None
        if not c or c[0] != '<' or declref(sp, c[2], t_d) is None:
            continue
        iv = declref(sp, c[1])
        defs = all_defs(sp, iv) if iv is not None else []
        if not ([x for x in defs if x[0] == 'init' and const_value(sp, x[1]) == 1] and len(defs) == 2):
            continue
        pushes = [i for i in sp.walk(nd.get('body')) if sp.nodes[i].get('callee', '').endswith('::push_back')]
        if len(pushes) == 1:
            # fresh coefficients for every secret byte: the coefficient vector is declared, and filled, inside the loop over
            # the secret's bytes (a polynomial reused across bytes leaks secret[b] ^ secret[0] from a single share)
            cvec = declref(sp, sp.receiver(pushes[0]))
            from sa.paths import var_decl
            byte_loops = [l for l in loops(sp) if sp.nodes[l]['k'] == 'ForStmt' and l != lp and sp.is_in(lp, l) and
                          any(sp.nodes[j]['k'] == 'DeclRefExpr' and sp.nodes[j].get('d') == sp.params[0]['d'] for j in sp.walk(sp.nodes[l].get('cond')))]
            vd = var_decl(sp, cvec) if cvec is not None else None
            coef_ok = bool(byte_loops) and vd is not None and sp.is_in(vd, sp.nodes[byte_loops[0]]['body'])
            srcs = value_sources(sp, sp.call_args(pushes[0])[0])
            rnd_ok = any('random_device::operator()' in sp.nodes[j].get('callee', '') or 'uniform_int_distribution' in sp.nodes[j].get('callee', '')
                         for j in srcs)
    ck.ob('C10.split', 'C10.split/threshold-1-coefficients', coef_ok, sp.loc(),
          'each secret byte gets its own threshold-1 coefficients: the vector is declared and filled (degree = 1 .. threshold-1, one push_back each) inside the loop over the secret bytes')
    ck.ob('C10.split', 'C10.split/coefficients-random', rnd_ok, sp.loc(), 'every coefficient is drawn from std::random_device')
    ev = sp.calls(NS + '(anonymous namespace)::evaluate_polynomial')
    ck.floor('C10.split', 'evaluate_polynomial call in split', len(ev), 1)
    a = sp.call_args(ev[0])
    secret_d = sp.params[0]['d']
    ev_ok = member_on(sp, a[0], IDX) and any(sp.nodes[j]['k'] == 'DeclRefExpr' and sp.nodes[j].get('d') == secret_d for j in sp.walk(a[1])) and \
        'coefficients' in sp.text(a[2])
    ck.ob('C10.split', 'C10.split/evaluate-args', ev_ok, sp.loc(ev[0]),
          'share.value[byte] = evaluate_polynomial(share.index, secret[byte], coefficients): the secret byte is the constant term')
    # evaluate_polynomial: result starts at the constant, power accumulates x
    ep = P.fn(NS + '(anonymous namespace)::evaluate_polynomial')
    ck.touch(ep)
    res_init = False
    for i in ep.walk():
        nd = ep.nodes[i]
        if nd['k'] == 'VarDecl' and nd.get('n') == 'result' and 'init' in nd:
            res_init = declref(ep, nd['init'], ep.params[1]['d']) is not None
    ck.ob('C10.split', 'C10.split/poly-constant-term', res_init, ep.loc(), 'evaluate_polynomial starts from the constant term (p(0) = secret byte)')

    # ---- N1: memory safety and termination of split / combine for every secret, threshold and share count ---------------------------
    from sa.absint2 import Analyzer, summarize, report
    from sa.lin import Lin
    SH = 'ephemeralnet::crypto::'
    sites, info = {}, {'throws': []}
    reads = {'exp': [0, None], 'log': [0, None]}
    for entry in ('Shamir::split', 'Shamir::combine'):
        an = Analyzer(P, inline=lambda q: q.startswith(SH))
        an.watch_index = lambda b: b.startswith(('buf_exp_table', 'buf_log_table'))
        an.run(P.fn(SH + entry))
        info['throws'] += an.throws
        for key, e in summarize(an).items():
            cur = sites.get(key)
            if cur is None:
                sites[key] = e
            else:
                cur['n'] += e['n']
                cur['failed'] += e['failed']
        # the power table is filled for exponents 0..254 (and mirrored above); the log table has no entry for 0:
        # every read must stay inside what the field arithmetic defines
        for r in an.index_log:
            which = 'exp' if r['buf'].startswith('buf_exp_table') else 'log'
            reads[which][0] += 1
            idx, st = r['idx'], r['state']
            ok = isinstance(idx, Lin) and (st.cons.entails_le(idx - 509) and st.cons.entails_le(-idx) if which == 'exp' else st.cons.entails_le(Lin.const(1) - idx))
            if which == 'exp' and ok and r['fn'].q.endswith(('gf_mul', 'gf_div')):
                ok = st.cons.entails_le(idx - 254)
            if not ok and reads[which][1] is None:
                reads[which][1] = (r['fn'], r['node'], idx)
    for which, text in (('exp', 'gf_mul / gf_div read the power table only at exponents 0..254 (the range build_exp_table fills from the generator)'),
                        ('log', 'the log table is never read at index 0 (log 0 is undefined; zero operands are handled before the lookup)')):
        n_, bad_ = reads[which]
        ck.ob('C10.table', 'C10.table/%s-read-range' % which, bad_ is None and n_ > 0, bad_[0].loc(bad_[1]) if bad_ else '',
              '%s (%d read states%s)' % (text, n_, '' if bad_ is None else '; index %r not in range' % (bad_[2],)))
    report(ck, 'C10', sites)
    # no state survives a call: the tables are const statics, nothing else is static / thread_local
    for f in P.fns:
        if not f.file.endswith('Shamir.cpp'):
            continue
        st_ = [i for i in f.walk() if f.nodes[i]['k'] == 'VarDecl' and f.nodes[i].get('static') and not f.nodes[i].get('const') and not f.nodes[i].get('constexpr')]
        if st_ or f.q.endswith(('split', 'combine', 'interpolate', 'gf_div', 'gf_mul', 'evaluate_polynomial')):
            ck.ob('C10.pure', 'C10.pure/' + f.q.split('::')[-1], not st_, f.loc(st_[0]) if st_ else f.loc(),
                  '%s keeps no mutable static / thread_local state between calls%s' % (f.q.split('::')[-1], (' — found `%s`' % f.nodes[st_[0]].get('n')) if st_ else ''))
    ck.floor('C10.bound', 'memory-access obligations in Shamir split/combine and the GF(256) helpers', len([1 for e in sites.values() if e['kind'] == 'bound']), 25)
    ck.floor('C10.loop', 'loops in Shamir split/combine and the GF(256) helpers', len([1 for e in sites.values() if e['kind'] == 'loop']), 10)
    bad = sorted({t for _f, _n, t in info['throws'] if t != 'std::invalid_argument'})
    ck.ob('C10.throw', 'C10.throw/typed', not bad, '', 'split and combine refuse bad parameters with std::invalid_argument only (other thrown types: %s)' % (bad or 'none'))

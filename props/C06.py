"""C06 — provider lookups return exactly the live, non-withdrawn providers."""
from sa.paths import gate_check, Cfg
from sa.flow import origin_chain, field_accesses, value_sources, all_defs
from sa.match import holds, const_value, comparison
from sa.build import AnalysisBroken
from props.common import rx, expired_fact, is_now, is_expiry_field

UNITS = ['src/dht/KademliaTable.cpp']
LEVEL = 'other'
EXPLANATION = (
    'Effect enumeration on KademliaTable: every mutation of ChunkLocator::holders and of table_ is one of the '
    'accepted forms — (a) erase(remove_if(pred)) whose predicate only tests the element\'s own expiry (expired(x, now) '
    '<=> now >= x.expires_at) or its id against the withdrawn / re-announced provider; (b) push_back of the announced '
    'contact; (c) sort by expires_at descending followed by resize(kMaxProviders), kMaxProviders == 20, only when '
    'size() > kMaxProviders; (d) table_.erase on a guard implying holders.empty(), or on the locator deadline provided '
    'every write of ChunkLocator::expires_at is a max-join with its previous value (so the deadline is never earlier '
    'than any live provider\'s). find_providers returns holders only after the expired-filter; the contact\'s expiry is '
    'now + ttl.')
ASSUMPTIONS = ['the set equality "exactly the peers whose most recent announcement has not expired" over all histories is not '
               'computed; decided is that no site can remove a live provider or return an expired one']

KT = 'ephemeralnet::KademliaTable::'
LOC = 'ephemeralnet::ChunkLocator::'
PC = 'ephemeralnet::PeerContact::'
ANON = 'ephemeralnet::(anonymous namespace)::'


def pred_kind(P, lam):
    """Classify a remove_if predicate lambda: 'expired', 'id-equals', or None."""
    rets = [i for i in lam.walk() if lam.nodes[i]['k'] == 'ReturnStmt']
    if len(rets) != 1:
        return None
    e = lam.strip(lam.kids(rets[0])[0])
    nd = lam.nodes[e]
    par = lam.params[0]['d']
    if nd.get('callee') == ANON + 'expired':
        a = lam.call_args(e)
        if lam.nodes[lam.strip(a[0])].get('d') == par and is_now(lam, a[1]):
            return 'expired'
        return None
    c = comparison(lam, e)
    if c and c[0] == '==':
        sides = [lam.strip(c[1]), lam.strip(c[2])]
        ids = [s for s in sides if lam.nodes[s].get('m') == PC + 'id']
        if ids and any(lam.nodes[lam.strip(lam.kids(s)[0])].get('d') == par for s in ids):
            return 'id-equals'
    if c and c[0] in ('>=', '<='):
        # now >= x.expires_at written inline
        op, a, b = c
        if (op == '>=' and is_now(lam, a) and lam.nodes[lam.strip(b)].get('m') == PC + 'expires_at') or \
           (op == '<=' and is_now(lam, b) and lam.nodes[lam.strip(a)].get('m') == PC + 'expires_at'):
            return 'expired'
    return None


def run(ck):
    P = ck.prog(UNITS)
    ck.ob('C06.table', 'C06.table/kMaxProviders', P.global_const(ANON + 'kMaxProviders') == 20, '', 'kMaxProviders == 20')
    ex = P.fn(ANON + 'expired')
    ck.touch(ex)
    r = [i for i in ex.walk() if ex.nodes[i]['k'] == 'ReturnStmt']
    ok = False
    if len(r) == 1:
        c = comparison(ex, ex.kids(r[0])[0])
        if c:
            op, a, b = c
            ok = (op == '>=' and ex.nodes[ex.strip(a)].get('d') == ex.params[1]['d'] and ex.nodes[ex.strip(b)].get('m') == PC + 'expires_at') or \
                 (op == '<=' and ex.nodes[ex.strip(b)].get('d') == ex.params[1]['d'] and ex.nodes[ex.strip(a)].get('m') == PC + 'expires_at')
    ck.ob('C06.pred', 'C06.pred/expired', ok, ex.loc(), 'expired(contact, now) is exactly now >= contact.expires_at')

    # ---- holders mutations ---------------------------------------------------------------
    n_mut = 0
    holder_fns = set()
    for f in P.fns:
        if f.is_lambda:
            continue
        # locals bound by reference to <locator>.holders
        for i in f.walk():
            nd = f.nodes[i]
            if nd['k'] != 'CXXMemberCallExpr':
                continue
            recv = f.receiver(i)
            if recv is None:
                continue
            is_holders = any(f.nodes[j].get('m') == LOC + 'holders' for j in origin_chain(f, recv))
            if not is_holders:
                continue
            meth = nd['callee'].split('::')[-1]
            if nd.get('cconst') or meth in ('begin', 'end', 'size', 'empty'):
                continue
            n_mut += 1
            holder_fns.add(f.q)
            ck.touch(f)
            key = 'C06.holders/%s/%s#%d' % (f.name, meth, n_mut)
            if meth == 'erase':
                a = f.call_args(i)
                rms = [j for j in origin_chain(f, a[0]) if f.nodes[j].get('callee') == 'std::remove_if']
                ok = len(rms) == 1
                rm = rms[0] if ok else None
                kind = None
                if ok:
                    lam_nodes = [j for j in f.walk(rm) if f.nodes[j]['k'] == 'LambdaExpr']
                    ok = len(lam_nodes) == 1
                    if ok:
                        lam = P.fn(f.nodes[lam_nodes[0]]['fn'])
                        kind = pred_kind(P, lam)
                        ok = kind is not None
                ck.ob('C06.holders', key, ok, f.loc(i),
                      'holders.erase(remove_if(pred)): pred tests only the element\'s own expiry or its id (found: %s)' % kind)
            elif meth == 'push_back':
                a = f.strip(f.call_args(i)[0])
                ok = f.q == KT + 'add_contact' and f.nodes[a]['k'] == 'DeclRefExpr' and f.nodes[a].get('dk') == 'ParmVar'
                ck.ob('C06.holders', key, ok, f.loc(i), 'holders.push_back(announced contact) in add_contact only')
            elif meth == 'resize':
                ok = const_value(f, f.call_args(i)[0]) == 20

                def over(fact, f=f):
                    h = holds(f, fact)
                    if not h:
                        return False
                    a, rel, b = h
                    return rel == '>' and f.nodes[f.strip(a)].get('callee', '').endswith('::size') and const_value(f, b) == 20
                fails, _ = gate_check(f, [('resize', i)], [('size>20', over)])
                # preceded by sort with a descending comparator on expires_at
                sorts = f.calls('std::sort')
                desc = False
                for s in sorts:
                    for j in f.walk(s):
                        if f.nodes[j]['k'] == 'LambdaExpr':
                            lam = P.fn(f.nodes[j]['fn'])
                            rr = [x for x in lam.walk() if lam.nodes[x]['k'] == 'ReturnStmt']
                            c = comparison(lam, lam.kids(rr[0])[0]) if len(rr) == 1 else None
                            if c and c[0] == '>' and lam.nodes[lam.strip(c[1])].get('m') == PC + 'expires_at' and \
                                    lam.nodes[lam.strip(c[2])].get('m') == PC + 'expires_at' and \
                                    lam.nodes[lam.strip(lam.kids(lam.strip(c[1]))[0])].get('d') == lam.params[0]['d'] and \
                                    lam.nodes[lam.strip(lam.kids(lam.strip(c[2]))[0])].get('d') == lam.params[1]['d']:
                                desc = True
                cfg = Cfg.of(f)
                order = bool(sorts) and cfg.dominates(cfg.locate(sorts[0]), cfg.locate(i))
                ck.ob('C06.holders', key, ok and not fails and desc and order, f.loc(i),
                      'holders are cut to kMaxProviders only when larger, after sorting by expires_at descending (those expiring last are kept)')
            else:
                ck.ob('C06.holders', key, False, f.loc(i), 'unexpected mutation of ChunkLocator::holders: %s' % meth)
    ck.floor('C06.holders', 'mutations of ChunkLocator::holders', n_mut, 6)

    # ---- table_ erase ------------------------------------------------------------------------
    # all writes of ChunkLocator::expires_at are max-joins?
    maxjoin = True
    n_w = 0
    for f in P.fns:
        for i, m, w in field_accesses(f):
            if m == LOC + 'expires_at' and w:
                n_w += 1
                p = f.parent(i)
                while p is not None and f.nodes[p]['k'] in ('ParenExpr', 'ImplicitCastExpr'):
                    p = f.parent(p)
                pn = f.nodes[p] if p is not None else {}
                rhs = None
                if pn.get('k') == 'CXXOperatorCallExpr' and pn.get('op') == '=':
                    rhs = f.kids(p)[2]
                elif pn.get('k') == 'BinaryOperator' and pn.get('op') == '=':
                    rhs = f.kids(p)[1]
                ok = False
                if rhs is not None:
                    r_ = f.strip(rhs)
                    if f.nodes[r_].get('callee') == 'std::max':
                        ok = any(f.nodes[f.strip(a)].get('m') == LOC + 'expires_at' for a in f.call_args(r_))
                if not ok:
                    maxjoin = False
    n_er = 0
    for f in P.fns:
        for c in f.calls(rx(r'unordered_map<.*ChunkLocator.*::erase$')):
            n_er += 1
            ck.touch(f)

            def empty_gate(fact, f=f):
                kind, node, val = fact
                nd = f.nodes[node]
                if kind == 'bool' and val is True and nd.get('callee', '').endswith('::empty'):
                    r_ = f.receiver(node)
                    return r_ is not None and any(f.nodes[j].get('m') == LOC + 'holders' for j in origin_chain(f, r_))
                return False

            def deadline_gate(fact, f=f):
                if not maxjoin:
                    return False
                h = holds(f, fact)
                if not h:
                    return False
                a, rel, b = h
                return (rel == '>=' and is_now(f, a) and f.nodes[f.strip(b)].get('m') == LOC + 'expires_at') or \
                       (rel == '<=' and is_now(f, b) and f.nodes[f.strip(a)].get('m') == LOC + 'expires_at')
            fails, _ = gate_check(f, [('erase', c)], [('holders.empty or max-joined deadline', lambda x: empty_gate(x) or deadline_gate(x))])
            ck.ob('C06.table', 'C06.table/%s/erase#%d' % (f.name, n_er), not fails, f.loc(c),
                  'a locator is dropped only when it has no holders left, or at a deadline that is the maximum over its '
                  'announcements (writes of ChunkLocator::expires_at max-joined: %s, %d write(s))' % (maxjoin, n_w),
                  fails[0][3] if fails else None)
    ck.floor('C06.table', 'table_.erase sites', n_er, 3)

    # ---- find_providers returns filtered holders --------------------------------------------
    fp = P.fn(KT + 'find_providers')
    ck.touch(fp)
    rets = [i for i in fp.walk() if fp.nodes[i]['k'] == 'ReturnStmt' and
            any(fp.nodes[j].get('m') == LOC + 'holders' or fp.nodes[j].get('n') == 'holders' for j in fp.walk(i))]
    erases = [c for c in fp.calls(rx(r'vector<.*PeerContact.*::erase$'))]
    cfg = Cfg.of(fp)
    ok = bool(rets) and len(erases) == 1 and all(cfg.dominates(cfg.locate(erases[0]), cfg.locate(r)) for r in rets)
    ck.ob('C06.find', 'C06.find/filter-before-return', ok, fp.loc(), 'find_providers returns holders only after removing expired contacts')
    ck.floor('C06.find', 'holder-bearing returns of find_providers', len(rets), 1)
    # add_contact: contact.expires_at = now + ttl
    ac = P.fn(KT + 'add_contact')
    ck.touch(ac)
    ok = False
    for i in ac.walk():
        nd = ac.nodes[i]
        if nd['k'] == 'CXXOperatorCallExpr' and nd.get('op') == '=' and ac.nodes[ac.strip(ac.kids(i)[1])].get('m') == PC + 'expires_at':
            srcs = value_sources(ac, ac.kids(i)[2])
            ok = any(ac.nodes[j].get('callee') == 'std::chrono::steady_clock::now' for j in srcs) and \
                any(ac.nodes[j].get('op') == '+' for j in srcs) and \
                any(ac.nodes[j]['k'] == 'DeclRefExpr' and ac.nodes[j].get('d') == ac.params[2]['d'] for j in srcs)
    ck.ob('C06.find', 'C06.find/contact-expiry', ok, ac.loc(), 'add_contact sets contact.expires_at = steady_clock::now() + ttl')
    # the most recent announcement supersedes the earlier one on EVERY path: no exit of add_contact before the stale entry of the
    # same peer was erased and the new contact pushed
    cfg = Cfg.of(ac)
    erases = [i for i in ac.walk() if (ac.nodes[i].get('callee') or '').endswith('::erase') and
              ac.nodes[ac.strip(ac.receiver(i))].get('k') in ('DeclRefExpr', 'MemberExpr')] if hasattr(ac, 'receiver') else []
    pushes = [i for i in ac.walk() if (ac.nodes[i].get('callee') or '').endswith('::push_back')]
    for what, sites in (('erase-previous', erases), ('push-new', pushes)):
        wit = cfg.must_pass_from((cfg.entry, -1), lambda e, s_=set(sites): e in s_) if sites else ['no such statement']
        ck.ob('C06.supersede', 'C06.supersede/' + what, wit is None, ac.loc(),
              'every call of add_contact reaches the %s step (an early return would leave the peer\'s stale announcement in force)' % what, wit)
    # ... and the expiry of the announced contact is (re)computed from this announcement's TTL on every path
    stamp = [i for i in ac.walk() if ac.nodes[i]['k'] == 'CXXOperatorCallExpr' and ac.nodes[i].get('op') == '=' and
             ac.nodes[ac.strip(ac.kids(i)[1])].get('m') == PC + 'expires_at']
    wit = cfg.must_pass_from((cfg.entry, -1), lambda e, s_=set(stamp): e in s_ or any(ac.is_in(x, e) for x in s_) and ac.nodes[e]['k'] == 'ExprWithCleanups') if stamp else ['no assignment']
    ck.ob('C06.supersede', 'C06.supersede/expiry-from-this-ttl', wit is None, ac.loc(),
          'every call of add_contact stamps contact.expires_at = now + ttl (an expiry carried in by the caller must not survive)', wit)

    # ---- one locator per chunk id: the provider map is keyed by the full id (chunk_id_to_string of the chunk_id parameter) --------------
    # (a shortened or lossy key merges the provider lists of different chunks: lookups return, and withdrawals remove, another chunk's providers)
    nkey = 0
    for f in P.fns:
        if not f.q.startswith(KT):
            continue
        for i in f.walk():
            nd = f.nodes[i]
            c = nd.get('callee') or ''
            key_arg = None
            if nd['k'] == 'CXXOperatorCallExpr' and nd.get('op') == '[]' and any(f.nodes[j]['k'] == 'MemberExpr' and f.nodes[j].get('m') == KT + 'table_' for j in f.walk(f.kids(i)[1])):
                key_arg = f.kids(i)[2]
            elif nd['k'] == 'CXXMemberCallExpr' and c.split('::')[-1] in ('find', 'erase', 'at', 'count', 'contains', 'try_emplace', 'emplace', 'insert_or_assign') and \
                    f.receiver(i) is not None and f.nodes[f.strip(f.receiver(i))].get('m') == KT + 'table_' and f.call_args(i):
                a0 = f.call_args(i)[0]
                if 'iterator' in (f.nodes[f.strip(a0)].get('t') or ''):
                    continue
                key_arg = a0
            if key_arg is None:
                continue
            nkey += 1
            ck.touch(f)
            calls = [j for x in origin_chain(f, key_arg) for j in f.walk(x) if f.nodes[j]['k'] == 'CallExpr']
            ok_k = len(calls) >= 1 and all((f.nodes[j].get('callee') or '').endswith('chunk_id_to_string') for j in calls) and \
                any(f.nodes[x]['k'] == 'DeclRefExpr' and f.nodes[x].get('dk') == 'ParmVar' for j in calls for x in f.walk(j))
            ck.ob('C06.key', 'C06.key/%s#%d' % (f.name.split('::')[-1], nkey), ok_k, f.loc(i),
                  'table_ is indexed by chunk_id_to_string(<chunk id parameter>) — the full, fixed-width id')
    ck.floor('C06.key', 'keyed accesses to the provider map', nkey, 3)

    # ---- expiry is compared with the clock as it reads: `now` is steady_clock::now() itself, not rounded to coarser units ------------------------------
    n_now = 0
    for f in P.fns:
        if not f.q.startswith(KT):
            continue
        for i in f.walk():
            nd = f.nodes[i]
            if nd['k'] == 'VarDecl' and nd.get('n') == 'now' and nd.get('init') is not None and nd['init'] >= 0:
                n_now += 1
                ck.touch(f)
                raw = f.nodes[f.strip(nd['init'])].get('callee') == 'std::chrono::steady_clock::now'
                ck.ob('C06.find', 'C06.find/exact-clock/%s' % f.name.split('::')[-1], raw, f.loc(i),
                      '%s measures expiry against steady_clock::now() itself (rounding the reference time up removes providers before their deadline)' % f.name)
    ck.floor('C06.find', 'reference-time locals in KademliaTable', n_now, 2)

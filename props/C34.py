"""C34 — auto-advertise never publishes non-routable addresses unless allowed."""
import itertools

from sa.paths import gate_check
from sa.flow import origin_chain
from sa.match import comparison, const_value, holds
from sa.build import AnalysisBroken
from props.common import declref, literal_text

UNITS = ['src/network/AdvertiseDiscovery.cpp', 'src/core/Node.cpp']
LEVEL = 'other'
EXPLANATION = (
    'R-GATE: in both candidate builders the insertion into result.candidates is unreachable unless advertise_allow_private is set '
    'or is_private_or_reserved_host(host) is false. Classifier decided by region enumeration (no repo code is run): the IPv4 '
    'classifier only compares octets with constants, so its decision is constant on each cell of the partition induced by those '
    'constants and the required CIDR bounds; every cell inside 0/8, 10/8, 100.64/10, 127/8, 169.254/16, 172.16/12, 192.0.2/24, '
    '192.168/16, 198.18/15, 198.51.100/24, 203.0.113/24 and 224/3 must evaluate to "reserved". IPv6: the prefix table must '
    'contain ::, ::1, fc/fd, fe8-feb, 2001:db8, ff, and IPv4-mapped / -compatible forms must reach the IPv4 classifier. '
    'Publication sites in Node: refresh_advertised_endpoints adds non-manual endpoints only from the filtered discovery result, '
    'never when the mode is Off and only when mode == On or there is no conflict; preferred_control_endpoints (source of manifest '
    'hints) appends non-manual endpoints only past mode != Off, not (Warn and conflict), and allow_private or not reserved.')
ASSUMPTIONS = ['DNS names that resolve to private addresses are not decided',
               'addresses are given in canonical text form (the property\'s precondition)']

NET = 'ephemeralnet::network::'
ANON = NET + '(anonymous namespace)::'
CFG = 'ephemeralnet::Config::'
REQUIRED_V4 = {
    '0.0.0.0/8': [(0, 0), (0, 255), (0, 255)], '10.0.0.0/8': [(10, 10), (0, 255), (0, 255)], '100.64.0.0/10': [(100, 100), (64, 127), (0, 255)],
    '127.0.0.0/8': [(127, 127), (0, 255), (0, 255)], '169.254.0.0/16': [(169, 169), (254, 254), (0, 255)],
    '172.16.0.0/12': [(172, 172), (16, 31), (0, 255)], '192.0.2.0/24': [(192, 192), (0, 0), (2, 2)], '192.168.0.0/16': [(192, 192), (168, 168), (0, 255)],
    '198.18.0.0/15': [(198, 198), (18, 19), (0, 255)], '198.51.100.0/24': [(198, 198), (51, 51), (100, 100)],
    '203.0.113.0/24': [(203, 203), (0, 0), (113, 113)], '224.0.0.0/3': [(224, 255), (0, 255), (0, 255)],
}
REQUIRED_V6_PREFIXES = ['fc', 'fd', 'fe8', 'fe9', 'fea', 'feb', '2001:db8', 'ff']
REQUIRED_V6_EXACT = ['::', '::1']


class Unsupported(Exception):
    pass


def eval_expr(fn, n, octets, param_d):
    n = fn.strip(n, casts=True)
    nd = fn.nodes[n]
    k = nd['k']
    if 'cv' in nd and k not in ('DeclRefExpr', 'MemberExpr'):
        return int(nd['cv'])
    if k == 'CXXOperatorCallExpr' and nd.get('op') == '[]':
        ks = fn.kids(n)
        if declref(fn, ks[1], param_d) is None:
            raise Unsupported(fn.text(n))
        idx = const_value(fn, ks[2])
        if idx is None:
            raise Unsupported(fn.text(n))
        return octets[idx]
    if k == 'BinaryOperator':
        op = nd['op']
        a, b = fn.kids(n)
        if op == '&&':
            return bool(eval_expr(fn, a, octets, param_d)) and bool(eval_expr(fn, b, octets, param_d))
        if op == '||':
            return bool(eval_expr(fn, a, octets, param_d)) or bool(eval_expr(fn, b, octets, param_d))
        x, y = eval_expr(fn, a, octets, param_d), eval_expr(fn, b, octets, param_d)
        if op == '==':
            return x == y
        if op == '!=':
            return x != y
        if op == '<':
            return x < y
        if op == '<=':
            return x <= y
        if op == '>':
            return x > y
        if op == '>=':
            return x >= y
        if op == '&':
            return x & y
        if op == '|':
            return x | y
        if op == '>>':
            return x >> y
    if k == 'UnaryOperator' and nd.get('op') == '!':
        return not eval_expr(fn, fn.kids(n)[0], octets, param_d)
    raise Unsupported('%s (%s)' % (fn.text(n), k))


def eval_stmt(fn, n, octets, param_d):
    """Returns True/False when the statement returns, None when it falls through."""
    nd = fn.nodes[n]
    k = nd['k']
    if k == 'CompoundStmt':
        for c in fn.kids(n):
            r = eval_stmt(fn, c, octets, param_d)
            if r is not None:
                return r
        return None
    if k == 'IfStmt':
        if eval_expr(fn, nd['cond'], octets, param_d):
            return eval_stmt(fn, nd['then'], octets, param_d)
        if nd.get('else') is not None and nd['else'] >= 0:
            return eval_stmt(fn, nd['else'], octets, param_d)
        return None
    if k == 'ReturnStmt':
        return bool(eval_expr(fn, fn.kids(n)[0], octets, param_d))
    if k in ('NullStmt',):
        return None
    if k in ('CStyleCastExpr', 'CXXStaticCastExpr', 'ParenExpr') and all(fn.nodes[j]['k'] in ('CStyleCastExpr', 'CXXStaticCastExpr', 'ParenExpr', 'IntegerLiteral', 'ImplicitCastExpr')
                                                                         for j in fn.walk(n)):
        return None          # `(void)0;` — an expression statement without effect
    raise Unsupported('statement %s at %s' % (k, fn.loc(n)))


def run(ck):
    P = ck.prog(['src/network/AdvertiseDiscovery.cpp'])
    # ---- R-GATE in the two candidate builders -------------------------------------------------------
    n_push = 0
    for outer in (NET + 'discover_control_advertise_candidates', NET + 'build_transport_advertise_candidates'):
        of = P.fn(outer)
        for f in P.with_lambdas(of):
            pushes = [i for i in f.walk() if f.nodes[i].get('callee', '').endswith('::push_back') and
                      any(f.nodes[j].get('m', '').endswith('AdvertiseDiscoveryResult::candidates') for j in f.walk(f.kids(i)[0]))]
            if not pushes:
                continue
            ck.touch(f)
            n_push += len(pushes)
            host_d = f.params[0]['d'] if f.params else None

            def g(fact, f=f, host_d=host_d):
                kind, node, val = fact
                nd = f.nodes[node]
                if kind != 'bool':
                    return False
                if val is True and nd['k'] == 'DeclRefExpr' and nd.get('n') == 'allow_private':
                    return True
                if val is True and nd['k'] == 'MemberExpr' and nd.get('m') == CFG + 'advertise_allow_private':
                    return True
                if val is False and nd.get('callee', '').endswith('is_private_or_reserved_host'):
                    return declref(f, f.call_args(node)[0], host_d) is not None
                return False
            fails, _ = gate_check(f, [('candidate', p) for p in pushes], [('private-filter', g)])
            for p in pushes:
                bad = [x for x in fails if x[2] == p]
                # the pushed candidate's host is the filtered host
                ck.ob('C34.gate', 'C34.gate/%s' % f.name, not bad, f.loc(p),
                      'a candidate is added only when private advertising is allowed or is_private_or_reserved_host(host) is false',
                      bad[0][3] if bad else None)
            # allow_private local really is the configuration flag
            for i in f.walk():
                pass
        ap = [i for i in of.walk() if of.nodes[i]['k'] == 'VarDecl' and of.nodes[i].get('n') == 'allow_private']
        ok = len(ap) == 1 and of.nodes[of.strip(of.nodes[ap[0]]['init'])].get('m') == CFG + 'advertise_allow_private'
        ck.ob('C34.gate', 'C34.gate/%s/allow_private-source' % of.name, ok, of.loc(), 'allow_private is config.advertise_allow_private')
    ck.floor('C34.gate', 'candidate insertions', n_push, 2)

    # ---- IPv4 classifier by region enumeration ----------------------------------------------------------
    v4 = P.fn(ANON + 'is_private_or_reserved_ipv4')
    ck.touch(v4)
    pd = v4.params[0]['d']
    consts = [set([0, 255]) for _ in range(4)]
    for i in v4.walk():
        c = comparison(v4, i)
        if c:
            for x, y in ((c[1], c[2]), (c[2], c[1])):
                xn = v4.nodes[v4.strip(x)]
                if xn['k'] == 'CXXOperatorCallExpr' and xn.get('op') == '[]':
                    idx = const_value(v4, v4.kids(v4.strip(x))[2])
                    cv = const_value(v4, y)
                    if idx is not None and cv is not None:
                        consts[idx] |= {max(0, cv - 1), cv, min(255, cv + 1)}
    for rng in REQUIRED_V4.values():
        for k, (lo, hi) in enumerate(rng):
            consts[k] |= {lo, hi, max(0, lo - 1), min(255, hi + 1)}
    # an octet that takes part in bit arithmetic is not decided by interval cells: enumerate it completely
    for i in v4.walk():
        if v4.nodes[i]['k'] == 'BinaryOperator' and v4.nodes[i].get('op') in ('&', '|', '^', '>>', '<<', '%', '/', '+', '-'):
            for j in v4.walk(i):
                jn = v4.nodes[j]
                if jn['k'] == 'CXXOperatorCallExpr' and jn.get('op') == '[]':
                    idx = const_value(v4, v4.kids(j)[2])
                    if idx is not None and idx < 4:
                        consts[idx] |= set(range(256))
    cells = 0
    try:
        for name, rng in sorted(REQUIRED_V4.items()):
            pts = [sorted(v for v in consts[k] if rng[k][0] <= v <= rng[k][1]) for k in range(3)]
            missed = []
            for o in itertools.product(*pts):
                cells += 1
                r = eval_stmt(v4, v4.body, (o[0], o[1], o[2], 1), pd)
                if not r:
                    missed.append('%d.%d.%d.x' % o)
            ck.ob('C34.v4', 'C34.v4/' + name, not missed, v4.loc(),
                  'every address of %s is classified private/reserved (uncovered cells: %s)' % (name, missed[:4]))
    except Unsupported as e:
        raise AnalysisBroken('IPv4 classifier uses a construct outside the comparison fragment: %s' % e)
    ck.extra['v4_cells_evaluated'] = cells
    # the host classifier applies it to every dotted-quad host
    hc = P.fn(NET + 'is_private_or_reserved_host', optional=True) or P.fn(ANON + 'is_private_or_reserved_host')
    ck.touch(hc)
    calls4 = [i for i in hc.walk() if hc.nodes[i].get('callee') == ANON + 'is_private_or_reserved_ipv4']
    parse = [i for i in hc.walk() if hc.nodes[i].get('callee') == ANON + 'parse_ipv4']
    ok = len(calls4) >= 1 and len(parse) >= 1 and declref(hc, hc.call_args(parse[0])[0], hc.params[0]['d']) is not None
    ck.ob('C34.v4', 'C34.v4/host-dispatch', ok, hc.loc(), 'a host that parses as dotted quad is classified by is_private_or_reserved_ipv4')
    lits = {hc.nodes[i].get('s') for i in hc.walk() if hc.nodes[i]['k'] == 'StringLiteral'}
    ck.ob('C34.v4', 'C34.v4/localhost', 'localhost' in lits, hc.loc(), '"localhost" is classified as private')
    empties = any(hc.nodes[i].get('callee', '').endswith('::empty') for i in hc.walk())
    ck.ob('C34.v4', 'C34.v4/empty-host', empties, hc.loc(), 'an empty host is classified as private')
    v6call = [i for i in hc.walk() if hc.nodes[i].get('callee') == ANON + 'is_private_or_reserved_ipv6']
    ck.ob('C34.v6', 'C34.v6/host-dispatch', bool(v6call), hc.loc(), 'a host containing a colon is classified by is_private_or_reserved_ipv6')

    # ---- IPv6 prefix table ----------------------------------------------------------------------------------
    v6 = P.fn(ANON + 'is_private_or_reserved_ipv6')
    ck.touch(v6)
    prefixes = set()
    exact = set()
    for i in v6.walk():
        nd = v6.nodes[i]
        if nd.get('callee', '').endswith('::rfind') or nd.get('callee', '').endswith('::starts_with'):
            a = v6.call_args(i)
            lit = literal_text(v6, a[0])
            # the call must be the `== 0` / starts_with form leading to return true
            if lit is not None:
                prefixes.add(lit)
        if nd['k'] == 'CXXOperatorCallExpr' and nd.get('op') == '==':
            for x in v6.kids(i)[1:]:
                lit = literal_text(v6, x)
                if lit is not None:
                    exact.add(lit)
    for p in REQUIRED_V6_PREFIXES:
        ck.ob('C34.v6', 'C34.v6/prefix-' + p, any(p.startswith(q) for q in prefixes if q), v6.loc(),
              'IPv6 addresses starting with "%s" are classified private/reserved (prefix table: %s)' % (p, sorted(prefixes)))
    for e in REQUIRED_V6_EXACT:
        ck.ob('C34.v6', 'C34.v6/exact-' + e, e in exact, v6.loc(), 'the IPv6 address "%s" is classified private/reserved' % e)
    # every prefix test returns true (the table is not inverted)
    inv = [i for i in v6.walk() if v6.nodes[i]['k'] == 'ReturnStmt' and v6.nodes[v6.strip(v6.kids(i)[0])].get('cv') == '0']
    ck.ob('C34.v6', 'C34.v6/single-false-exit', len(inv) == 1, v6.loc(), 'the only `return false` of the IPv6 classifier is the final fall-through')
    mapped = any(v6.nodes[i].get('callee') == ANON + 'is_private_or_reserved_ipv4' for i in v6.walk()) and \
        any('::ffff:' in (v6.nodes[i].get('s') or '') for i in v6.walk() if v6.nodes[i]['k'] == 'StringLiteral')
    ck.ob('C34.v6', 'C34.v6/ipv4-mapped', mapped, v6.loc(),
          'IPv4-mapped IPv6 addresses (::ffff:a.b.c.d) are handed to the IPv4 classifier')

    # ---- publication sites in Node ------------------------------------------------------------------------------
    PN = ck.prog(['src/core/Node.cpp'])
    N = 'ephemeralnet::Node::'
    rf = PN.fn(N + 'refresh_advertised_endpoints')
    ck.touch(rf)

    def mode_is(f, fact, which, val):
        h = holds(f, fact)
        if not h:
            return False
        a, rel, b = h
        is_mode = lambda n: f.nodes[f.strip(n)].get('m') == CFG + 'advertise_auto_mode'
        is_enum = lambda n: f.nodes[f.strip(n)].get('n') == which and f.nodes[f.strip(n)].get('dk') == 'EnumConstant'
        want = '==' if val else '!='
        return rel == want and ((is_mode(a) and is_enum(b)) or (is_mode(b) and is_enum(a)))
    for f in PN.with_lambdas(rf):
        pushes = [i for i in f.walk() if f.nodes[i].get('callee', '').endswith('::push_back') and
                  any(f.nodes[j].get('m') == CFG + 'advertised_endpoints' for j in f.walk(f.kids(i)[0]))]
        for p in pushes:
            ck.touch(f)
            # source: the lambda's candidate parameter; call sites of the lambda pass discovery.candidates elements / selection thereof
            ck.ob('C34.pub', 'C34.pub/refresh/%s' % f.name.split('::')[-1], f is not rf, f.loc(p),
                  'non-manual endpoints are added only through the append_endpoint helper')
    ae = [i for i in rf.walk() if rf.nodes[i]['k'] == 'CXXOperatorCallExpr' and rf.nodes[i].get('op') == '()' and
          rf.nodes[rf.strip(rf.kids(i)[1])].get('n') == 'append_endpoint']
    ck.floor('C34.pub', 'append_endpoint call sites in refresh_advertised_endpoints', len(ae), 2)

    def not_off(fact):
        return mode_is(rf, fact, 'Off', False)

    def promote(fact):
        kind, node, val = fact
        nd = rf.nodes[node]
        return kind == 'bool' and val is True and nd['k'] == 'DeclRefExpr' and nd.get('n') == 'promote_candidates'
    fails, _ = gate_check(rf, [('append_endpoint', i) for i in ae], [('mode!=Off', not_off), ('promote', promote)])
    bad = {g for _e, g, _n, _p, _c in fails}
    ck.ob('C34.pub', 'C34.pub/refresh/mode-off', 'mode!=Off' not in bad, rf.loc(), 'nothing auto-discovered is published when advertise_auto_mode == Off',
          next((p for _e, g, _n, p, _c in fails if g == 'mode!=Off'), None))
    ck.ob('C34.pub', 'C34.pub/refresh/promote', 'promote' not in bad, rf.loc(), 'candidates are published only when promote_candidates holds',
          next((p for _e, g, _n, p, _c in fails if g == 'promote'), None))
    # promote_candidates = (mode == On) || !conflict
    pc = [i for i in rf.walk() if rf.nodes[i]['k'] == 'VarDecl' and rf.nodes[i].get('n') == 'promote_candidates']
    okp = False
    if len(pc) == 1:
        e = rf.strip(rf.nodes[pc[0]]['init'])
        if rf.nodes[e].get('op') == '||':
            l, r = rf.kids(e)
            last = list(origin_chain(rf, l))[-1]
            cl = comparison(rf, last)
            exact_on = bool(cl) and cl[0] == '==' and \
                {rf.nodes[rf.strip(cl[1])].get('n'), rf.nodes[rf.strip(cl[2])].get('n')} == {'advertise_auto_mode', 'On'}
            okp = exact_on and \
                rf.nodes[rf.strip(r)].get('op') == '!' and any(rf.nodes[j].get('m') == CFG + 'auto_advertise_conflict' for j in rf.walk(r))
    ck.ob('C34.pub', 'C34.pub/refresh/promote-definition', okp, rf.loc(), 'promote_candidates is (mode == On) || !auto_advertise_conflict')
    # candidates passed to append_endpoint come from the filtered discovery result
    src_ok = True
    for i in ae:
        a = rf.kids(i)[2]
        srcs = [j for x in origin_chain(rf, a) for j in rf.walk(x)]
        if not any(rf.nodes[j]['k'] == 'DeclRefExpr' and rf.nodes[j].get('n') in ('discovery', 'candidate', 'inferred') for j in srcs):
            src_ok = False
    disc = [i for i in rf.walk() if rf.nodes[i]['k'] == 'VarDecl' and rf.nodes[i].get('n') == 'discovery']
    src_ok = src_ok and len(disc) == 1 and rf.nodes[rf.strip(rf.nodes[disc[0]]['init'])].get('callee') == NET + 'build_transport_advertise_candidates'
    ck.ob('C34.pub', 'C34.pub/refresh/source', src_ok, rf.loc(), 'published candidates are elements of build_transport_advertise_candidates(...)')

    pe = PN.fn(N + 'preferred_control_endpoints')
    ck.touch(pe)
    n_auto = 0
    for f in PN.with_lambdas(pe):
        calls = [i for i in f.walk() if f.nodes[i]['k'] == 'CXXOperatorCallExpr' and f.nodes[i].get('op') == '()' and
                 f.nodes[f.strip(f.kids(i)[1])].get('n') == 'append' and len(f.kids(i)) == 5]
        for c in calls:
            third = f.kids(c)[4]
            if const_value(f, third) == 1:
                continue                     # manual endpoint given by the operator
            tn = f.nodes[f.strip(third)]
            if tn['k'] == 'MemberExpr' and tn.get('n') == 'manual':
                # entries of config_.advertised_endpoints: filtered when they were added (refresh) or manual
                continue
            n_auto += 1
            ck.touch(f)
            host = f.kids(c)[2]

            def g_not_off(fact, f=f):
                kind, node, val = fact
                nd = f.nodes[node]
                if kind == 'bool' and val is False and nd['k'] == 'DeclRefExpr' and nd.get('n') == 'auto_publish_off':
                    return True
                return mode_is(f, fact, 'Off', False)

            def g_not_withheld(fact, f=f):
                kind, node, val = fact
                nd = f.nodes[node]
                return kind == 'bool' and val is False and nd['k'] == 'DeclRefExpr' and nd.get('n') == 'auto_publish_withheld'

            def g_filter(fact, f=f, host=host):
                kind, node, val = fact
                nd = f.nodes[node]
                if kind != 'bool':
                    return False
                if val is True and nd['k'] == 'MemberExpr' and nd.get('m') == CFG + 'advertise_allow_private':
                    return True
                if val is False and nd.get('callee', '').endswith('is_private_or_reserved_host'):
                    return f.text(f.call_args(node)[0]) == f.text(host)
                return False
            fails, _ = gate_check(f, [('append auto endpoint', c)], [('mode!=Off', g_not_off), ('not-withheld', g_not_withheld), ('private-filter', g_filter)])
            badg = sorted({g for _e, g, _n, _p, _c in fails})
            ck.ob('C34.pub', 'C34.pub/hints/%s#%d' % (f.name.split('::')[-1], c), not fails, f.loc(c),
                  'a non-manual endpoint enters the manifest hint list only when the mode is not Off, not (Warn and conflict), and the '
                  'host passes the private filter (missing: %s)' % badg, fails[0][3] if fails else None)
    ck.floor('C34.pub', 'non-manual appends in preferred_control_endpoints', n_auto, 1)
    # the two flags mean what their names say
    defs = {pe.nodes[i]['n']: pe.nodes[i]['init'] for i in pe.walk() if pe.nodes[i]['k'] == 'VarDecl' and pe.nodes[i].get('n') in ('auto_publish_off', 'auto_publish_withheld')}
    ok_off = 'auto_publish_off' in defs and any(pe.nodes[j].get('n') == 'Off' for j in pe.walk(defs['auto_publish_off'])) and \
        (comparison(pe, defs['auto_publish_off']) or ('',))[0] == '=='
    ok_wh = 'auto_publish_withheld' in defs and any(pe.nodes[j].get('n') == 'Warn' for j in pe.walk(defs['auto_publish_withheld'])) and \
        any(pe.nodes[j].get('m') == CFG + 'auto_advertise_conflict' for j in pe.walk(defs['auto_publish_withheld'])) and \
        pe.nodes[pe.strip(defs['auto_publish_withheld'])].get('op') == '&&'
    if 'auto_publish_off' in defs or 'auto_publish_withheld' in defs:
        ck.ob('C34.pub', 'C34.pub/hints/flag-definitions', ok_off and ok_wh, pe.loc(),
              'auto_publish_off is mode == Off and auto_publish_withheld is mode == Warn && auto_advertise_conflict')

    # ---- a host with a colon never gets the "routable" verdict from the dispatcher itself -----------------------------------------
    from sa.match import holds as _holds2
    rf_false = [i for i in hc.walk() if hc.nodes[i]['k'] == 'ReturnStmt' and hc.kids(i) and hc.nodes[hc.strip(hc.kids(i)[0])].get('cv') == '0']

    def no_colon(fact):
        h = _holds2(hc, fact)
        if not h:
            return False
        a_, rel, b_ = h
        if rel != '==':
            return False
        for x_, y_ in ((a_, b_), (b_, a_)):
            xn = hc.nodes[hc.strip(x_)]
            if (xn.get('callee') or '').endswith('::find') and any(hc.nodes[j].get('v') == str(ord(':')) or hc.nodes[j].get('cv') == str(ord(':')) for j in hc.walk(hc.strip(x_))):
                return True
        return False
    ck.floor('C34.v6', 'routable verdicts (`return false`) in is_private_or_reserved_host', len(rf_false), 1)
    fails_, _n = gate_check(hc, [('return false', r) for r in rf_false], [("host.find(':') == npos", no_colon)])
    ck.ob('C34.v6', 'C34.v6/no-routable-verdict-for-colon-hosts', not fails_, hc.loc(fails_[0][2]) if fails_ else hc.loc(),
          'is_private_or_reserved_host answers "routable" itself only for hosts without a colon: every IPv6 spelling (also ::ffff:a.b.c.d and '
          'zone-suffixed literals with dots) goes through the IPv6 classifier', fails_[0][3] if fails_ else None)
    # ---- stale auto endpoints are dropped on every refresh, whatever the mode ---------------------------------------------------------
    from sa.paths import Cfg as _Cfg2
    strips = [i for i in rf.walk() if (rf.nodes[i].get('callee') or '').endswith('::erase') and
              any(rf.nodes[j].get('n') == 'advertised_endpoints' for j in rf.walk(rf.receiver(i)))]
    cfg_rf = _Cfg2.of(rf)
    wit_ = cfg_rf.must_pass_from((cfg_rf.entry, -1), lambda e, s_=set(strips): e in s_ or any(rf.is_in(x, e) for x in s_) and rf.nodes[e]['k'] == 'ExprWithCleanups') if strips else ['no erase on advertised_endpoints']
    ck.ob('C34.pub', 'C34.pub/refresh-strips-auto-entries-always', wit_ is None, rf.loc(),
          'every refresh first removes the non-manual entries of config_.advertised_endpoints (also when the mode is Off: entries of an earlier run must not stay published)', wit_)

    # ---- parse_ipv4 refuses a host only for the reasons a string is not a dotted quad ------------------------------------------------
    # (a host that parse_ipv4 refuses is treated as a name, i.e. as routable: an added refusal — a length pre-check, a "fast
    # reject" — lets private literals through the filter)
    from props.common import refusal_reasons
    from sa.canon import norm as _norm, V as _V, C as _C
    pv4 = P.fn(ANON + 'parse_ipv4')
    ck.touch(pv4)
    size_ = ('mcall', 'size', _V('host'))
    ALLOWED = [_norm(x) for x in (
        ('>=', _V('start'), size_),                                   # ran out of input before the fourth octet
        ('==', _V('end'), _C(2 ** 64 - 1)),                           # no further dot (std::string::npos)
        ('==', _V('end'), _V('start')),                               # empty octet
        ('u!', ('call', 'isdigit', _V('ch'))),                        # not a digit
        ('>', _V('value'), _C(255)),                                  # octet out of range
    )]
    rr = refusal_reasons(pv4, lambda r: const_value(pv4, pv4.kids(r)[0]) == 0)
    ck.floor('C34.v4', 'refusing exits of parse_ipv4', len(rr), 5)
    extra = []
    for r_, conds in rr:
        for c_ in (conds or [('unconditional',)]):
            ok_ = c_ in ALLOWED
            if not ok_:
                extra.append((r_, c_))
    ck.ob('C34.v4', 'C34.v4/parse-refusals-closed', not extra, pv4.loc(extra[0][0]) if extra else pv4.loc(),
          'parse_ipv4 returns false only because: input exhausted, no dot, empty octet, non-digit, octet > 255 (and the final length test)'
          + ('' if not extra else ' — other cause: %r' % (extra[0][1],)))

    # ---- normalize_ipv6 removes the brackets first, then the zone: "[fe80::1%eth0]" reduces to the bare literal ------------------------
    from sa.paths import must_precede as _mp34
    n6 = P.fn(ANON + 'normalize_ipv6')
    ck.touch(n6)
    pct = [i for i in n6.walk() if (n6.nodes[i].get('callee') or '').endswith('::find') and any(n6.nodes[j]['k'] == 'CharacterLiteral' and int(n6.nodes[j].get('v', 0)) == 37 for j in n6.walk(i))]
    brk = [i for i in n6.walk() if (n6.nodes[i].get('callee') or '').endswith('::substr') and len([a for a in n6.call_args(i) if n6.nodes[a]['k'] != 'CXXDefaultArgExpr']) == 2 and
           const_value(n6, n6.call_args(i)[0]) == 1]
    ck.floor('C34.v6', 'zone search in normalize_ipv6', len(pct), 1)
    ck.floor('C34.v6', 'bracket strip in normalize_ipv6', len(brk), 1)
    from sa.paths import Cfg as _Cfg34
    cfg6 = _Cfg34.of(n6)
    # the bracket strip is decided before the zone search runs: the if-statement holding it comes first on every path
    brk_if = [a for a in n6.ancestors(brk[0]) if n6.nodes[a]['k'] == 'IfStmt']
    order_ok = bool(brk_if) and cfg6.dominates(cfg6.locate(n6.nodes[brk_if[0]]['cond']), cfg6.locate(pct[0]))
    ck.ob('C34.v6', 'C34.v6/brackets-before-zone', order_ok, n6.loc(pct[0]),
          'normalize_ipv6 tests for and strips the enclosing brackets before it cuts the %zone (a zone inside the brackets hides the closing bracket otherwise)')

    # ---- the raw listener address (self_endpoint: STUN address + port, unfiltered) never becomes a manifest hint ---------------------------
    PN34 = ck.prog(['src/core/Node.cpp'])
    sc34 = PN34.fn('ephemeralnet::Node::store_chunk')
    ck.touch(sc34)
    raw = [i for f in PN34.with_lambdas(sc34) for i in f.walk() if (f.nodes[i].get('callee') or '') == 'ephemeralnet::Node::self_endpoint']
    ck.ob('C34.pub', 'C34.pub/manifest-hints-not-from-raw-listener', not raw, sc34.loc(raw[0]) if raw else sc34.loc(),
          'store_chunk builds the manifest\'s transport / control hints from the advertised endpoint list only: it never calls self_endpoint() '
          '(that address bypasses the auto-advertise mode and the private-address filter)')

    # ---- IPv6 literals are compared in lower case: normalize_ipv6 folds every character (the prefix table is lower case) -----------------------
    low = [i for i in n6.walk() if (n6.nodes[i].get('callee') or '').endswith('tolower')]
    lp6 = [l for l in __import__('sa.paths', fromlist=['loops']).loops(n6) if any(n6.is_in(i, l) for i in low)]
    whole6 = bool(lp6) and n6.nodes[lp6[0]]['k'] == 'CXXForRangeStmt'
    ck.ob('C34.v6', 'C34.v6/case-folded', bool(low) and whole6, n6.loc(),
          'normalize_ipv6 lower-cases every character of the literal before it is matched against the (lower-case) reserved prefixes — "FD12:…" is fd12:…')

    # ---- the conflict verdict counts every candidate (warn mode withholds on it): in both builders the loop over result.candidates
    # files every candidate under its endpoint, unconditionally, and result.conflict is set exactly when more than one endpoint was filed ----
    for outer in (NET + 'discover_control_advertise_candidates', NET + 'build_transport_advertise_candidates'):
        cf = P.fn(outer)
        short = outer.split('::')[-1]
        cl = []
        for l in __import__('sa.paths', fromlist=['loops']).loops(cf):
            nd = cf.nodes[l]
            if nd['k'] != 'CXXForRangeStmt' or not any((cf.nodes[j].get('m') or '').endswith('AdvertiseDiscoveryResult::candidates') for j in cf.walk(nd['range'])):
                continue
            filed = [i for i in cf.walk(nd['body']) if (cf.nodes[i].get('callee') or '').endswith('::push_back') and
                     any((cf.nodes[j].get('callee') or '').endswith('::operator[]') for j in cf.walk(cf.kids(i)[0]))]
            if filed:
                cl.append((l, filed))
        ck.floor('C34.conf', 'endpoint-filing loop over result.candidates in ' + short, len(cl), 1)
        l, filed = cl[0]
        maps = {cf.nodes[cf.strip(cf.kids(j)[1])].get('d') for i in filed for j in cf.walk(cf.kids(i)[0])
                if (cf.nodes[j].get('callee') or '').endswith('::operator[]')} - {None}
        ck.floor('C34.conf', 'endpoint map filled in ' + short, len(maps), 1)
        skips = [i for i in cf.walk(cf.nodes[l]['body']) if cf.nodes[i]['k'] in ('ContinueStmt', 'BreakStmt', 'ReturnStmt', 'GotoStmt', 'CXXThrowExpr')]
        cond_anc = [a for a in cf.ancestors(filed[0]) if cf.is_in(a, cf.nodes[l]['body']) and
                    cf.nodes[a]['k'] in ('IfStmt', 'ConditionalOperator', 'SwitchStmt', 'ForStmt', 'WhileStmt', 'DoStmt', 'CXXForRangeStmt', 'CXXTryStmt')
                    or (cf.is_in(a, cf.nodes[l]['body']) and cf.nodes[a]['k'] == 'BinaryOperator' and cf.nodes[a].get('op') in ('&&', '||'))]
        okc = not skips and not cond_anc
        ck.ob('C34.conf', 'C34.conf/%s/every-candidate-counted' % short, okc,
              cf.loc((skips or cond_anc)[0]) if not okc else cf.loc(l),
              'the loop that files candidates by endpoint for the conflict verdict files every element of result.candidates: no continue/break/return '
              'in its body and the filing statement is unconditional (a candidate left out of the count hides a conflict, and warn mode then publishes both)')
        sets = [i for i in cf.walk() if cf.nodes[i]['k'] == 'BinaryOperator' and cf.nodes[i].get('op') == '=' and
                (cf.nodes[cf.strip(cf.kids(i)[0])].get('m') or '').endswith('AdvertiseDiscoveryResult::conflict')]
        ck.floor('C34.conf', 'assignments to result.conflict in ' + short, len(sets), 1)
        okw = True
        bad = None
        for s_ in sets:
            if const_value(cf, cf.kids(s_)[1]) != 1:
                okw, bad = False, s_
                continue
            ifs = [a for a in cf.ancestors(s_) if cf.nodes[a]['k'] == 'IfStmt']
            g_ok = False
            if len(ifs) == 1 and cf.is_in(s_, cf.nodes[ifs[0]].get('then', -1)):
                c_ = cf.nodes[cf.strip(cf.nodes[ifs[0]]['cond'])]
                if c_['k'] == 'BinaryOperator' and c_.get('op') == '>':
                    a_, b_ = [cf.strip(x) for x in cf.kids(cf.strip(cf.nodes[ifs[0]]['cond']))]
                    g_ok = (cf.nodes[a_].get('callee') or '').endswith('::size') and const_value(cf, b_) == 1 and \
                        any(cf.nodes[j].get('d') in maps for j in cf.walk(a_) if cf.nodes[j]['k'] == 'DeclRefExpr')
            if not g_ok:
                okw, bad = False, s_
        ck.ob('C34.conf', 'C34.conf/%s/conflict-iff-several-endpoints' % short, okw, cf.loc(bad) if bad is not None else cf.loc(sets[0]),
              'result.conflict is assigned only `true`, under the single test "the endpoint map filled from all candidates holds more than one entry"')

"""C24 — fetch scheduling respects limits, backs off, and always terminates (structural clauses)."""
from sa.paths import gate_check, must_precede, Cfg, loops, implied
from sa.flow import origin_chain, field_accesses, value_sources, all_defs
from sa.match import holds, const_value, call_true, comparison
from sa.build import AnalysisBroken
from props.common import rx, is_now

UNITS = ['src/core/Node.cpp']
LEVEL = 'other'
EXPLANATION = (
    'Structural decision on Node: (typestate) PendingFetchState::in_flight may be reset to false, peer_id overwritten, '
    'or the state erased only after note_dispatch_end(state) for the old peer — unless the state was just inserted, is '
    'known not to be in flight, or in_flight is assigned the result of the dispatch that has just called '
    'note_dispatch_start; (gate) dispatch_pending_fetch is reached only past can_dispatch_fetch(state) and '
    'inflight_count < limit, note_dispatch_start only when dispatched; (drop) a pending fetch is marked completed exactly '
    'on: chunk held locally, wall_now >= manifest_expires, next_attempt == time_point::max(), or attempts exhausted after a '
    'failed dispatch, and every completed key is cleared on both exits; schedule_next_fetch_attempt sets '
    'next_attempt = max() exactly on limit > 0 && attempts >= limit; (backoff) exponent = attempts-1 clamped to [0,8], '
    'factor = 1 << exponent, delay = base * factor capped by a positive max_backoff and floored at 1 s; (own) '
    'active_peer_requests_ is written only by note_dispatch_start / note_dispatch_end.')
ASSUMPTIONS = ['termination of every pending fetch over all histories (liveness) is not decided; the drop conditions that generate it are',
               'the numeric claim "delays double" is decided from the shape 1 << min(attempts-1, 8), not by evaluating it']

N = 'ephemeralnet::Node::'
PFS = 'ephemeralnet::Node::PendingFetchState::'


def state_member(f, node, name):
    nd = f.nodes[f.strip(node)]
    return nd['k'] == 'MemberExpr' and nd.get('m') == PFS + name


def run(ck):
    P = ck.prog(UNITS)
    # ---- (typestate) ------------------------------------------------------------------------
    n_sites = 0
    for f in P.fns:
        if not f.q.startswith(N):
            continue
        sites = []
        for i in f.walk():
            nd = f.nodes[i]
            if nd['k'] in ('BinaryOperator', 'CXXOperatorCallExpr') and nd.get('op') == '=':
                ks = f.kids(i)
                lhs, rhs = (ks[0], ks[1]) if nd['k'] == 'BinaryOperator' else (ks[1], ks[2])
                if state_member(f, lhs, 'in_flight'):
                    if const_value(f, rhs) == 1:
                        continue
                    sites.append(('in_flight = %s' % f.text(rhs), i, rhs))
                elif state_member(f, lhs, 'peer_id'):
                    sites.append(('peer_id = …', i, rhs))
            elif nd.get('callee', '').endswith('::erase') and nd['k'] == 'CXXMemberCallExpr':
                r = f.receiver(i)
                if r is not None and f.nodes[r].get('m') == N + 'pending_chunk_fetches_':
                    sites.append(('pending_chunk_fetches_.erase', i, None))
        if not sites:
            continue
        ck.touch(f)

        def released(n, f=f):
            return f.nodes[n].get('callee') == N + 'note_dispatch_end'

        def bypass(fact, f=f):
            kind, node, val = fact
            nd = f.nodes[node]
            if kind == 'bool' and val is False and nd['k'] == 'MemberExpr' and nd.get('m') == PFS + 'in_flight':
                return True
            if kind == 'bool' and val is True and nd['k'] == 'DeclRefExpr' and nd.get('n') == 'inserted' and nd.get('dk') == 'Binding':
                return True
            return False
        for lab, site, rhs in sites:
            n_sites += 1
            if rhs is not None and lab.startswith('in_flight'):
                # in_flight = dispatched : fine if note_dispatch_start ran exactly on dispatched
                r = f.strip(rhs)
                if f.nodes[r]['k'] == 'DeclRefExpr' and f.nodes[r].get('n') == 'dispatched':
                    starts = f.calls(N + 'note_dispatch_start')

                    def disp(fact, f=f, d=f.nodes[r]['d']):
                        kind, node, val = fact
                        return kind == 'bool' and val is True and f.nodes[node].get('d') == d
                    fails, _ = gate_check(f, [('start', s) for s in starts], [('dispatched', disp)])
                    cfg = Cfg.of(f)
                    ok = len(starts) == 1 and not fails
                    ck.ob('C24.typestate', 'C24.typestate/%s/%s' % (f.name, lab), ok, f.loc(site),
                          'in_flight takes the dispatch result, and note_dispatch_start ran exactly when dispatched')
                    continue
            mp = must_precede(f, [site], released, bypass)
            ck.ob('C24.typestate', 'C24.typestate/%s/%s' % (f.name, lab), not mp, f.loc(site),
                  '%s only after note_dispatch_end(state) (or on a freshly inserted / not in-flight state)' % lab,
                  mp[0][1] if mp else None)
    ck.floor('C24.typestate', 'in_flight reset / peer_id overwrite / erase sites', n_sites, 3)
    # ... and the converse: once the provider's slot has been handed back (note_dispatch_end), the entry stops counting as in
    # flight — the flag is cleared, or the entry is erased — before anything else can release the same slot again
    n_rel = 0
    for f in P.fns:
        rel = [i for i in f.walk() if f.nodes[i].get('callee') == N + 'note_dispatch_end']
        if not rel or f.q == N + 'note_dispatch_end':
            continue
        ck.touch(f)
        cfg_ = Cfg.of(f)
        for c_ in rel:
            n_rel += 1

            def settles(e, f=f):
                nd_ = f.nodes[e]
                if nd_['k'] in ('BinaryOperator', 'CXXOperatorCallExpr') and nd_.get('op') == '=':
                    l_ = f.kids(e)[1 if nd_['k'] == 'CXXOperatorCallExpr' else 0]
                    if f.nodes[f.strip(l_, casts=False)].get('m') == PFS + 'in_flight':
                        return True
                c2 = nd_.get('callee') or ''
                if c2.endswith('::erase') and nd_['k'] == 'CXXMemberCallExpr' and f.receiver(e) is not None and f.nodes[f.receiver(e)].get('m') == N + 'pending_chunk_fetches_':
                    return True
                return any(settles(x) for x in f.kids(e)) if nd_['k'] in ('ExprWithCleanups', 'ImplicitCastExpr') else False
            wit = cfg_.must_pass(c_, settles)
            ck.ob('C24.typestate', 'C24.typestate/%s/released-then-settled#%d' % (f.name, n_rel), wit is None, f.loc(c_),
                  'after note_dispatch_end(state) every path clears state.in_flight or erases the entry (a stale flag releases the slot a second time)', wit)
    ck.floor('C24.typestate', 'note_dispatch_end call sites', n_rel, 2)

    # ---- (gate) -----------------------------------------------------------------------------
    pf = P.fn(N + 'process_pending_fetches')
    ck.touch(pf)
    dps = pf.calls(N + 'dispatch_pending_fetch')
    ck.floor('C24.gate', 'dispatch_pending_fetch call sites', len(dps), 1)
    for c in dps:
        st = pf.call_args(c)[0]

        def can(fact):
            kind, node, val = fact
            return kind == 'bool' and val is True and pf.nodes[node].get('callee') == N + 'can_dispatch_fetch' and \
                pf.nodes[pf.strip(pf.call_args(node)[0])].get('d') == pf.nodes[pf.strip(st)].get('d')

        def below(fact):
            h = holds(pf, fact)
            if not h:
                return False
            a, rel, b = h
            return rel == '<' and pf.nodes[pf.strip(a)].get('n') == 'inflight_count' and \
                any(pf.nodes[j].get('m') == 'ephemeralnet::Config::fetch_max_parallel_requests' for j in value_sources(pf, b))
        fails, _ = gate_check(pf, [('dispatch', c)], [('can_dispatch_fetch', can), ('inflight<limit', below)])
        failed = {g: p for _e, g, _n, p, _c in fails}
        for g in ('can_dispatch_fetch', 'inflight<limit'):
            ck.ob('C24.gate', 'C24.gate/process_pending_fetches/' + g, g not in failed, pf.loc(c),
                  'a pending fetch is dispatched only past ' + g, failed.get(g))
    cdf = P.fn(N + 'can_dispatch_fetch')
    from sa.paths import returns_true_only_if

    def lim(fact):
        h = holds(cdf, fact)
        if not h:
            return False
        a, rel, b = h
        isl = lambda n: cdf.nodes[cdf.strip(n)].get('m') == 'ephemeralnet::Config::fetch_max_parallel_requests'
        if rel == '==' and ((isl(a) and const_value(cdf, b) == 0) or any(cdf.nodes[cdf.strip(x)].get('callee', '').endswith('::end') for x in (a, b))):
            return True
        return (rel == '<' and isl(b)) or (rel == '>' and isl(a))
    fails, nret = returns_true_only_if(cdf, [('limit==0 or count<limit', lim)])
    ck.ob('C24.gate', 'C24.gate/can_dispatch_fetch', not fails and nret >= 2, cdf.loc(),
          'can_dispatch_fetch is true only when the limit is 0 or the peer\'s in-flight count is strictly below it')

    # ---- (drop) -------------------------------------------------------------------------------
    comp = [c for c in pf.calls(rx(r'vector<std::basic_string<char>.*::push_back$')) if pf.nodes[pf.receiver(c)].get('n') == 'completed']
    ck.floor('C24.drop', 'completed.push_back sites', len(comp), 3)
    kinds = []
    for c in comp:
        # the innermost if whose then-branch contains the push
        ifs = [a for a in pf.ancestors(c) if pf.nodes[a]['k'] == 'IfStmt' and pf.is_in(c, pf.nodes[a]['then'])]
        facts = implied(pf, pf.nodes[ifs[0]]['cond'], True) if ifs else set()
        kind = None
        for fact in facts:
            k_, node, val = fact
            h = holds(pf, fact)
            if k_ == 'has' and val is True and any(pf.nodes[j].get('callee') == 'ephemeralnet::ChunkStore::get_record' for j in origin_chain(pf, node)):
                kind = 'held-locally'
            if h and h[1] == '>=' and is_now(pf, h[0]) and state_member(pf, h[2], 'manifest_expires'):
                kind = 'manifest-expired'
            if h and h[1] == '==' and state_member(pf, h[0], 'next_attempt') and 'max' in pf.text(h[2]):
                kind = 'attempts-exhausted'
        kinds.append(kind)
        ck.ob('C24.drop', 'C24.drop/completed#%d' % len(kinds), kind is not None, pf.loc(c),
              'a fetch is completed only when held locally, past manifest expiry, or exhausted (found: %s)' % kind)
    ck.ob('C24.drop', 'C24.drop/all-three-conditions', set(kinds) >= {'held-locally', 'manifest-expired', 'attempts-exhausted'}, pf.loc(),
          'all three drop conditions are present (found: %s)' % kinds)
    # every exit of process_pending_fetches past the scan clears the completed keys
    clears = pf.calls(N + 'clear_pending_fetch')
    cfg = Cfg.of(pf)
    ok = len(clears) >= 2 and all(any(pf.nodes[j].get('n') == 'completed' for j in value_sources(pf, pf.nodes[l]['range']))
                                  for l in loops(pf) if pf.nodes[l]['k'] == 'CXXForRangeStmt' and any(pf.is_in(c, l) for c in clears))
    scan = [l for l in loops(pf) if pf.nodes[l]['k'] == 'CXXForRangeStmt' and pf.nodes[pf.strip(pf.nodes[l]['range'])].get('m') == N + 'pending_chunk_fetches_']
    if ok and scan:
        # from the end of the scan loop every path to the exit runs one of the clearing loops
        clear_loops = [l for l in loops(pf) if pf.nodes[l]['k'] == 'CXXForRangeStmt' and any(pf.is_in(c, l) for c in clears)]
        rng = [pf.nodes[l]['range'] for l in clear_loops]
        first_after = pf.calls(rx(r'vector<.*ReadyFetch.*::empty$'))
        ok = bool(first_after) and cfg.must_pass(first_after[0], lambda n: any(pf.is_in(n, r) or n == r for r in rng)) is None
    ck.ob('C24.drop', 'C24.drop/cleared-on-both-exits', ok, pf.loc(), 'completed fetches are cleared on both exits of process_pending_fetches')
    sn = P.fn(N + 'schedule_next_fetch_attempt')
    ck.touch(sn)
    mx = [i for i in sn.walk() if sn.nodes[i].get('op') == '=' and state_member(sn, sn.kids(i)[1 if sn.nodes[i]['k'] == 'CXXOperatorCallExpr' else 0], 'next_attempt')
          and 'max' in sn.text(i)]

    def exhausted(fact):
        h = holds(sn, fact)
        if not h:
            return False
        a, rel, b = h
        return rel == '>=' and state_member(sn, a, 'attempts') and any(sn.nodes[j].get('m') == 'ephemeralnet::Config::fetch_retry_attempt_limit' for j in value_sources(sn, b))

    def positive(fact):
        h = holds(sn, fact)
        if not h:
            return False
        a, rel, b = h
        return rel == '>' and const_value(sn, b) == 0 and any(sn.nodes[j].get('m') == 'ephemeralnet::Config::fetch_retry_attempt_limit' for j in value_sources(sn, a))
    ok = len(mx) == 1
    if ok:
        fails, _ = gate_check(sn, [('next_attempt=max', mx[0])], [('attempts>=limit', exhausted), ('limit>0', positive)])
        ok = not fails
    ck.ob('C24.drop', 'C24.drop/exhaustion-marker', ok, sn.loc(), 'next_attempt = time_point::max() exactly on limit > 0 && attempts >= limit')

    # ---- (backoff) ------------------------------------------------------------------------------
    txt = {sn.text(i) for i in sn.walk()}
    mins = [c for c in sn.calls('std::min') if any(const_value(sn, a) == 8 for a in sn.call_args(c))]
    shl = [i for i in sn.walk() if sn.nodes[i].get('op') == '<<' and const_value(sn, sn.kids(i)[0]) == 1]
    mul = [i for i in sn.walk() if sn.nodes[i].get('op') == '*' and sn.nodes[i]['k'] in ('BinaryOperator', 'CXXOperatorCallExpr')]
    ok = len(mins) == 1 and len(shl) == 1 and bool(mul)
    if ok:
        ok = any(sn.nodes[j].get('callee') == 'std::min' for j in value_sources(sn, sn.kids(shl[0])[1]))
        # exponent = attempts > 0 ? attempts - 1 : 0
        exp_ok = False
        for a in sn.call_args(mins[0]):
            for j in value_sources(sn, a):
                nd = sn.nodes[j]
                if nd['k'] == 'ConditionalOperator':
                    t, e = sn.nodes[j]['then'], sn.nodes[j]['else']
                    if const_value(sn, e) == 0 and any(sn.nodes[x].get('op') == '-' and const_value(sn, sn.kids(x)[1]) == 1 for x in sn.walk(t)):
                        exp_ok = True
        ok = ok and exp_ok
    ck.ob('C24.backoff', 'C24.backoff/doubling', ok, sn.loc(), 'delay = base * (1 << min(attempts > 0 ? attempts - 1 : 0, 8))')
    caps = 0
    for i in sn.walk():
        c = comparison(sn, i)
        if c and c[0] == '>' and any(sn.nodes[j].get('m') == 'ephemeralnet::Config::fetch_retry_max_backoff' for j in sn.walk(c[2])) \
                and sn.nodes[sn.strip(c[1])].get('n') == 'backoff':
            caps += 1
    floors = [i for i in sn.walk() if sn.nodes[i]['k'] == 'IfStmt' and any(
        (lambda c: c and c[0] == '<=' and sn.nodes[sn.strip(c[1])].get('n') in ('backoff', 'base', 'interval'))(comparison(sn, j))
        for j in sn.walk(sn.nodes[i]['cond']))]
    ck.ob('C24.backoff', 'C24.backoff/cap-and-floor', caps >= 1 and len(floors) >= 3, sn.loc(),
          'the delay is capped by a positive max_backoff and base/backoff/success interval are floored at 1 s')

    # ---- (own) ----------------------------------------------------------------------------------
    ws = set()
    for f in P.fns:
        if any(w and m == N + 'active_peer_requests_' for _i, m, w in field_accesses(f)):
            ws.add(f.q)
    ck.ob('C24.own', 'C24.own/active_peer_requests_', ws and ws <= {N + 'note_dispatch_start', N + 'note_dispatch_end', N + 'Node'}, '',
          'active_peer_requests_ is written only by note_dispatch_start / note_dispatch_end (found: %s)' % sorted(x.split('::')[-1] for x in ws))

    # ---- (backoff) the delay is computed from the attempt that was just made: attempts is advanced before the next attempt is scheduled ----
    from sa.paths import must_precede as _mp
    dp_ = P.fn(N + 'dispatch_pending_fetch')
    ck.touch(dp_)
    sched_ = [i for i in dp_.walk() if dp_.nodes[i].get('callee') == N + 'schedule_next_fetch_attempt']
    incs_ = [i for i in dp_.walk() if dp_.nodes[i]['k'] in ('CompoundAssignOperator', 'UnaryOperator') and dp_.nodes[i].get('op') in ('+=', '++') and
             dp_.nodes[dp_.strip(dp_.kids(i)[0])].get('m', '').endswith('PendingFetchState::attempts')]
    ck.floor('C24.backoff', 'schedule_next_fetch_attempt calls in dispatch_pending_fetch', len(sched_), 1)
    bad_ = _mp(dp_, sched_, lambda e: e in incs_ or any(dp_.is_in(x, e) for x in incs_) and dp_.nodes[e]['k'] in ('ExprWithCleanups',)) if incs_ else [('no increment', ['no `attempts += 1`'])]
    ck.ob('C24.backoff', 'C24.backoff/attempts-counted-before-scheduling', not bad_, dp_.loc(sched_[0]) if sched_ else dp_.loc(),
          'in dispatch_pending_fetch `attempts` is incremented on every path before schedule_next_fetch_attempt derives the delay from it '
          '(otherwise the first two retries wait the same time)', bad_[0][1] if bad_ else None)

    # ---- every retry deadline is counted from the current tick: next_attempt = now, now + delay, or "never" ------------------------------
    from sa.canon import canon as _canon24, norm as _norm24
    from props.common import assignments as _asg24
    n_na = 0
    for f in P.fns:
        for l_, r_, s_ in _asg24(f):
            ln = f.nodes[f.strip(l_, casts=False)]
            if ln['k'] != 'MemberExpr' or ln.get('m') != PFS + 'next_attempt':
                continue
            n_na += 1
            ck.touch(f)
            t = _norm24(_canon24(f, r_))
            now_names = {nd_.get('n') for nd_ in f.nodes if nd_['k'] in ('VarDecl',) and nd_.get('init') is not None and nd_['init'] >= 0 and
                         any((f.nodes[j].get('callee') or '') == 'std::chrono::steady_clock::now' for j in f.walk(nd_['init']))} | \
                {p_['n'] for p_ in f.params if 'time_point' in (p_.get('t') or '')}
            ok_t = (t[0] == 'v' and t[1] in now_names) or \
                (t[0] in ('op+', '+') and any(x[0] == 'v' and x[1] in now_names for x in t[1:])) or \
                (t[0] == 'call' and t[1] == 'max')
            ck.ob('C24.backoff', 'C24.backoff/deadline-from-now/%s#%d' % (f.name.split('::')[-1], n_na), ok_t, f.loc(s_),
                  'next_attempt is set to now, now + delay, or time_point::max() — never derived from the previous deadline (found %r)' % (t,))
    ck.floor('C24.backoff', 'assignments of next_attempt', n_na, 3)

    # ---- the attempt counter restarts only for a new entry or a different provider -----------------------------------------------------------------
    from sa.canon import canon as _c24b, norm as _n24b
    saf = P.fn(N + 'schedule_assigned_fetch')
    ck.touch(saf)
    resets = [(l_, r_, s_) for l_, r_, s_ in _asg24(saf) if saf.nodes[saf.strip(l_, casts=False)].get('m') == PFS + 'attempts' and const_value(saf, r_) == 0]
    ck.floor('C24.backoff', 'resets of the attempt counter in schedule_assigned_fetch', len(resets), 2)
    odd24 = []
    for l_, r_, s_ in resets:
        guard = next((saf.nodes[a]['cond'] for a in saf.ancestors(s_) if saf.nodes[a]['k'] == 'IfStmt'), None)
        t_ = repr(_n24b(_c24b(saf, guard))) if guard is not None else 'unconditional'
        cmp_ = comparison(saf, guard) if guard is not None else None
        if cmp_ is None and guard is not None and saf.nodes[saf.strip(guard)]['k'] == 'UnaryOperator' and saf.nodes[saf.strip(guard)].get('op') == '!':
            inner_ = comparison(saf, saf.kids(saf.strip(guard))[0])          # C++20 rewrites a != b as !(a == b)
            if inner_ is not None and inner_[0] == '==':
                cmp_ = ('!=', inner_[1], inner_[2])
        ok_ = guard is not None and (t_ == repr(('v', 'inserted')) or
                                     (cmp_ is not None and cmp_[0] == '!=' and all((saf.nodes[saf.strip(x)].get('m') or saf.nodes[saf.strip(x)].get('n') or '').endswith('peer_id') for x in cmp_[1:])))
        if not ok_:
            odd24.append((s_, t_))
    ck.ob('C24.backoff', 'C24.backoff/attempts-reset-only-for-new-provider', not odd24, saf.loc(odd24[0][0]) if odd24 else saf.loc(),
          'schedule_assigned_fetch zeroes `attempts` only for a freshly inserted entry or when the announcing peer differs from the stored one '
          '(a re-announcement by the same provider must not restart the attempt limit and the back-off)' + ('' if not odd24 else ' — under %s' % odd24[0][1][:80]))

    # ---- the retry schedule is the configured one: nothing rewrites the fetch_retry_* settings ---------------------------------------------------------
    from sa.flow import field_accesses as _fa24
    rw24 = [(f, i, m_) for f in P.fns for i, m_, w_ in _fa24(f) if w_ and m_.startswith('ephemeralnet::Config::fetch_retry_') and f.kind != 'ctor']
    ck.ob('C24.backoff', 'C24.backoff/retry-settings-not-rewritten', not rw24, rw24[0][0].loc(rw24[0][1]) if rw24 else '',
          'no function of the node assigns Config::fetch_retry_* (e.g. raising a small maximum back-off to the initial one would change the documented schedule)'
          + ('' if not rw24 else ' — %s written in %s' % (rw24[0][2].split('::')[-1], rw24[0][0].name)))

    # ---- the in-flight flag and the slot are taken from the final dispatch verdict: `dispatched` is not assigned again after it was recorded ----------
    from sa.paths import reaches as _reaches24
    from sa.flow import all_defs as _ad24
    dpf = P.fn(N + 'dispatch_pending_fetch')
    ck.touch(dpf)
    rec24 = [(l_, r_, s_) for l_, r_, s_ in _asg24(dpf) if dpf.nodes[dpf.strip(l_, casts=False)].get('m') == PFS + 'in_flight' and
             dpf.nodes[dpf.strip(r_)]['k'] == 'DeclRefExpr']
    stale24 = []
    for l_, r_, s_ in rec24:
        d_ = dpf.nodes[dpf.strip(r_)]['d']
        starts24 = [i for i in dpf.walk() if dpf.nodes[i].get('callee') == N + 'note_dispatch_start']
        for kind_, rhs_, site_ in _ad24(dpf, d_):
            if kind_ != 'init' and (_reaches24(dpf, s_, site_) or any(_reaches24(dpf, st_, site_) for st_ in starts24)):
                stale24.append((site_, s_))
    ck.floor('C24.typestate', 'in_flight = <dispatch verdict> in dispatch_pending_fetch', len(rec24), 1)
    ck.ob('C24.typestate', 'C24.typestate/verdict-final-when-recorded', not stale24, dpf.loc(stale24[0][0]) if stale24 else dpf.loc(),
          'dispatch_pending_fetch records in_flight / takes the provider slot after the last assignment of the dispatch verdict (a request sent through the '
          'connect-and-send fallback is tracked like a direct one)')

"""C29 — control responses reach the client intact, so list shows every chunk."""
import re

from sa.paths import gate_check, loops, Cfg
from sa.flow import origin_chain, all_defs
from sa.match import comparison, const_value
from sa.build import AnalysisBroken
from props.common import declref, stream_insertions, literal_text, switch_table, assignments

UNITS = ['src/daemon/ControlServer.cpp', 'src/daemon/ControlClient.cpp']
LEVEL = 'other'
EXPLANATION = (
    'R-SINK/R-SCHEMA on the control response framing. Writer (ControlServer::Impl::send_response): the stream receives exactly '
    '"STATUS:" (OK|ERROR) "\\n", then per field key \':\' escape_field_value(value) "\\n", then "\\n"; the only non-literal '
    'insertions are the map key and the escaped value. escape_field_value maps \\n, \\r and \\\\ to two-character escapes containing '
    'no line break and copies every other byte (region enumeration over the switch). Every key the server ever puts into a '
    'ControlFields map is a literal over [A-Z0-9_-] (no colon, no line break, already upper case). Reader '
    '(ControlClient parse_response): stops at the first empty line, splits at the first \':\', stores unescape_field_value(value); '
    'the unescape table is the exact inverse of the escape table and leaves unknown escapes untouched. Payload: the writer '
    'announces PAYLOAD-LENGTH = payload.size() and sends exactly those bytes after the blank line; the reader reads exactly that many.')
ASSUMPTIONS = ['the CLI\'s rendering of the fields (print_list_response) is outside the framing property; it splits ENTRIES on line breaks',
               'TCP delivers the byte stream unchanged']

D = 'ephemeralnet::daemon::'
ANS = D + '(anonymous namespace)::'
KEY_RE = re.compile(r'^[A-Z0-9_-]+$')


def run(ck):
    PS = ck.prog(['src/daemon/ControlServer.cpp'])
    PC = ck.prog(['src/daemon/ControlClient.cpp'])
    # ---- writer ---------------------------------------------------------------------------------
    sr = PS.fn(D + 'ControlServer::Impl::send_response')
    ck.touch(sr)
    oss = [sr.nodes[i]['d'] for i in sr.walk() if sr.nodes[i]['k'] == 'VarDecl' and 'ostringstream' in sr.nodes[i].get('t', '')]
    ck.ob('C29.writer', 'C29.writer/header-assembled-then-sent', len(oss) == 1, sr.loc(),
          'send_response assembles the status line and the field lines in one local ostringstream (and sends that buffer): the header block is never written '
          'piecemeal to the socket')
    if len(oss) != 1:
        ck.note('the remaining writer rules of C29 are stated over the header buffer and were not evaluated')
        raise AnalysisBroken('send_response no longer builds the header in one ostringstream')
    ins = stream_insertions(sr, oss[0])
    ck.floor('C29.writer', 'stream insertions in send_response', len(ins), 7)
    lp = [l for l in loops(sr) if sr.nodes[l]['k'] == 'CXXForRangeStmt' and declref(sr, sr.nodes[l]['range'], sr.params[1]['d']) is not None]
    if len(lp) != 1:
        raise AnalysisBroken('send_response no longer iterates over the fields map')
    binds = sr.nodes[sr.nodes[lp[0]]['var']].get('bindings', [])
    key_d = binds[0]['d'] if len(binds) == 2 else None
    val_d = binds[1]['d'] if len(binds) == 2 else None
    shape = []
    for n in ins:
        lit = literal_text(sr, n)
        inloop = sr.is_in(n, lp[0])
        m = sr.strip(n)
        nd = sr.nodes[m]
        if lit is not None:
            shape.append(('L' if not inloop else 'l', lit))
        elif nd['k'] == 'ConditionalOperator':
            a, b = literal_text(sr, nd['then']), literal_text(sr, nd['else'])
            shape.append(('C', '%s|%s' % (a, b)))
        elif declref(sr, m, key_d) is not None:
            shape.append(('K', ''))
        elif nd.get('callee') == ANS + 'escape_field_value' and declref(sr, sr.call_args(m)[0], val_d) is not None:
            shape.append(('V', ''))
        else:
            shape.append(('?', sr.text(m)[:60]))
    want = [('L', 'STATUS:'), ('C', 'OK|ERROR'), ('L', '\n'), ('K', ''), ('l', ':'), ('V', ''), ('l', '\n'), ('L', '\n')]
    ck.ob('C29.writer', 'C29.writer/frame-shape', shape == want, sr.loc(),
          'send_response emits STATUS line, then key \':\' escape_field_value(value) "\\n" per field, then a blank line (found %s)' % shape)
    # what is sent: the header string, then exactly the payload
    sends = sr.calls(re.compile(r'::send_all$'))
    ok_send = len(sends) == 2 and any(sr.nodes[j].get('d') == sr.params[3]['d'] for j in sr.walk(sends[1]) if sr.nodes[j]['k'] == 'DeclRefExpr')
    ck.ob('C29.writer', 'C29.writer/payload-after-header', ok_send, sr.loc(), 'the header is sent first, then payload.data() .. payload.size()')
    pl = [i for i in sr.walk() if sr.nodes[i]['k'] == 'CXXOperatorCallExpr' and sr.nodes[i].get('op') == '=' and
          any(sr.nodes[j]['k'] == 'StringLiteral' and sr.nodes[j].get('s') == 'PAYLOAD-LENGTH' for j in sr.walk(sr.kids(i)[1]))]
    ok_pl = len(pl) == 1 and any(sr.nodes[j].get('callee') == 'std::to_string' for j in sr.walk(sr.kids(pl[0])[2])) and \
        any(sr.nodes[j].get('callee', '').endswith('::size') for j in sr.walk(sr.kids(pl[0])[2]))
    ck.ob('C29.writer', 'C29.writer/payload-length', ok_pl, sr.loc(), 'PAYLOAD-LENGTH is std::to_string(payload.size())')

    # ---- escape table ---------------------------------------------------------------------------
    ef = PS.fn(ANS + 'escape_field_value', optional=True)
    if ef is None:
        ck.ob('C29.escape', 'C29.escape/exists', False, sr.loc(),
              'the server has no escaper for field values: a value containing a line break ends its header line (and a trailing one ends '
              'the header block), so multi-line values such as ENTRIES are cut by the reader')
        return
    ck.touch(ef)
    sws = [i for i in ef.walk() if ef.nodes[i]['k'] == 'SwitchStmt']
    if len(sws) != 1:
        raise AnalysisBroken('escape_field_value is no longer a switch over the byte')
    tab = switch_table(ef, sws[0])
    esc = {}
    for k, stmts in tab.items():
        texts = []
        copies = False
        for st in stmts:
            for j in ef.walk(st):
                nd = ef.nodes[j]
                if nd['k'] == 'StringLiteral':
                    texts.append(nd.get('s', ''))
                if nd.get('callee', '').endswith('::push_back') and declref(ef, ef.call_args(j)[0]) is not None:
                    copies = True
        esc[k] = ('copy' if copies and not texts else ''.join(texts))
    ck.extra['escape_table'] = {str(k): v for k, v in esc.items()}
    ck.ob('C29.escape', 'C29.escape/covers-line-breaks', all(c in esc for c in (10, 13, 92)), ef.loc(),
          'escape_field_value has cases for \\n (10), \\r (13) and \\\\ (92)')
    ck.ob('C29.escape', 'C29.escape/no-raw-break', all('\n' not in v and '\r' not in v and len(v) == 2 and v[0] == '\\'
                                                       for k, v in esc.items() if k != 'default'), ef.loc(),
          'every escape is a backslash followed by one character and contains no line break (found %s)' % esc)
    ck.ob('C29.escape', 'C29.escape/default-copies', esc.get('default') == 'copy', ef.loc(), 'every other byte is copied unchanged')
    # the switch is over the loop variable of a range-for over the whole value, and nothing else is appended
    fr = [l for l in loops(ef) if ef.nodes[l]['k'] == 'CXXForRangeStmt' and declref(ef, ef.nodes[l]['range'], ef.params[0]['d']) is not None]
    ck.ob('C29.escape', 'C29.escape/whole-value', len(fr) == 1 and ef.is_in(sws[0], fr[0]) and
          not [j for j in ef.walk(fr[0]) if ef.nodes[j]['k'] in ('ContinueStmt', 'ReturnStmt', 'GotoStmt')], ef.loc(),
          'the escaper visits every byte of the value')

    # ---- keys -----------------------------------------------------------------------------------
    keys = {}
    nonlit = []
    for f in PS.fns:
        if not f.file.endswith('ControlServer.cpp'):
            continue
        for i in f.walk():
            nd = f.nodes[i]
            if nd['k'] == 'CXXOperatorCallExpr' and nd.get('op') == '[]' and 'unordered_map<std::basic_string<char>, std::basic_string<char>' in nd.get('callee', ''):
                arg = f.kids(i)[2]
                lits = [f.nodes[j].get('s') for j in f.walk(arg) if f.nodes[j]['k'] == 'StringLiteral']
                base = f.nodes[f.strip(f.kids(i)[1])]
                if 'request' in f.text(f.kids(i)[1]):
                    continue          # request headers are input, not response fields
                if lits:
                    keys.setdefault(lits[0], f.loc(i))
                else:
                    nonlit.append((f, i))
            if nd['k'] in ('CXXConstructExpr', 'CXXTemporaryObjectExpr') and nd.get('callee', '').startswith('std::pair<const std::basic_string<char>, std::basic_string<char>>::pair'):
                ks = f.kids(i)
                if ks:
                    lits = [f.nodes[j].get('s') for j in f.walk(ks[0]) if f.nodes[j]['k'] == 'StringLiteral']
                    if lits:
                        keys.setdefault(lits[0], f.loc(i))
    ck.floor('C29.keys', 'distinct literal response keys in ControlServer.cpp', len(keys), 20)
    bad = {k: l for k, l in keys.items() if not KEY_RE.match(k)}
    ck.ob('C29.keys', 'C29.keys/charset', not bad, next(iter(bad.values())) if bad else '',
          'every response key is a literal over [A-Z0-9_-] (no colon, no line break, upper case as the client expects); offending: %s' % sorted(bad))
    for f, i in nonlit:
        ck.ob('C29.keys', 'C29.keys/non-literal/%s#%d' % (f.name.split('::')[-1], i), False, f.loc(i),
              'a response field is stored under a computed key (%s): keys must be literals' % f.text(f.kids(i)[2])[:60])

    # ---- LIST: every chunk of the live snapshot is listed ----------------------------------------------------
    hl = PS.fn(D + 'ControlServer::Impl::handle_list')
    ck.touch(hl)
    snap = [nd for nd in hl.nodes if nd['k'] == 'VarDecl' and nd.get('n') == 'snapshot']
    snap_d = snap[0]['d'] if snap else None
    from sa.flow import value_sources as _vs
    from props.common import assignments as _asg
    src_ok = snap_d is not None and any(hl.nodes[j].get('callee') == 'ephemeralnet::Node::stored_chunks'
                                        for l_, r_, s_ in _asg(hl) if declref(hl, l_, snap_d) is not None for j in hl.walk(r_))
    lps = [l for l in loops(hl) if hl.nodes[l]['k'] == 'CXXForRangeStmt' and declref(hl, hl.nodes[l]['range'], snap_d) is not None]
    body_ok = len(lps) == 1 and not [j for j in hl.walk(hl.nodes[lps[0]]['body']) if hl.nodes[j]['k'] in ('IfStmt', 'ContinueStmt', 'BreakStmt', 'ReturnStmt', 'SwitchStmt')]
    es = [nd for nd in hl.nodes if nd['k'] == 'VarDecl' and 'ostringstream' in nd.get('t', '')]
    n_ins = len(stream_insertions(hl, es[0]['d'], hl.nodes[lps[0]]['body'])) if es and lps else 0
    ck.ob('C29.list', 'C29.list/every-chunk-listed', src_ok and body_ok and n_ins >= 7, hl.loc(),
          'handle_list writes one ENTRIES record for every element of node_.stored_chunks(), unconditionally')
    cnt = [(l_, r_) for l_, r_, s_ in _asg(hl) if any(hl.nodes[j].get('s') == 'COUNT' for j in hl.walk(l_) if hl.nodes[j]['k'] == 'StringLiteral')]
    cnt_ok = len(cnt) == 1 and any(hl.nodes[j].get('callee', '').endswith('::size') and declref(hl, hl.receiver(j), snap_d) is not None for j in hl.walk(cnt[0][1]))
    ck.ob('C29.list', 'C29.list/count', cnt_ok, hl.loc(), 'COUNT is snapshot.size()')

    # ---- reader ---------------------------------------------------------------------------------
    pr = [f for f in PC.fns if f.q.endswith('::parse_response') and f.file.endswith('ControlClient.cpp')]
    if len(pr) != 1:
        raise AnalysisBroken('ControlClient parse_response not found')
    pr = pr[0]
    ck.touch(pr)
    finds = [i for i in pr.walk() if pr.nodes[i].get('callee', '').endswith('basic_string<char>::find')]
    rfinds = [i for i in pr.walk() if pr.nodes[i].get('callee', '').endswith(('::rfind', '::find_last_of'))]
    ok_split = len(finds) >= 1 and not rfinds and any(literal_text(pr, pr.call_args(f)[0]) == ':' for f in finds)
    ck.ob('C29.reader', 'C29.reader/split-first-colon', ok_split, pr.loc(), 'the reader splits each header line at the first colon')
    # generic fields are stored unescaped
    stores = []
    for i in pr.walk():
        nd = pr.nodes[i]
        if nd['k'] == 'CXXOperatorCallExpr' and nd.get('op') == '=' and len(pr.kids(i)) == 3:
            lhs = pr.strip(pr.kids(i)[1])
            ln = pr.nodes[lhs]
            if ln['k'] == 'CXXOperatorCallExpr' and ln.get('op') == '[]' and declref(pr, pr.kids(lhs)[2]) is not None:
                stores.append((i, pr.kids(i)[2]))
    ck.floor('C29.reader', 'stores of a received field under its received key', len(stores), 1)
    for i, rhs in stores:
        r = pr.strip(rhs)
        via = pr.nodes[r].get('callee', '').endswith('unescape_field_value')
        is_len = any(pr.nodes[a]['k'] == 'IfStmt' and any(pr.nodes[j].get('s') == 'PAYLOAD-LENGTH' for j in pr.walk(pr.nodes[a]['cond']))
                     and pr.is_in(i, pr.nodes[a].get('then')) for a in pr.ancestors(i))
        ck.ob('C29.reader', 'C29.reader/unescape#%d' % i, via or is_len, pr.loc(i),
              'a received field value is stored after unescape_field_value (the numeric PAYLOAD-LENGTH excepted)')
    # blank line ends the header block
    brk = False
    for i in pr.walk():
        nd = pr.nodes[i]
        if nd['k'] == 'IfStmt':
            c = pr.strip(nd['cond'])
            if pr.nodes[c].get('callee', '').endswith('::empty') and any(pr.nodes[j]['k'] == 'BreakStmt' for j in pr.walk(nd['then'])):
                brk = True
    ck.ob('C29.reader', 'C29.reader/blank-line-terminates', brk, pr.loc(), 'the header block ends at the first empty line')
    # payload: resize(length) and recv_exact(length)
    rz = [i for i in pr.walk() if pr.nodes[i].get('callee', '').endswith('::resize')]
    rx_ = [i for i in pr.walk() if pr.nodes[i].get('callee', '').endswith('::recv_exact')]
    ok = len(rz) == 1 and len(rx_) == 1 and pr.text(pr.call_args(rz[0])[0]) == pr.text(pr.call_args(rx_[0])[2])
    ck.ob('C29.reader', 'C29.reader/payload-exact', ok, pr.loc(), 'the reader sizes the payload buffer to PAYLOAD-LENGTH and reads exactly that many bytes')

    # the limit applied to a response line is the payload limit, not the short request-line constant: a field value is as
    # long as the daemon's state makes it (one ENTRIES line for the whole chunk list)
    rl = [f for f in PC.fns if f.q.endswith('::recv_line') and f.file.endswith('ControlClient.cpp')]
    if len(rl) != 1:
        raise AnalysisBroken('ControlClient recv_line not found')
    rl = rl[0]
    ck.touch(rl)
    from sa.flow import value_sources
    lim_ok = False
    for i in rl.walk():
        c = comparison(rl, i)
        if c and c[0] in ('>', '>=') and any(rl.nodes[j].get('callee', '').endswith('max_control_stream_bytes') for j in value_sources(rl, c[2])):
            lim_ok = True
    ck.ob('C29.reader', 'C29.reader/line-limit', lim_ok, rl.loc(),
          'the client bounds a response line by max_control_stream_bytes() (as it bounds payloads), not by the 16 KiB request-line limit')

    # the client gives up on a response only for a closed set of reasons: no status line, an unparsable PAYLOAD-LENGTH, a declared
    # payload larger than max_control_stream_bytes() (the same ceiling the daemon applies when it sends), or a truncated body —
    # any further condition refuses responses the daemon legitimately produces
    def _disj(f, n):
        n = f.strip(n)
        if f.nodes[n]['k'] == 'BinaryOperator' and f.nodes[n].get('op') == '||':
            return _disj(f, f.kids(n)[0]) + _disj(f, f.kids(n)[1])
        return [n]

    def _ok_reason(f, c, in_else):
        nd = f.nodes[c]
        if in_else:
            return any(f.nodes[j]['k'] == 'MemberExpr' and f.nodes[j].get('n') in ('ec', 'ptr') for j in f.walk(c))
        if nd['k'] == 'UnaryOperator' and nd.get('op') == '!':
            inner = f.strip(f.kids(c)[0])
            inn = f.nodes[inner]
            if (inn.get('callee') or '').endswith('::recv_exact'):
                return True
            if inn['k'] == 'DeclRefExpr' and (inn.get('t') or '').replace('const ', '') == 'bool':
                defs = all_defs(f, inn['d'])
                return all(rhs_ is None or const_value(f, rhs_) in (0, 1) for _k, rhs_, _s in defs)
            return False
        cmp_ = comparison(f, c)
        if cmp_ and cmp_[0] == '>':
            from sa.flow import value_sources as _vs29
            lim = any((f.nodes[j].get('callee') or '').endswith('max_control_stream_bytes') for j in _vs29(f, cmp_[2]))
            lhs = f.nodes[f.strip(cmp_[1])]
            plain = lhs['k'] in ('CXXOperatorCallExpr', 'UnaryOperator') and lhs.get('op') == '*' or (lhs.get('callee') or '').endswith('::value')
            return lim and plain and f.nodes[f.strip(cmp_[2])]['k'] in ('DeclRefExpr', 'CallExpr')
        return False
    fails29 = []
    nfail = 0
    for l_, r_, s_ in assignments(pr):
        ln = pr.nodes[pr.strip(l_, casts=False)]
        if ln['k'] != 'MemberExpr' or not (ln.get('m') or '').endswith('ControlResponse::success') or const_value(pr, r_) != 0:
            continue
        nfail += 1
        guard, in_else = None, False
        prev = s_
        for a_ in pr.ancestors(s_):
            an_ = pr.nodes[a_]
            if an_['k'] == 'IfStmt':
                guard = an_['cond']
                in_else = an_.get('else') is not None and an_['else'] >= 0 and (prev == an_['else'] or pr.is_in(prev, an_['else']))
                break
            prev = a_
        if guard is None:
            fails29.append((s_, 'unconditional'))
            continue
        for c_ in ([guard] if in_else else _disj(pr, guard)):
            if not _ok_reason(pr, c_, in_else):
                fails29.append((s_, pr.text(c_)[:70]))
    ck.floor('C29.reader', 'places where the client marks a response failed', nfail, 4)
    ck.ob('C29.reader', 'C29.reader/refusals-closed', not fails29, pr.loc(fails29[0][0]) if fails29 else pr.loc(),
          'the client fails a response only for: missing STATUS, unparsable PAYLOAD-LENGTH, PAYLOAD-LENGTH > max_control_stream_bytes(), truncated body'
          + ('' if not fails29 else ' — other cause: `%s`' % fails29[0][1]))

    # byte completeness of the line reader: every byte taken off the socket is appended to the line, except the '\n' that
    # ends the line and '\r' (CR LF framing); the rule is stated for a reader that consumes one byte per recv call
    from collections import deque as _dq
    from sa.match import holds as _holds
    rcv = [i for i in rl.walk() if rl.nodes[i].get('callee') in ('recv', '::recv')]
    if not rcv:
        raise AnalysisBroken('no recv call in the control client line reader')
    one = []
    for c_ in rcv:
        a_ = rl.call_args(c_)
        flags = const_value(rl, a_[3])
        buf = [j for j in rl.walk(a_[1]) if rl.nodes[j]['k'] == 'DeclRefExpr' and rl.nodes[j].get('dk') == 'Var']
        if const_value(rl, a_[2]) == 1 and flags == 0 and len(buf) == 1:
            one.append((c_, rl.nodes[buf[0]]['d']))
    if len(one) != len(rcv):
        raise AnalysisBroken('the control client line reader no longer consumes one byte per recv(…, 1, 0) call: the byte-completeness '
                             'rule of C29 is stated for that shape and cannot be applied to %s' % rl.loc(rcv[0]))
    cfgl = Cfg.of(rl)
    for c_, bd in one:
        def keeps(e, bd=bd):
            nd = rl.nodes[e]
            if nd['k'] == 'ReturnStmt' and rl.kids(e) and const_value(rl, rl.kids(e)[0]) == 0:
                return True                # the read is reported as failed: the line is not used
            return (nd.get('callee') or '').endswith(('::push_back', '::operator+=', '::append')) and \
                any(rl.nodes[j]['k'] == 'DeclRefExpr' and rl.nodes[j].get('d') == bd for a2 in rl.call_args(e) for j in rl.walk(a2))
        def excused(facts, bd=bd):
            for f_ in facts:
                h = _holds(rl, f_)
                if h is None:
                    continue
                a2, op, b2 = h
                da = declref(rl, a2)
                if da == bd and op == '==' and const_value(rl, b2) in (10, 13):
                    return True
                if da is not None and da != bd and op in ('<=', '<', '==') and const_value(rl, b2) in (0, 1, -1) and \
                        any(rl.is_in(c_, x) or x == c_ for k_, x, s_ in all_defs(rl, da)):
                    return True            # recv returned <= 0: no byte was taken
            return False
        b0, i0 = cfgl.locate(c_)
        # walk forward from the recv element; a path ends well at a keeping call or an excusing edge, badly when it reaches
        # the recv again (next byte) or leaves the function
        wit = None
        seen = set()
        dq = _dq([(b0, i0 + 1, ())])
        while dq and wit is None:
            b, frm, trail = dq.popleft()
            es = cfgl.blocks[b]['e']
            hit = False
            for e in es[frm:]:
                if isinstance(e, int) and keeps(e):
                    hit = True
                    break
                if isinstance(e, int) and e == c_:
                    wit = list(trail) + ['-> next recv without appending the byte']
                    break
            if hit or wit:
                continue
            if b == cfgl.exit:
                wit = list(trail) + ['-> function exit without appending the byte']
                break
            for s_, label, facts in cfgl.out_edges(b):
                if excused(facts):
                    continue
                if s_ in seen:
                    continue
                seen.add(s_)
                d_ = cfgl.describe_edge(b, label) if label else None
                dq.append((s_, 0, trail + ((d_,) if d_ else ())))
        ck.ob('C29.reader', 'C29.reader/line-bytes-complete', wit is None, rl.loc(c_),
              'every byte the client takes off the socket for a header line is appended to the line unless it is the terminating LF or a CR', wit)

    # ---- unescape is the inverse of escape ----------------------------------------------------------
    uf = [f for f in PC.fns if f.q.endswith('::unescape_field_value')]
    if len(uf) != 1:
        raise AnalysisBroken('unescape_field_value not found in ControlClient.cpp')
    uf = uf[0]
    ck.touch(uf)
    sws = [i for i in uf.walk() if uf.nodes[i]['k'] == 'SwitchStmt']
    if len(sws) != 1:
        ck.ob('C29.sib', 'C29.sib/unescape-inverts-escape', False, uf.loc(),
              'the client unescaper is not a single left-to-right pass with one switch over the escape code, so it cannot be shown to invert '
              'the escaper (sequential replacement passes mis-decode a literal backslash followed by n or r)')
        return
    utab = switch_table(uf, sws[0])
    un = {}
    for k, stmts in utab.items():
        chars = []
        for st in stmts:
            for j in uf.walk(st):
                nd = uf.nodes[j]
                if nd.get('callee', '').endswith('::push_back'):
                    a = uf.call_args(j)[0]
                    lit = literal_text(uf, a)
                    chars.append(lit if lit is not None else '<' + uf.text(a) + '>')
        un[k] = ''.join(chars)
    ck.extra['unescape_table'] = {str(k): v for k, v in un.items()}
    inverse = True
    for k, v in esc.items():
        if k == 'default' or v == 'copy':
            continue
        code = ord(v[1])
        if un.get(code) != chr(k):
            inverse = False
    ck.ob('C29.sib', 'C29.sib/unescape-inverts-escape', inverse and len([k for k in un if k != 'default']) == len([k for k in esc if k != 'default']),
          uf.loc(), 'for every escape \\\\X produced by the server the client maps X back to the original byte, and has no other mapping '
          '(escape %s, unescape %s)' % (esc, un))
    ck.ob('C29.sib', 'C29.sib/unknown-escape-kept', un.get('default', '').startswith('\\'), uf.loc(),
          'an unknown escape code is kept as backslash + code (nothing is dropped)')
    # the escape introducer tested by the reader is the backslash, and a trailing lone backslash is copied
    intro = any((c := comparison(uf, i)) and c[0] in ('!=', '==') and const_value(uf, c[2]) == 92 for i in uf.walk())
    ck.ob('C29.sib', 'C29.sib/introducer', intro, uf.loc(), 'the reader recognises the backslash as escape introducer')

    # ---- whole-buffer I/O on both ends advances by what the system call transferred -------------------------------------------------
    from props.common import io_progress_ok
    n_io = 0
    for Pq, label in ((PC, 'client'), (PS, 'server')):
        for f in Pq.fns:
            short_ = f.q.split('::')[-1]
            if short_ not in ('send_all', 'recv_exact') or not f.file.endswith(('ControlClient.cpp', 'ControlServer.cpp')):
                continue
            n_io += 1
            ck.touch(f)
            ok_io, node_io = io_progress_ok(f, ('send', 'recv'))
            ck.ob('C29.io', 'C29.io/%s/%s/advance-by-returned-count' % (label, short_), ok_io, f.loc(node_io) if node_io is not None else f.loc(),
                  '%s %s advances its offset by the count send()/recv() returned: a short transfer is continued, not skipped over' % (label, short_))
    ck.floor('C29.io', 'whole-buffer I/O helpers of the control plane', n_io, 4)

    # ---- a payload that is announced is sent: send_response writes payload.data()..size() whenever has_payload && size() > 0, in one piece ----
    sr = [f for f in PS.fns if f.q.endswith('::send_response')]
    if len(sr) != 1:
        raise AnalysisBroken('ControlServer send_response not found')
    sr = sr[0]
    ck.touch(sr)
    pay_d = sr.params[3]['d']
    uses = [i for i in sr.walk() if sr.nodes[i]['k'] == 'CXXMemberCallExpr' and (sr.nodes[i].get('callee') or '').endswith('::data') and
            declref(sr, sr.receiver(i), pay_d) is not None]
    sends = [i for i in sr.walk() if (sr.nodes[i].get('callee') or '').endswith('send_all') and any(u in set(sr.walk(i)) for u in uses)]
    ok_pay = False
    why_pay = 'payload.data() is used %d time(s), in %d send_all call(s)' % (len(uses), len(sends))
    if len(sends) == 1 and len(uses) <= 2:
        guard = None
        for a_ in sr.ancestors(sends[0]):
            if sr.nodes[a_]['k'] == 'IfStmt':
                guard = sr.nodes[a_]['cond']
                break
        if guard is not None:
            def conj(n):
                n = sr.strip(n)
                if sr.nodes[n]['k'] == 'BinaryOperator' and sr.nodes[n].get('op') == '&&':
                    return conj(sr.kids(n)[0]) + conj(sr.kids(n)[1])
                return [n]
            bad_c = []
            for c_ in conj(guard):
                cn = sr.nodes[c_]
                cmp_ = comparison(sr, c_)
                if cn['k'] == 'DeclRefExpr' and (cn.get('t') or '').replace('const ', '') == 'bool':
                    continue
                if cmp_ and cmp_[0] in ('>', '!=') and const_value(sr, cmp_[2]) == 0 and (sr.nodes[sr.strip(cmp_[1])].get('callee') or '').endswith('::size'):
                    continue
                if cn['k'] == 'UnaryOperator' and cn.get('op') == '!' and (sr.nodes[sr.strip(sr.kids(c_)[0])].get('callee') or '').endswith('::empty'):
                    continue
                bad_c.append(sr.text(c_)[:60])
            ok_pay = not bad_c
            if bad_c:
                why_pay = 'the payload write is also conditioned on `%s`' % bad_c[0]
    ck.ob('C29.sender', 'C29.sender/payload-sent-when-announced', ok_pay, sr.loc(sends[0]) if sends else sr.loc(),
          'send_response writes the payload bytes in a single send_all, conditioned only on has_payload and a non-zero size (%s)' % why_pay)

    # ---- the whole header block leaves in one write: send_response has at most two send_all calls (headers, payload) -----------------------------
    all_sends = [i for i in sr.walk() if (sr.nodes[i].get('callee') or '').endswith('send_all')]
    lam_sends = [i for lam in PS.lambdas_of(sr.q) for i in lam.walk() if (lam.nodes[i].get('callee') or '').endswith('send_all')]
    ck.ob('C29.sender', 'C29.sender/header-block-single-write', len(all_sends) == 2 and not lam_sends, sr.loc(all_sends[0]) if all_sends else sr.loc(),
          'send_response assembles the status and field lines and sends them with one send_all (found %d send_all call(s), %d inside local lambdas): a client that '
          'hangs up early cannot leave a response half written' % (len(all_sends), len(lam_sends)))

    # ---- control sockets get no send timeout: a response is written whole however slowly the client reads ---------------------------------------
    sndto = [(f, i) for f in PS.fns for i in f.walk() if (f.nodes[i].get('callee') or '').lstrip(':') == 'setsockopt' and len(f.call_args(i)) >= 3 and const_value(f, f.call_args(i)[2]) == 21]
    ck.ob('C29.sender', 'C29.sender/no-send-timeout', not sndto, sndto[0][0].loc(sndto[0][1]) if sndto else '',
          'the control server sets no SO_SNDTIMEO on client sockets (a large LIST or streamed FETCH must not be cut when the reader pauses)')

    # ---- a request is refused by parse_request only for framing reasons: what the command handlers decide (tokens, limits) is not decided here ------
    prq = [f for f in PS.fns if f.q.endswith('::parse_request')]
    if len(prq) != 1:
        raise AnalysisBroken('ControlServer parse_request not found')
    prq = prq[0]
    ck.touch(prq)
    ck.ob('C29.sender', 'C29.sender/parse_request-framing-only', len(prq.params) == 1 and not any((prq.nodes[i].get('callee') or '').endswith(('constant_time_equal', 'to_upper')) and
          any(prq.nodes[j]['k'] == 'StringLiteral' and prq.nodes[j].get('s') in ('TOKEN', 'COMMAND') for j in prq.walk()) for i in prq.walk()), prq.loc(),
          'parse_request takes the socket only and inspects no TOKEN / COMMAND field: authentication errors are produced by the handlers, after the whole '
          'request (body included) was read, so the error response reaches a client that is still uploading')

    # ---- the CLI prints one row per ENTRIES record: print_list_response keeps rows in a sequence, never in a keyed container --------------------------
    PM29 = ck.prog(['src/main.cpp'])
    plr = [f for f in PM29.fns if f.q.endswith('print_list_response')]
    if len(plr) != 1:
        raise AnalysisBroken('print_list_response not found in src/main.cpp')
    plr = plr[0]
    ck.touch(plr)
    keyed = [plr.nodes[i] for i in plr.walk() if plr.nodes[i]['k'] == 'VarDecl' and any(x in (plr.nodes[i].get('t') or '') for x in ('std::map<', 'std::set<', 'std::unordered_map<', 'std::unordered_set<', 'std::multimap<'))]
    ck.ob('C29.list', 'C29.list/cli-rows-not-keyed', not keyed, plr.loc(),
          'print_list_response collects the rows of ENTRIES in a sequence; it declares no map / set keyed by a column (two chunks sharing that value would collapse into one row)'
          + ('' if not keyed else ' — local `%s`' % keyed[0].get('n')))

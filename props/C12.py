"""C12 — a mutual handshake yields one shared session key (structural clauses)."""
from sa.paths import gate_check, local_writes
from sa.flow import value_sources, origin_chain, all_defs
from sa.match import comparison, const_value, holds
from sa.build import AnalysisBroken
from sa.prog import int_type
from props.common import declref, member_on
from sa.canon import canon, norm, statements, pin, V, C

UNITS = ['src/network/KeyExchange.cpp', 'src/network/KeyManager.cpp', 'src/core/Node.cpp']
LEVEL = 'other'
EXPLANATION = (
    'R-CMP/R-TABLE: validate_public is exactly `candidate > 1 && candidate < kPrime` with kPrime = 2^31 - 1 (the open interval). '
    'R-GATE: perform_handshake reaches derive_shared_secret / register_session_with_material only past validate_public(offered key). '
    'R-BOUND by type: in modexp every value multiplied is a 64-bit unsigned that was last assigned `… % modulus` with a 32-bit '
    'modulus, so no product wraps. Symmetry: compute_public and derive_shared_secret both call modexp with the same prime; the '
    'secret is SHA-256 of the 4-byte big-endian scalar. R-FIELDS/R-FLOW: the key material is make_handshake_material(own public, '
    'offered public), which depends on both parameters only through std::sort of the pair (order independent, so both ends build '
    'the same bytes); the session key is HmacSha256::compute(shared_secret.bytes, material) and nothing else.')
ASSUMPTIONS = ['Diffie-Hellman agreement g^(ab) = g^(ba) for all scalars is number theory and not decided',
               'the same clause about local inputs (clock, random) in the key derivation is checked by C39']

KE = 'ephemeralnet::network::KeyExchange::'
KM = 'ephemeralnet::network::KeyManager::'
N = 'ephemeralnet::Node::'
NA = 'ephemeralnet::(anonymous namespace)::'


def run(ck):
    P = ck.prog(['src/network/KeyExchange.cpp'])
    vp = P.fn(KE + 'validate_public')
    ck.touch(vp)
    pd = vp.params[0]['d']
    rets = [i for i in vp.walk() if vp.nodes[i]['k'] == 'ReturnStmt']
    ok = False
    found = []
    if len(rets) == 1:
        e = vp.strip(vp.kids(rets[0])[0])
        if vp.nodes[e].get('op') == '&&':
            for side in vp.kids(e):
                c = comparison(vp, side)
                if c:
                    op, a, b = c
                    if declref(vp, b, pd) is not None:
                        op, a, b = {'<': '>', '>': '<', '<=': '>=', '>=': '<='}.get(op, op), b, a
                    if declref(vp, a, pd) is not None:
                        found.append((op, const_value(vp, b)))
    kprime = None
    for g in P.globals:
        if g.endswith('KeyExchange::kPrime'):
            kprime = P.global_const(g)
    if kprime is None:
        # static constexpr member: read it from a reference
        for f in P.fns:
            for i in f.walk():
                if f.nodes[i].get('n') == 'kPrime' and 'cv' in f.nodes[i]:
                    kprime = int(f.nodes[i]['cv'])
    ok = sorted(found, key=str) == sorted([('>', 1), ('<', kprime)], key=str) and kprime == 2 ** 31 - 1
    ck.ob('C12.public', 'C12.public/open-interval', ok, vp.loc(),
          'validate_public(c) is exactly c > 1 && c < kPrime with kPrime = 2^31 - 1 (found %s, kPrime = %s)' % (found, kprime))

    # ---- modexp width discipline ----------------------------------------------------------------------
    me = P.fn(KE + 'modexp')
    ck.touch(me)
    mod_d = me.params[2]['d']
    mod_bits = (int_type(me.params[2]['t']) or (0, 0))[0]
    muls = [i for i in me.walk() if me.nodes[i]['k'] == 'BinaryOperator' and me.nodes[i].get('op') == '*']
    ck.floor('C12.modexp', 'multiplications in modexp', len(muls), 2)
    for m in muls:
        okm = True
        why = ''
        for opnd in me.kids(m):
            d = declref(me, opnd)
            t = me.nodes[me.strip(opnd)].get('t', '')
            it = int_type(t)
            if d is None or it is None or it[0] < 64 or it[1]:
                okm, why = False, 'operand %s is not a 64-bit unsigned variable' % me.text(opnd)
                break
            # every definition of the operand is `… % modulus` (or a parameter reduced before use)
            for kind, rhs, site in all_defs(me, d):
                e = me.strip(rhs) if rhs is not None else None
                if kind == 'other':
                    # base %= modulus
                    sn = me.nodes[site]
                    if sn['k'] == 'CompoundAssignOperator' and sn.get('op') == '%=' and declref(me, me.kids(site)[1], mod_d) is not None:
                        continue
                    okm, why = False, 'definition %s' % me.text(site)
                    continue
                if e is None or not (me.nodes[e].get('op') == '%' and declref(me, me.kids(e)[1], mod_d) is not None):
                    okm, why = False, 'definition %s is not reduced modulo the modulus' % (me.text(rhs) if rhs is not None else '?')
            if d in [p['d'] for p in me.params]:
                # a parameter must be reduced before the loop: a `%= modulus` that dominates the multiplication
                from sa.paths import Cfg
                cfg = Cfg.of(me)
                red = [w for w in local_writes(me, d) if me.nodes[w].get('op') == '%=']
                if not red or not all(cfg.dominates(cfg.locate(red[0]), cfg.locate(m)) for _ in [0]):
                    okm, why = False, 'parameter %s is multiplied before being reduced' % me.text(opnd)
        ck.ob('C12.modexp', 'C12.modexp/no-wrap#%d' % (muls.index(m) + 1), okm and mod_bits == 32, me.loc(m),
              'both factors of %s are 64-bit values below a 32-bit modulus, so the product cannot wrap%s' % (me.text(m), (' — ' + why) if why else ''))
    # the agreed scalar is the modexp result and nothing else: no branch substitutes another value for it
    ds = P.fn(KE + 'derive_shared_secret')
    mx_ = [i for i in ds.walk() if ds.nodes[i].get('callee') == KE + 'modexp']
    subst = []
    for i in ds.walk():
        nd_ = ds.nodes[i]
        if nd_['k'] == 'VarDecl' and nd_.get('init') is not None and nd_['init'] >= 0 and any(ds.is_in(m_, nd_['init']) or m_ == ds.strip(nd_['init']) for m_ in mx_):
            for kind_, rhs_, site_ in all_defs(ds, nd_['d']):
                if kind_ != 'init':
                    subst.append(site_)
    ck.ob('C12.dh', 'C12.dh/shared-scalar-is-the-modexp-result', len(mx_) == 1 and not subst, ds.loc(subst[0]) if subst else ds.loc(),
          'derive_shared_secret hashes modexp(peer public, own scalar, p) itself: the value is never replaced on some branch (both ends must compute the same number)')
    # a (re-)handshake always installs the key it derived: the table entry is overwritten on every path
    PKM = ck.prog(['src/network/KeyManager.cpp'])
    rg = PKM.fn(KM + 'register_session_with_material')
    ck.touch(rg)
    from sa.paths import Cfg as _Cfg
    installs, other = [], []
    for i in rg.walk():
        nd = rg.nodes[i]
        c_ = nd.get('callee') or ''
        if nd['k'] == 'CXXOperatorCallExpr' and nd.get('op') == '=' and len(rg.kids(i)) == 3:
            l = rg.nodes[rg.strip(rg.kids(i)[1])]
            if l['k'] == 'CXXOperatorCallExpr' and l.get('op') == '[]' and rg.nodes[rg.strip(rg.kids(rg.strip(rg.kids(i)[1]))[1])].get('m', '').endswith('KeyManager::contexts_'):
                installs.append(i)
        if nd['k'] == 'CXXMemberCallExpr' and c_.split('::')[-1] in ('insert_or_assign',) and rg.nodes[rg.strip(rg.receiver(i))].get('m', '').endswith('KeyManager::contexts_'):
            installs.append(i)
        if nd['k'] == 'CXXMemberCallExpr' and c_.split('::')[-1] in ('try_emplace', 'emplace', 'insert') and rg.nodes[rg.strip(rg.receiver(i))].get('m', '').endswith('KeyManager::contexts_'):
            other.append(i)
    cfg_r = _Cfg.of(rg)
    wit = cfg_r.must_pass_from((cfg_r.entry, -1), lambda e, s_=set(installs): e in s_) if installs else ['no unconditional assignment to contexts_[peer]']
    ck.ob('C12.install', 'C12.install/unconditional', wit is None and not other, rg.loc(other[0]) if other else rg.loc(),
          'register_session_with_material overwrites the peer\'s context with the freshly derived key on every path (a kept old context '
          'leaves the two ends of a re-handshake on different keys)', wit)
    # shape: right-to-left square-and-multiply with a single exit that returns the accumulator
    pin(me)
    b_, e_, m_ = (V(x) for x in ('base', 'exponent', 'modulus'))
    r_ = V('result')
    sts = [(op, norm(l), norm(r)) for op, l, r, _i in statements(me)]
    want = [('%=', b_, m_), ('=', r_, norm(('%', ('*', r_, b_), m_))), ('=', b_, norm(('%', ('*', b_, b_), m_))), ('>>=', e_, C(1))]
    rets = [i for i in me.walk() if me.nodes[i]['k'] == 'ReturnStmt']
    jumps = [i for i in me.walk() if me.nodes[i]['k'] in ('BreakStmt', 'ContinueStmt', 'GotoStmt')]
    ret_ok = len(rets) == 1 and norm(canon(me, me.kids(rets[0])[0])) in (r_, norm(('%', r_, m_)))
    lp = [i for i in me.walk() if me.nodes[i]['k'] in ('WhileStmt', 'ForStmt')]
    c = comparison(me, me.nodes[lp[0]]['cond']) if len(lp) == 1 else None
    loop_ok = bool(c) and c[0] in ('>', '!=') and norm(canon(me, c[1])) == e_ and const_value(me, c[2]) == 0
    guard_ok = False
    for i in me.walk():
        nd = me.nodes[i]
        if nd['k'] == 'IfStmt' and norm(canon(me, nd['cond'])) == norm(('&', e_, C(1))):
            inner = [(op, norm(l), norm(r)) for op, l, r, _i in statements(me, nd['then'])]
            guard_ok = inner == [want[1]]
    extra = [x for x in sts if x not in want and not (x[0] == '=' and x[1] == r_ and x[2] in (C(1), norm(('%', C(1), m_))))]
    ck.ob('C12.modexp', 'C12.modexp/square-and-multiply', all(w in sts for w in want) and not extra and ret_ok and not jumps and loop_ok and guard_ok, me.loc(),
          'modexp is right-to-left square-and-multiply: result = result*base %% m under (exponent & 1), base = base*base %% m, exponent >>= 1 '
          'while exponent > 0, one exit returning the accumulator (statements %s, returns %d, jumps %d)' % ([x for x in sts if x not in want][:3], len(rets), len(jumps)))
    # same prime on both sides of the exchange
    cp = P.fn(KE + 'compute_public')
    ds = P.fn(KE + 'derive_shared_secret')
    ck.touch(cp)
    ck.touch(ds)

    def modexp_args(f):
        c = [i for i in f.walk() if f.nodes[i].get('callee') == KE + 'modexp']
        return f, c[0], f.call_args(c[0]) if c else None
    f1, c1, a1 = modexp_args(cp)
    f2, c2, a2 = modexp_args(ds)
    okp = a1 is not None and a2 is not None and f1.nodes[f1.strip(a1[2])].get('n') == 'kPrime' and f2.nodes[f2.strip(a2[2])].get('n') == 'kPrime' \
        and f1.nodes[f1.strip(a1[0])].get('n') == 'kGenerator' and declref(f1, a1[1], cp.params[0]['d']) is not None \
        and declref(f2, a2[1], ds.params[0]['d']) is not None and \
        any(f2.nodes[j]['k'] == 'DeclRefExpr' and f2.nodes[j].get('d') == ds.params[1]['d'] for j in value_sources(f2, a2[0]))
    ck.ob('C12.dh', 'C12.dh/same-group', okp, ds.loc(), 'public = g^private mod p and secret = remote^private mod p use the same prime and the private scalar as exponent')
    # the only reduction applied to the peer's value on its way into modexp is `% p` with the group's prime (any other modulus maps
    # the in-range value p - 1 to something else, and the two ends no longer compute the same scalar)
    mods = [i for i in ds.walk() if ds.nodes[i]['k'] in ('BinaryOperator', 'CompoundAssignOperator') and ds.nodes[i].get('op') in ('%', '%=')]
    bad_mod = [i for i in mods if const_value(ds, ds.kids(i)[1]) != kprime or ds.nodes[ds.strip(ds.kids(i)[1])].get('n') != 'kPrime']
    ck.ob('C12.dh', 'C12.dh/reduction-modulus', not bad_mod, ds.loc(bad_mod[0]) if bad_mod else ds.loc(),
          'derive_shared_secret reduces the peer value, if at all, modulo kPrime itself (found %d reduction(s))' % len(mods))
    dg = [i for i in ds.walk() if ds.nodes[i].get('callee') == 'ephemeralnet::crypto::Sha256::digest']
    okd = len(dg) == 1 and any(j == ds.strip(c2) for j in value_sources(ds, ds.call_args(dg[0])[0]))
    ck.ob('C12.dh', 'C12.dh/secret-is-digest-of-scalar', okd, ds.loc(), 'the shared secret is SHA-256 over the bytes of the shared scalar only')

    # ---- perform_handshake -------------------------------------------------------------------------------
    PN = ck.prog(['src/core/Node.cpp'])
    ph = PN.fn(N + 'perform_handshake')
    ck.touch(ph)
    rk = [p['d'] for p in ph.params if p['n'] == 'remote_public_key']
    if not rk:
        raise AnalysisBroken('perform_handshake lost its remote_public_key parameter')
    rk = rk[0]
    eff = [('derive_shared_secret', i) for i in ph.walk() if ph.nodes[i].get('callee') == KE + 'derive_shared_secret'] + \
          [('register_session_with_material', i) for i in ph.walk() if ph.nodes[i].get('callee') == KM + 'register_session_with_material']
    ck.floor('C12.gate', 'key derivation effects in perform_handshake', len(eff), 2)

    def g(fact):
        kind, node, val = fact
        return kind == 'bool' and val is True and ph.nodes[node].get('callee') == KE + 'validate_public' and declref(ph, ph.call_args(node)[0], rk) is not None
    fails, _ = gate_check(ph, eff, [('validate_public', g)])
    for lab, nid in eff:
        bad = [x for x in fails if x[2] == nid]
        ck.ob('C12.gate', 'C12.gate/' + lab, not bad, ph.loc(nid), '%s is reached only past validate_public(remote_public_key)' % lab, bad[0][3] if bad else None)
    dsc = [i for _l, i in eff if ph.nodes[i].get('callee') == KE + 'derive_shared_secret'][0]
    a = ph.call_args(dsc)
    ck.ob('C12.flow', 'C12.flow/secret-args', ph.nodes[ph.strip(a[0])].get('m') == N + 'identity_scalar_' and declref(ph, a[1], rk) is not None, ph.loc(dsc),
          'derive_shared_secret(own private scalar, offered public key)')
    reg = [i for _l, i in eff if ph.nodes[i].get('callee') == KM + 'register_session_with_material'][0]
    ra = ph.call_args(reg)
    secret_ok = any(j == ph.strip(dsc) for j in value_sources(ph, ra[1]))
    mat = [j for j in value_sources(ph, ra[2]) if ph.nodes[j].get('callee') == NA + 'make_handshake_material']
    mat_ok = len(mat) == 1 and ph.nodes[ph.strip(ph.call_args(mat[0])[0])].get('m') == N + 'identity_public_' and declref(ph, ph.call_args(mat[0])[1], rk) is not None
    ck.ob('C12.flow', 'C12.flow/register-args', secret_ok and mat_ok, ph.loc(reg),
          'register_session_with_material(peer, derive_shared_secret(…), make_handshake_material(identity_public_, remote_public_key), now)')
    # own public key matches own scalar
    ctor = [f for f in PN.fns if f.q == N + 'Node' and f.kind == 'ctor']
    okpub = False
    for f in ctor:
        for i in f.walk():
            nd = f.nodes[i]
            if nd['k'] == 'CtorInit' and nd.get('m') == N + 'identity_public_':
                okpub = any(f.nodes[j].get('callee') == KE + 'compute_public' and
                            any(f.nodes[x].get('m') == N + 'identity_scalar_' or f.nodes[x].get('n') == 'identity_scalar_' for x in f.walk(j)) for j in f.walk(i))
    ck.ob('C12.flow', 'C12.flow/own-public', okpub, ctor[0].loc() if ctor else '', 'identity_public_ is compute_public(identity_scalar_)')

    # ---- make_handshake_material: both keys, order independent ---------------------------------------------
    mh = PN.fn(NA + 'make_handshake_material')
    ck.touch(mh)
    ord_v = [mh.nodes[i] for i in mh.walk() if mh.nodes[i]['k'] == 'VarDecl' and 'std::array<unsigned int, 2>' in mh.nodes[i].get('t', '')]
    ok_pair = len(ord_v) == 1 and all(any(mh.nodes[j]['k'] == 'DeclRefExpr' and mh.nodes[j].get('d') == p['d'] for j in mh.walk(ord_v[0]['init'])) for p in mh.params)
    sorts = [i for i in mh.walk() if mh.nodes[i].get('callee') == 'std::sort']
    ok_sort = len(sorts) == 1 and ord_v and all(declref(mh, mh.receiver(mh.strip(x)), ord_v[0]['d']) is not None for x in mh.call_args(sorts[0])[:2]) and len(mh.call_args(sorts[0])) == 2
    # after the sort nothing refers to the parameters directly
    from sa.paths import Cfg
    cfg = Cfg.of(mh)
    late = [j for j in mh.walk() if mh.nodes[j]['k'] == 'DeclRefExpr' and mh.nodes[j].get('d') in [p['d'] for p in mh.params] and sorts and
            cfg.locate(j) and cfg.dominates(cfg.locate(sorts[0]), cfg.locate(j)) and not mh.is_in(j, sorts[0])]
    ret_ok = all(any(mh.nodes[j]['k'] == 'DeclRefExpr' and ord_v and mh.nodes[j].get('d') == ord_v[0]['d'] for j in value_sources(mh, mh.kids(r)[0]))
                 for r in mh.walk() if mh.nodes[r]['k'] == 'ReturnStmt')
    ck.ob('C12.material', 'C12.material/symmetric', ok_pair and ok_sort and not late and ret_ok, mh.loc(),
          'make_handshake_material uses both public keys only through a std::sort of the pair, so both ends produce the same bytes')
    # ---- register_session_with_material: key = HMAC(secret, material) --------------------------------------------
    PK = ck.prog(['src/network/KeyManager.cpp'])
    rs = PK.fn(KM + 'register_session_with_material')
    ck.touch(rs)
    hm = [i for i in rs.walk() if rs.nodes[i].get('callee') == 'ephemeralnet::crypto::HmacSha256::compute']
    okh = False
    if len(hm) == 1:
        ha = rs.call_args(hm[0])
        okh = any(rs.nodes[j].get('m') == 'ephemeralnet::crypto::Key::bytes' and declref(rs, rs.kids(j)[0], rs.params[1]['d']) is not None for j in value_sources(rs, ha[0])) and \
            declref(rs, ha[1], rs.params[2]['d']) is not None
        cur = [(l, r) for l, r, s in __import__('props.common', fromlist=['assignments']).assignments(rs) if rs.nodes[rs.strip(l)].get('n') == 'current_key']
        okh = okh and len(cur) == 1 and any(j == rs.strip(hm[0]) for j in value_sources(rs, cur[0][1]))
    ck.ob('C12.material', 'C12.material/key-is-hmac', okh, rs.loc(), 'the session key is HmacSha256::compute(shared_secret.bytes, material) and nothing else')

    # ---- an agreed key stays until it is replaced: the key manager never drops a session context (no erase / clear / eviction) ----------------------
    PKM = ck.prog(['src/network/KeyManager.cpp'])
    drops = [(f, i) for f in PKM.fns if f.file.endswith('KeyManager.cpp') for i in f.walk()
             if f.nodes[i]['k'] == 'CXXMemberCallExpr' and (f.nodes[i].get('callee') or '').split('::')[-1] in ('erase', 'clear', 'extract') and 'unordered_map' in (f.nodes[i].get('callee') or '')]
    ck.ob('C12.install', 'C12.install/no-context-eviction', not drops, drops[0][0].loc(drops[0][1]) if drops else '',
          'KeyManager never erases a session context (a bounded table that evicts the oldest peer leaves that peer holding a key this node no longer has)')

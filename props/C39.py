"""C39 — key rotation never leaves the two ends of a session on different keys."""
from sa.flow import value_sources, field_accesses
from sa.paths import must_pass_before_next_iteration, loops, Cfg
from sa.build import AnalysisBroken
from props.common import declref

UNITS = ['src/network/KeyManager.cpp', 'src/core/Node.cpp']
LEVEL = 'other'
EXPLANATION = (
    'Two structural necessary conditions of agreement. (taint) Shared-inputs-only rule: every value that flows into the HMAC '
    'producing a session key (KeyManager::derive_key, register_session, register_session_with_material) derives only from data '
    'both ends hold — the shared secret, the handshake material passed by the caller and the rotation counter; a local '
    'steady_clock reading, a time_point parameter or a random source in that data makes the two ends derive different keys. '
    '(coord) Coordination rule: every installation of a rotated key into a live session (rotate_if_needed result handed to '
    'SessionManager::register_peer_key) is paired with a message to the peer or a teardown of the session. Both conditions '
    'fail on the pinned tree (known findings): rotation is local, uncoordinated and mixes the local clock into the key.')
ASSUMPTIONS = ['with both conditions repaired, the remaining question (both ends switching at the same message boundary) needs a protocol '
               'model and is not decided here']

KM = 'ephemeralnet::network::KeyManager::'
HMAC = 'ephemeralnet::crypto::HmacSha256::compute'
N = 'ephemeralnet::Node::'
SM = 'ephemeralnet::network::SessionManager::'


def local_sources(fn, node):
    """Names of inherently local inputs among the sources of `node`."""
    bad = []
    for j in value_sources(fn, node):
        nd = fn.nodes[j]
        c = nd.get('callee', '')
        if c.endswith('steady_clock::now') or c.endswith('system_clock::now') or 'random_device' in c or 'mt19937' in c:
            bad.append(c.split('::')[-2] + '::' + c.split('::')[-1])
        if nd['k'] == 'DeclRefExpr' and nd.get('dk') == 'ParmVar' and 'time_point' in nd.get('t', ''):
            bad.append('time_point parameter ' + nd['n'])
        if nd['k'] == 'MemberExpr' and nd.get('n') in ('last_rotation',) and 'time_point' in nd.get('t', ''):
            bad.append('field last_rotation')
    return sorted(set(bad))


def run(ck):
    P = ck.prog(['src/network/KeyManager.cpp'])
    n = 0
    for f in P.fns:
        if not f.q.startswith(KM):
            continue
        for c in f.calls(HMAC):
            n += 1
            ck.touch(f)
            a = f.call_args(c)
            bad = local_sources(f, a[1]) + local_sources(f, a[0])
            ck.ob('C39.taint', 'C39.taint/%s' % f.name.split('::')[-1], not bad, f.loc(c),
                  'the session key computed in %s depends only on inputs both ends share (local inputs found: %s)' % (f.name, bad or 'none'))
    ck.floor('C39.taint', 'session-key derivations (HmacSha256::compute in KeyManager)', n, 2)
    # the material handed to register_session_with_material by each caller is shared data as well
    ncall = 0
    for PP in (P, ck.prog(['src/core/Node.cpp'])):
        for f in PP.fns:
            for c in f.calls(KM + 'register_session_with_material'):
                if not (f.file.endswith('KeyManager.cpp') or f.file.endswith('Node.cpp')):
                    continue
                ncall += 1
                ck.touch(f)
                bad = local_sources(f, f.call_args(c)[2])
                ck.ob('C39.taint', 'C39.taint/material-from-%s' % f.name.split('::')[-1], not bad, f.loc(c),
                      'the key material %s passes to register_session_with_material is data both ends hold (local inputs found: %s)'
                      % (f.name, bad or 'none'))
    ck.floor('C39.taint', 'callers of register_session_with_material', ncall, 2)
    # a rotation that derives from the counter only must also step the counter identically: counter += 1 on rotation
    rn = P.fn(KM + 'rotate_if_needed')
    ck.touch(rn)
    inc = [i for i in rn.walk() if rn.nodes[i]['k'] == 'CompoundAssignOperator' and rn.nodes[i].get('op') == '+=' and
           rn.nodes[rn.strip(rn.kids(i)[0])].get('n') == 'counter']
    ck.ob('C39.taint', 'C39.taint/rotation-counter', len(inc) == 1, rn.loc(), 'each rotation advances the shared counter by one')

    # the rotation schedule is anchored at the shared handshake: a rotation is due only when a whole interval has elapsed since
    # last_rotation, compared as std::chrono durations (no narrowing / unsigned reinterpretation of the elapsed time), and a
    # (re-)registration always restarts the schedule at the reference time both ends share
    from sa.paths import gate_check
    from sa.match import holds
    from sa.canon import canon
    from sa.flow import field_accesses

    def due_gate(fact):
        h = holds(rn, fact)
        if h is None:
            return False
        a, rel, b = h
        ca, cb = canon(rn, a), canon(rn, b)
        ta, tb = rn.nodes[rn.strip(a, casts=False)].get('t') or '', rn.nodes[rn.strip(b, casts=False)].get('t') or ''
        if 'std::chrono::duration' not in ta or 'std::chrono::duration' not in tb:
            return False
        elapsed = lambda c: c[0] in ('op-', '-') and c[1] == ('v', rn.params[1]['n']) and c[2][0] == 'm' and c[2][2] == 'last_rotation'
        interval = lambda c: c == ('f', 'rotation_interval_')
        return rel == '>=' and elapsed(ca) and interval(cb) or rel == '<=' and elapsed(cb) and interval(ca)
    effects = [('rotation', i) for i in inc]
    for i, m, w in field_accesses(rn):
        if w and m.endswith('SessionKeyContext::current_key'):
            effects.append(('new key', i))
    ck.floor('C39.sched', 'state changes of a rotation in rotate_if_needed', len(effects), 2)
    fails, _n = gate_check(rn, effects, [('now - last_rotation >= rotation_interval_', due_gate)])
    ck.ob('C39.sched', 'C39.sched/rotation-due', not fails, rn.loc(fails[0][2]) if fails else rn.loc(),
          'rotate_if_needed changes the counter and the key only when `now - last_rotation >= rotation_interval_` holds as a comparison of '
          'std::chrono durations (a tick sampled before the handshake gives a negative elapsed time and must not rotate)', fails[0][3] if fails else None)
    rg = P.fn(KM + 'register_session_with_material')
    ck.touch(rg)
    lr = []
    for i in rg.walk():
        nd = rg.nodes[i]
        if nd['k'] in ('BinaryOperator', 'CXXOperatorCallExpr') and nd.get('op') == '=':
            ks = rg.kids(i) if nd['k'] == 'BinaryOperator' else rg.kids(i)[1:]
            l = rg.nodes[rg.strip(ks[0], casts=False)]
            if l['k'] == 'MemberExpr' and l.get('n') == 'last_rotation':
                lr.append((i, canon(rg, ks[1])))
    okr = len(lr) == 1 and lr[0][1] == ('v', rg.params[3]['n'])
    ck.ob('C39.sched', 'C39.sched/registration-restarts-schedule', okr, rg.loc(lr[0][0]) if lr else rg.loc(),
          'register_session_with_material sets last_rotation exactly once, to the reference time of this handshake (found %s)' % [c for _i, c in lr])

    # no other KeyManager function advances a session's key: every write of counter / current_key outside the registration is the
    # gated one above (a bulk "rotate everything that exists" helper would rotate seconds-old sessions on one end only)
    other_rot = []
    for g_ in P.fns:
        if not g_.file.endswith('KeyManager.cpp') or g_.q in (KM + 'rotate_if_needed', KM + 'register_session_with_material', KM + 'register_session'):
            continue
        for i_, m_, w_ in field_accesses(g_):
            if w_ and (m_.endswith('SessionKeyContext::current_key') or m_.endswith('SessionKeyContext::counter')):
                other_rot.append((g_, i_, m_))
    ck.ob('C39.sched', 'C39.sched/single-rotation-site', not other_rot, other_rot[0][0].loc(other_rot[0][1]) if other_rot else rn.loc(),
          'session keys advance only in rotate_if_needed, behind its per-session due test%s'
          % ((' — %s writes %s' % (other_rot[0][0].name, other_rot[0][2].split('::')[-1])) if other_rot else ''))

    PN = ck.prog(['src/core/Node.cpp'])
    # a handshake is answered from the record (without re-deriving the key) only inside the cooldown: a re-handshake over a session
    # that is still open must reset the key both ends share
    ph_ = PN.fn(N + 'perform_handshake')
    ck.touch(ph_)
    from sa.paths import Cfg as _Cfg
    cfg_ph = _Cfg.of(ph_)
    regs_ = [i for i in ph_.walk() if ph_.nodes[i].get('callee') == KM + 'register_session_with_material']
    shortcuts = []
    for r_ in [i for i in ph_.walk() if ph_.nodes[i]['k'] == 'ReturnStmt' and ph_.kids(i) and ph_.nodes[ph_.strip(ph_.kids(i)[0])].get('cv') == '1']:
        if not any(cfg_ph.dominates(cfg_ph.locate(x), cfg_ph.locate(r_)) for x in regs_):
            shortcuts.append(r_)

    def in_cooldown(fact):
        h = holds(ph_, fact)
        if not h:
            return False
        a_, rel, b_ = h
        fld = lambda n_: any(ph_.nodes[j].get('n') == 'handshake_cooldown' and ph_.nodes[j]['k'] == 'MemberExpr' for j in ph_.walk(n_))
        return rel == '<' and fld(b_) or rel == '>' and fld(a_)
    fails_, _n = gate_check(ph_, [('return true without key registration', r_) for r_ in shortcuts], [('elapsed < handshake_cooldown', in_cooldown)])
    ck.ob('C39.sched', 'C39.sched/shortcut-only-in-cooldown', not fails_, ph_.loc(fails_[0][2]) if fails_ else ph_.loc(),
          'perform_handshake returns true without registering a fresh key only while the previous identical handshake is younger than the cooldown '
          '(%d such return(s))' % len(shortcuts), fails_[0][3] if fails_ else None)
    sites = 0
    for q in (N + 'rotate_session_keys', N + 'rotate_session_key'):
        f = PN.fn(q)
        ck.touch(f)
        cfg = Cfg.of(f)
        installs = [i for i in f.walk() if f.nodes[i].get('callee') == SM + 'register_peer_key' and
                    any(f.nodes[j].get('callee') == KM + 'rotate_if_needed' for j in value_sources(f, f.call_args(i)[1]))]
        for ins in installs:
            sites += 1

            def notifies(e, f=f):
                c = f.nodes[e].get('callee', '')
                return c in (N + 'send_secure', SM + 'send', SM + 'send_encrypted', SM + 'close_session', SM + 'disconnect', SM + 'replace_session',
                             N + 'ensure_bootstrap_handshake', N + 'connect_peer') or c.endswith('::notify_key_rotation')
            lp = [l for l in loops(f) if f.is_in(ins, l)]
            if lp:
                wit = must_pass_before_next_iteration(f, cfg.locate(ins)[0], lambda e: notifies(e) and cfg.locate(e) is not None and
                                                      (cfg.locate(e)[0] != cfg.locate(ins)[0] or cfg.locate(e)[1] > cfg.locate(ins)[1]), lp[-1])
            else:
                wit = cfg.must_pass(ins, notifies)
            ck.ob('C39.coord', 'C39.coord/%s' % f.name.split('::')[-1], wit is None, f.loc(ins),
                  'installing a rotated key into the live session is paired with a notification to the peer or a teardown/re-handshake of '
                  'that session', wit)
    ck.floor('C39.coord', 'installations of a rotated key', sites, 2)

    # ---- a rotation restarts the schedule at the tick that performed it: last_rotation = now ------------------------------------------
    # (advancing it by the interval instead makes an end that ticked late rotate again on its next ticks, ahead of its peer)
    lr2 = []
    for i in rn.walk():
        nd = rn.nodes[i]
        if nd['k'] in ('BinaryOperator', 'CXXOperatorCallExpr', 'CompoundAssignOperator') and (nd.get('op') or '').endswith('=') and nd['op'] not in ('==', '!=', '<=', '>='):
            ks = rn.kids(i) if nd['k'] != 'CXXOperatorCallExpr' else rn.kids(i)[1:]
            l = rn.nodes[rn.strip(ks[0], casts=False)]
            if l['k'] == 'MemberExpr' and l.get('n') == 'last_rotation':
                lr2.append((i, nd['op'], canon(rn, ks[1])))
    ok2 = len(lr2) == 1 and lr2[0][1] == '=' and lr2[0][2] == ('v', rn.params[1]['n'])
    ck.ob('C39.sched', 'C39.sched/rotation-restarts-from-now', ok2, rn.loc(lr2[0][0]) if lr2 else rn.loc(),
          'rotate_if_needed sets last_rotation exactly once, to the tick time `now` it was given (found %s)' % [(o, c) for _i, o, c in lr2])

    # ---- every known session is offered the due test on every tick: the rotation pass skips no peer ----------------------------------
    from sa.paths import loops as _loops39, must_pass_before_next_iteration as _mpb, Cfg as _Cfg39
    rsk = PN.fn(N + 'rotate_session_keys')
    ck.touch(rsk)
    lp39 = [l for l in _loops39(rsk) if any((rsk.nodes[j].get('callee') or '') == KM + 'rotate_if_needed' for j in rsk.walk(l))]
    rot_calls = [j for j in rsk.walk() if (rsk.nodes[j].get('callee') or '') == KM + 'rotate_if_needed']
    if len(lp39) != 1 or not rot_calls:
        raise AnalysisBroken('rotate_session_keys lost its loop over the known sessions / its rotate_if_needed call')
    cfg39 = _Cfg39.of(rsk)
    body39 = rsk.nodes[lp39[0]]['body']
    first = None
    for bid, b in cfg39.blocks.items():
        if any(isinstance(e, int) and (e == body39 or rsk.is_in(e, body39)) for e in b['e']):
            if first is None or min(e for e in b['e'] if isinstance(e, int) and (e == body39 or rsk.is_in(e, body39))) < first[1]:
                first = (bid, min(e for e in b['e'] if isinstance(e, int) and (e == body39 or rsk.is_in(e, body39))))
    wit39 = None
    for bid in [s_ for hb in cfg39.blocks.values() if hb.get('term') == lp39[0] for s_ in hb['s'][:1] if s_ is not None and s_ >= 0]:
        wit39 = wit39 or _mpb(rsk, bid, lambda e, s_=set(rot_calls): e in s_ or any(rsk.is_in(x, e) for x in s_), lp39[0])
    ck.ob('C39.sched', 'C39.sched/every-session-offered', wit39 is None, rsk.loc(lp39[0]),
          'rotate_session_keys calls rotate_if_needed for every known peer on every pass (no peer is skipped, e.g. for having no live connection)', wit39)

    # ---- every message is sent under the key manager's current key: send_secure re-installs it in the transport before it sends ----------------
    from sa.paths import must_precede as _mp39
    ss = PN.fn(N + 'send_secure')
    ck.touch(ss)
    snd = [i for i in ss.walk() if (ss.nodes[i].get('callee') or '').endswith('SessionManager::send')]
    reg = [i for i in ss.walk() if (ss.nodes[i].get('callee') or '').endswith('SessionManager::register_peer_key')]
    late39 = _mp39(ss, snd, lambda e, s_=set(reg): e in s_ or any(ss.is_in(x, e) for x in s_)) if snd and reg else [(None, ['send or register_peer_key call missing'])]
    ck.ob('C39.coord', 'C39.coord/send-resyncs-transport-key', not late39, ss.loc(snd[0]) if snd else ss.loc(),
          'send_secure hands key_manager_.current_key(peer) to sessions_.register_peer_key before every sessions_.send (a session dialled from a key snapshot '
          'taken before a rotation is repaired by the next message)', late39[0][1] if late39 else None)

    # ---- a session key is rotated from the tick only: nobody calls rotate_session_key (the one-sided, out-of-schedule rotation) from inside the node
    callers39 = sorted({f.name for f in PN.fns for i in f.walk() if (f.nodes[i].get('callee') or '') == N + 'rotate_session_key'})
    ck.ob('C39.sched', 'C39.sched/no-internal-caller-of-rotate_session_key', not callers39, '',
          'Node::rotate_session_key (public, unscheduled) is not called by the node itself — e.g. "before dialling" — so rotations happen on the shared '
          'tick schedule only (internal callers: %s)' % (callers39 or 'none'))

    # ---- installing a key overwrites the transport's entry: register_peer_key assigns keys_[id], it never emplace()s (which keeps the old key) --------
    PSM = ck.prog(['src/network/SessionManager.cpp'])
    rpk = PSM.fn('ephemeralnet::network::SessionManager::register_peer_key')
    ck.touch(rpk)
    keep_old = [i for i in rpk.walk() if rpk.nodes[i]['k'] == 'CXXMemberCallExpr' and (rpk.nodes[i].get('callee') or '').split('::')[-1] in ('emplace', 'try_emplace', 'insert') and
                rpk.receiver(i) is not None and (rpk.nodes[rpk.strip(rpk.receiver(i))].get('m') or '').endswith('SessionManager::keys_')]
    assign = [i for i in rpk.walk() if rpk.nodes[i]['k'] == 'CXXOperatorCallExpr' and rpk.nodes[i].get('op') == '=' and
              any((rpk.nodes[j].get('m') or '').endswith('SessionManager::keys_') for j in rpk.walk(rpk.kids(i)[1]))] + \
        [i for i in rpk.walk() if (rpk.nodes[i].get('callee') or '').endswith('::insert_or_assign')]
    ck.ob('C39.coord', 'C39.coord/register-overwrites-key', bool(assign) and not keep_old, rpk.loc(keep_old[0]) if keep_old else rpk.loc(),
          'SessionManager::register_peer_key replaces the stored key (keys_[id] = key / insert_or_assign): emplace / insert would keep the first key for ever')

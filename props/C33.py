"""C33 — STUN responses are parsed exactly and safely (numeric abstract interpretation, value gates on return states, XOR table)."""
from sa.absint2 import Analyzer, summarize, report
from sa.absint import Opt, Struct, Ptr
from sa.lin import Lin, as_lin
from sa.canon import canon
from sa.paths import gate_check, implied
from sa.match import holds, const_value
from sa.escape import Escape, short
from sa.build import AnalysisBroken

UNITS = ['src/network/NatTraversal.cpp']
LEVEL = 'proof'
EXPLANATION = (
    'N1 (abstract interpretation over linear forms, Fourier-Motzkin entailment) analyses parse_stun_response for a datagram of '
    'unconstrained length and content. R-BOUND: every data[...], value[...], memcpy and std::equal range lies inside the datagram '
    '(the attribute loop is summarised by inferred invariants, notably `offset + remaining` conserved, and checked inductive); '
    'R-LOOP: the loop has a ranking function. R-GATE by value: bytes read from the datagram are named symbols m[off], 16-bit '
    'big-endian fields are exact (256*m[o]+m[o+1]); in EVERY abstract state that returns an address the path constraints must entail: '
    'type == 0x0101; length >= 20 + message_length; std::equal(transaction id, data+8, 12) was true; the address bytes were copied '
    'from offset o+8 of an attribute at o with type in {0x0001, 0x0020}, family 1 and length >= 8 (4 bytes copied, AF_INET) or '
    'family 2 and length >= 20 (16 bytes copied, AF_INET6), the attribute lies inside the declared message body, and the port is '
    'the big-endian field at o+6 (XORed with 0x2112 exactly when the type is 0x0020). R-TABLE: the XOR statements are exactly '
    'port^=cookie>>16, ipv4^=htonl(cookie), ipv6[0..3]^=cookie bytes, ipv6[4+i]^=transaction_id[i], each reachable only when '
    'attribute type == 0x0020; cookie == 0x2112A442; padding is (len+3)&~3. R-ESC: nothing is thrown.')
ASSUMPTIONS = ['inet_ntop renders the address bytes it is given (libc)', 'htonl is the host-to-network byte swap (libc)',
               'sizes of in_addr / in6_addr are the Linux x86-64 ABI values (4 / 16)']

NS = 'ephemeralnet::network::(anonymous namespace)::'
COOKIE = 0x2112A442


def run(ck):
    P = ck.prog(UNITS)
    f = P.fn(NS + 'parse_stun_response')
    ck.touch(f)
    if len(f.params) != 3:
        raise AnalysisBroken('parse_stun_response no longer takes (data, length, transaction id)')
    an = Analyzer(P, inline=lambda q: q.startswith('ephemeralnet::'))
    rets = an.run(f, pairs={f.params[0]['n']: f.params[1]['n']})
    sites = summarize(an)
    report(ck, 'C33', sites)
    nb = len([1 for e in sites.values() if e['kind'] == 'bound'])
    ck.floor('C33.bound', 'memory-access obligations in parse_stun_response', nb, 20)
    ck.floor('C33.loop', 'loops in parse_stun_response', len([1 for e in sites.values() if e['kind'] == 'loop']), 2)
    for fn_, n_, t_ in an.throws:
        ck.ob('C33.throw', 'C33.throw', False, fn_.loc(n_), 'throw of %s in STUN parsing' % t_)
    ck.extra['n1'] = {'return_states': len(rets), 'loops': an.loop_notes, 'unsupported_expressions': sorted(set(an.unsupported))}

    # ---- gates by value on every address-returning state ---------------------------------------------------------
    data, length, txid = an.param_values
    buf = data.buf
    results = {}          # key -> [ok, site, desc, witness]

    def rec(key, ok, site, desc, wit=None):
        cur = results.setdefault(key, [True, site, desc, None, 0])
        cur[4] += 1
        if not ok and cur[0]:
            cur[0], cur[1], cur[3] = False, site, wit

    npos = 0
    kinds = set()
    for st, v in rets:
        if isinstance(v, Opt) and v.has is False:
            continue
        npos += 1
        site = f.loc(getattr(st, 'ret_site', None))

        def m(off):
            return st.mem.get((buf, as_lin(off).key()))

        def be16(off):
            a, b = m(off), m(as_lin(off) + 1)
            return None if a is None or b is None else a.scale(256) + b

        def eq(e, c):
            return e is not None and st.cons.entails_eq(e - c)

        def known():
            from sa.lin import _cone
            return ['%r <= 0' % c for c in st.cons.cs[:24]]
        copies = [x for x in st.facts if x[0] == 'copy' and x[3] is not None and x[3].buf == buf]
        kind = 'unknown'
        if len(copies) == 1 and isinstance(copies[0][4], Lin) and copies[0][4].is_const():
            kind = {4: 'ipv4', 16: 'ipv6'}.get(int(copies[0][4].c), 'unknown')
        kinds.add(kind)
        K = 'C33.gate/%s/' % kind
        if kind == 'unknown':
            rec(K + 'address-source', False, site, 'an address is returned only after exactly one copy of 4 or 16 address bytes out of the datagram',
                ['copies from the datagram on this path: %s' % (copies,)])
            continue
        rec(K + 'address-source', True, site, 'an address is returned only after exactly one copy of 4 or 16 address bytes out of the datagram')
        wit = lambda what: ['return at %s' % site, what, 'path constraints: ' + '; '.join(known())]
        rec(K + 'type', eq(be16(0), 0x0101), site, 'message type (bytes 0..1, big endian) == 0x0101 (Binding Success) on every returning path',
            wit('type value %r is not forced to 0x0101' % (be16(0),)))
        ml = be16(2)
        ln = st.lens.get(buf)
        rec(K + 'length', ml is not None and ln is not None and st.cons.entails_le(ml + 20 - ln), site,
            'datagram length >= 20 + message length', wit('20 + %r <= %r not entailed' % (ml, ln)))
        ok_tx = False
        for x in st.facts:
            if x[0] == 'equal' and x[2] is not None and x[3] is not None and x[4] is not None:
                ptrs = {(x[2].buf, repr(x[2].off)), (x[3].buf, repr(x[3].off))}
                if ptrs == {(txid.buf, '0'), (buf, '8')} and as_lin(x[4]) == Lin.const(12) and isinstance(x[5], Lin) and st.cons.entails_le(Lin.const(1) - x[5]):
                    ok_tx = True
        rec(K + 'transaction-id', ok_tx, site, 'std::equal over the 12 transaction-id bytes against data+8 was true', wit('no such comparison is forced true on this path'))
        src = copies[0][3]
        o = src.off - 8
        T = be16(o)
        is_plain, is_xor = eq(T, 0x0001), eq(T, 0x0020)
        rec(K + 'attr-type', is_plain or is_xor, site, 'the attribute whose value holds the copied address bytes (value+4) has type 0x0001 or 0x0020',
            wit('attribute at offset %r: type %r' % (o, T)))
        fam = m(o + 5)
        rec(K + 'family', eq(fam, 1 if kind == 'ipv4' else 2), site, 'address family byte (value[1]) == %d' % (1 if kind == 'ipv4' else 2),
            wit('family byte %r' % (fam,)))
        L = be16(o + 2)
        need = 8 if kind == 'ipv4' else 20
        rec(K + 'attr-length', L is not None and st.cons.entails_le(Lin.const(need) - L), site, 'attribute length >= %d' % need, wit('attribute length %r' % (L,)))
        rec(K + 'attr-in-body', L is not None and ml is not None and st.cons.entails_le(Lin.const(20) - o) and st.cons.entails_le(o + 4 + L - 20 - ml), site,
            'the attribute (header + value) lies inside the declared message body: 20 <= o and o + 4 + attr_length <= 20 + message_length',
            wit('o = %r, attr_length = %r, message_length = %r' % (o, L, ml)))
        port = v.value.f.get('port') if isinstance(v, Opt) and isinstance(v.value, Struct) else None
        raw = be16(o + 6)
        ok_port = False
        if port is not None and raw is not None:
            if is_plain:
                ok_port = st.cons.entails_eq(port - raw)
            elif is_xor:
                for x in st.facts:
                    if x[0] == 'xor' and x[4] == port:
                        ops = [x[2], x[3]]
                        cs = [p_ for p_ in ops if p_.is_const()]
                        vs = [p_ for p_ in ops if not p_.is_const()]
                        if len(cs) == 1 and cs[0].c == (COOKIE >> 16) and len(vs) == 1 and st.cons.entails_eq(vs[0] - raw):
                            ok_port = True
        rec(K + 'port', ok_port, site, 'reported port is the big-endian field at value+2, XORed with 0x2112 exactly when the attribute type is 0x0020',
            wit('port %r, field %r, type %r' % (port, raw, T)))
        af = [x for x in st.facts if x[0] == 'call' and x[2].split('::')[-1] == 'inet_ntop']
        want = 2 if kind == 'ipv4' else 10
        rec(K + 'inet-ntop-family', len(af) == 1 and isinstance(af[0][3][0], Lin) and af[0][3][0] == Lin.const(want), site,
            'the address bytes are rendered with inet_ntop(%s)' % ('AF_INET' if kind == 'ipv4' else 'AF_INET6'), wit('inet_ntop calls on the path: %s' % (af,)))
    for key, (ok, site, desc, wit, cnt) in sorted(results.items()):
        ck.ob('C33.gate', key, ok, site, '%s (%d returning state(s))' % (desc, cnt), wit)
    ck.floor('C33.gate', 'abstract states that return an address', npos, 4)
    for kind in ('ipv4', 'ipv6'):
        ck.ob('C33.gate', 'C33.gate/%s/reachable' % kind, kind in kinds, f.loc(), 'an %s address can be reported (the analysis reached that return)' % kind)

    # ---- R-TABLE: XOR statements, cookie, padding --------------------------------------------------------------------
    cookie = None
    for g in P.globals:
        if g.endswith('kStunMagicCookie'):
            cookie = P.global_const(g)
    ck.ob('C33.table', 'C33.table/cookie', cookie == COOKIE, f.loc(), 'kStunMagicCookie == 0x2112A442 (found %s)' % (hex(cookie) if cookie is not None else None))
    xors = []
    for i in f.walk():
        nd = f.nodes[i]
        if nd['k'] == 'CompoundAssignOperator' and nd.get('op') == '^=':
            xors.append(i)
        elif nd['k'] == 'BinaryOperator' and nd.get('op') == '^':
            xors.append(i)
    ck.floor('C33.table', 'XOR operations in parse_stun_response', len(xors), 7)
    shapes = []
    for i in xors:
        l, r = f.kids(i)
        shapes.append((i, shape(f, l), shape(f, resolve_const_local(f, r))))
    expected = [
        ('port', ('var', 'unsigned short'), ('c', COOKIE >> 16)),
        ('ipv4', ('var', 'unsigned int'), ('call', 'htonl', ('c', COOKIE))),
        ('ipv6[0]', ('idx', 0), ('c', (COOKIE >> 24) & 0xFF)),
        ('ipv6[1]', ('idx', 1), ('c', (COOKIE >> 16) & 0xFF)),
        ('ipv6[2]', ('idx', 2), ('c', (COOKIE >> 8) & 0xFF)),
        ('ipv6[3]', ('idx', 3), ('c', COOKIE & 0xFF)),
        ('ipv6[4+i]', ('idx', ('+', 4, 'i')), ('idx', 'i')),
    ]
    used = set()
    for name, tgt, rhs in expected:
        hit = [i for i, a, b in shapes if a == tgt and b == rhs and i not in used]
        ck.ob('C33.table', 'C33.table/xor/' + name, len(hit) == 1, f.loc(hit[0]) if hit else f.loc(),
              'exactly one XOR `%s ^= %s` (found %d; all XORs: %s)' % (tgt, rhs, len(hit), [(a, b) for _i, a, b in shapes]))
        used |= set(hit)
    extra = [i for i, _a, _b in shapes if i not in used]
    ck.ob('C33.table', 'C33.table/xor/no-other', not extra, f.loc(extra[0]) if extra else f.loc(), 'no XOR other than the seven RFC 5389 ones (%d extra)' % len(extra))
    # each XOR only under attribute type == 0x0020

    def is_xor_gate(fact):
        h = holds(f, fact)
        if h is None:
            return False
        a, rel, b = h
        if rel != '==':
            return False
        for x, y in ((a, b), (b, a)):
            if const_value(f, y) == 0x0020 and is_be16_of_param(f, resolve_const_local(f, x)):
                return True
        return False
    fails, checked = gate_check(f, [('xor@%d' % f.nodes[i].get('l', 0), i) for i in xors], [('attr_type == 0x0020', is_xor_gate)])
    ck.ob('C33.table', 'C33.table/xor/only-for-0x0020', not fails and checked == len(xors), f.loc(fails[0][2]) if fails else f.loc(),
          'every XOR is reachable only when the attribute type equals 0x0020 (%d checked)' % checked, fails[0][3] if fails else None)
    # padding
    pad = []
    for i in f.walk():
        nd = f.nodes[i]
        if nd['k'] == 'BinaryOperator' and nd.get('op') == '&':
            c = canon(f, i)
            if c[0] == '&' and ('c', 0xFFFFFFFC) in c[1:] and any(x[0] == '+' and ('c', 3) in x[1:] for x in c[1:]):
                pad.append(i)
    ck.ob('C33.table', 'C33.table/padding', len(pad) == 1, f.loc(pad[0]) if pad else f.loc(), 'attribute values are padded to a multiple of 4: (length + 3) & ~3')

    # ---- every inet_ntop of the unit is given room for the longest text of its family (a short buffer makes inet_ntop fail with ENOSPC:
    # long IPv6 addresses are then skipped, or a later attribute's address is reported instead) ----
    import re as _re33
    nt = [(g, i) for g in P.fns for i in g.walk() if (g.nodes[i].get('callee') or '').split('::')[-1] == 'inet_ntop']
    ck.floor('C33.table', 'inet_ntop calls in NatTraversal.cpp', len(nt), 2)
    for g, i in nt:
        a = g.call_args(i)
        fam = g.nodes[g.strip(a[0])].get('cv')
        need = 16 if fam == '2' else 46
        bt = [g.nodes[j].get('t') or '' for j in g.walk(a[2]) if g.nodes[j]['k'] == 'DeclRefExpr']
        m_ = _re33.match(r'char\[(\d+)\]$', bt[0]) if bt else None
        cap = int(m_.group(1)) if m_ else None
        szv = [g.nodes[j].get('cv') for j in g.walk(a[3]) if g.nodes[j].get('cv') is not None]
        sz = int(szv[0]) if szv else None
        ok33 = cap is not None and sz is not None and need <= sz <= cap
        ck.ob('C33.table', 'C33.table/inet-ntop-buffer/%s:%s' % (g.q.split('::')[-1], 'AF_INET' if fam == '2' else 'AF_INET6' if fam == '10' else 'family-not-constant'),
              ok33, g.loc(i), 'inet_ntop writes into a char array of constant size with %d <= stated size <= capacity (found capacity %s, size %s): '
              '16 bytes suffice only when the family is the constant AF_INET, every other call needs INET6_ADDRSTRLEN' % (need, cap, sz))

    # ---- R-ESC --------------------------------------------------------------------------------------------------------
    E = Escape(P)
    esc = E.esc.get(f.q, {})
    ck.ob('C33.escape', 'C33.escape', not esc, f.loc(), 'no exception leaves parse_stun_response' + (' — escaping: %s' % sorted(esc) if esc else ''),
          ['%s: %s' % (t, ' | '.join(E.path(f.q, t))) for t in sorted(esc)] or None)


def resolve_const_local(f, n):
    """Follow a reference to a local that is initialised once and never written to its initialiser."""
    from sa.paths import unique_init
    seen = 0
    while seen < 6:
        seen += 1
        s = f.strip(n)
        nd = f.nodes[s]
        if nd['k'] == 'DeclRefExpr' and nd.get('dk') == 'Var':
            init = unique_init(f, nd['d'], s)
            if init is not None:
                n = init
                continue
        return s
    return f.strip(n)


def shape(f, n):
    """Name-free shape of an XOR operand."""
    s = f.strip(n)
    nd = f.nodes[s]
    c = canon(f, s)
    if c[0] == 'c':
        return c
    if nd['k'] == 'DeclRefExpr':
        return ('var', (nd.get('t') or '').replace('const ', ''))
    if c[0] == 'idx':
        ix = c[2]
        if ix[0] == 'c':
            return ('idx', ix[1])
        if ix[0] == 'v':
            return ('idx', 'i')
        if ix[0] == '+' and len(ix) == 3 and ix[1][0] == 'c' and ix[2][0] == 'v':
            return ('idx', ('+', ix[1][1], 'i'))
        return ('idx', '?')
    if c[0] == 'call':
        return ('call', c[1]) + tuple(x if x[0] == 'c' else ('?',) for x in c[2:])
    return ('?', c[0])


def is_be16_of_param(f, n):
    """(p[x] << 8) | p[x+1] over the first parameter."""
    c = canon(f, n)
    if c[0] != '|' or len(c) != 3:
        return False
    hi = [x for x in c[1:] if x[0] == '<<']
    lo = [x for x in c[1:] if x[0] == 'idx']
    if len(hi) != 1 or len(lo) != 1 or hi[0][2] != ('c', 8) or hi[0][1][0] != 'idx':
        return False
    p = f.params[0]['n']
    return hi[0][1][1] == ('v', p) and lo[0][1] == ('v', p)

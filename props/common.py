"""Helpers shared by several property modules (expiry comparisons, clock sources)."""
import re

from sa.flow import origin_chain, derives_from
from sa.match import comparison, holds, FLIP

STEADY_NOW = 'std::chrono::steady_clock::now'
SYSTEM_NOW = 'std::chrono::system_clock::now'


def is_now(fn, node, clocks=(STEADY_NOW, SYSTEM_NOW)):
    """Expression denotes a current-time reading: now() itself, a local initialised from it, or a
    parameter / lambda capture named now / wall_now (time points handed down by the caller)."""
    for i in origin_chain(fn, node):
        nd = fn.nodes[i]
        if nd.get('callee') in clocks:
            return True
        if nd['k'] == 'DeclRefExpr' and nd.get('n') in ('now', 'wall_now', 'current_time') and 'time_point' in nd.get('t', ''):
            return True
    return False


def is_expiry_field(fn, node, names=('expires_at',)):
    n = fn.strip(node)
    nd = fn.nodes[n]
    if nd['k'] == 'MemberExpr' and nd.get('n') in names:
        return True
    if nd['k'] == 'DeclRefExpr' and nd.get('n') in names:
        return True
    return False


def expiry_comparisons(fn, names=('expires_at',)):
    """[(node, form)] for every comparison between a now-value and an expiry field, with form the
    relation normalised to `now REL deadline`."""
    out = []
    for i in fn.walk():
        c = comparison(fn, i)
        if c is None:
            continue
        # skip the inner node of a rewritten comparison (handled at the outer node)
        op, a, b = c
        if op in ('==', '!='):
            continue
        if is_now(fn, a) and is_expiry_field(fn, b, names):
            out.append((i, op))
        elif is_now(fn, b) and is_expiry_field(fn, a, names):
            out.append((i, FLIP[op]))
    # de-duplicate nested wrappers reporting the same operands
    seen = set()
    res = []
    for i, op in out:
        key = (fn.nodes[i].get('l'), op, fn.text(i))
        if key in seen:
            continue
        seen.add(key)
        res.append((i, op))
    return res


def expired_fact(fn, names=('expires_at',)):
    """Pass-fact predicate: the edge implies `now >= deadline` (the record is expired)."""
    def is_pass(fact):
        h = holds(fn, fact)
        if h is None:
            return False
        a, rel, b = h
        return (rel == '>=' and is_now(fn, a) and is_expiry_field(fn, b, names)) or \
               (rel == '<=' and is_now(fn, b) and is_expiry_field(fn, a, names))
    return is_pass


def live_fact(fn, names=('expires_at',)):
    """Pass-fact predicate: the edge implies `now < deadline` (the record is live)."""
    def is_pass(fact):
        h = holds(fn, fact)
        if h is None:
            return False
        a, rel, b = h
        return (rel == '<' and is_now(fn, a) and is_expiry_field(fn, b, names)) or \
               (rel == '>' and is_now(fn, b) and is_expiry_field(fn, a, names))
    return is_pass


def rx(p):
    return re.compile(p)

"""Helpers shared by several property modules (expiry comparisons, clock sources)."""
import re

from sa.flow import origin_chain, derives_from
from sa.match import comparison, holds, FLIP

STEADY_NOW = 'std::chrono::steady_clock::now'
SYSTEM_NOW = 'std::chrono::system_clock::now'


def is_now(fn, node, clocks=(STEADY_NOW, SYSTEM_NOW)):
    """Expression denotes a current-time reading: now() itself, a local initialised from it, or a
    parameter / lambda capture named now / wall_now (time points handed down by the caller)."""
    for i in origin_chain(fn, node):
        nd = fn.nodes[i]
        if nd.get('callee') in clocks:
            return True
        if nd['k'] == 'DeclRefExpr' and nd.get('n') in ('now', 'wall_now', 'current_time') and 'time_point' in nd.get('t', ''):
            return True
    return False


def is_expiry_field(fn, node, names=('expires_at',)):
    n = fn.strip(node)
    nd = fn.nodes[n]
    if nd['k'] == 'MemberExpr' and nd.get('n') in names:
        return True
    if nd['k'] == 'DeclRefExpr' and nd.get('n') in names:
        return True
    return False


def expiry_comparisons(fn, names=('expires_at',)):
    """[(node, form)] for every comparison between a now-value and an expiry field, with form the
    relation normalised to `now REL deadline`."""
    out = []
    for i in fn.walk():
        c = comparison(fn, i)
        if c is None:
            continue
        # skip the inner node of a rewritten comparison (handled at the outer node)
        op, a, b = c
        if op in ('==', '!='):
            continue
        if is_now(fn, a) and is_expiry_field(fn, b, names):
            out.append((i, op))
        elif is_now(fn, b) and is_expiry_field(fn, a, names):
            out.append((i, FLIP[op]))
    # de-duplicate nested wrappers reporting the same operands
    seen = set()
    res = []
    for i, op in out:
        key = (fn.nodes[i].get('l'), op, fn.text(i))
        if key in seen:
            continue
        seen.add(key)
        res.append((i, op))
    return res


def expired_fact(fn, names=('expires_at',)):
    """Pass-fact predicate: the edge implies `now >= deadline` (the record is expired)."""
    def is_pass(fact):
        h = holds(fn, fact)
        if h is None:
            return False
        a, rel, b = h
        return (rel == '>=' and is_now(fn, a) and is_expiry_field(fn, b, names)) or \
               (rel == '<=' and is_now(fn, b) and is_expiry_field(fn, a, names))
    return is_pass


def live_fact(fn, names=('expires_at',)):
    """Pass-fact predicate: the edge implies `now < deadline` (the record is live)."""
    def is_pass(fact):
        h = holds(fn, fact)
        if h is None:
            return False
        a, rel, b = h
        return (rel == '<' and is_now(fn, a) and is_expiry_field(fn, b, names)) or \
               (rel == '>' and is_now(fn, b) and is_expiry_field(fn, a, names))
    return is_pass


def rx(p):
    return re.compile(p)


# ---- small structural helpers shared by the later property modules -------------------------------
def declref(fn, n, d=None):
    """n (stripped) is a reference to local/param decl d (any decl when d is None) -> decl id or None."""
    if n is None:
        return None
    nd = fn.nodes[fn.strip(n)]
    if nd['k'] == 'DeclRefExpr' and (d is None or nd.get('d') == d):
        return nd.get('d')
    return None


def member_on(fn, n, field, base_d=None):
    """n (stripped) is `<base>.field` (qualified field name or suffix) with base a reference to base_d."""
    if n is None:
        return False
    m = fn.strip(n)
    nd = fn.nodes[m]
    if nd['k'] != 'MemberExpr' or not (nd.get('m') == field or nd.get('m', '').endswith('::' + field)):
        return False
    if base_d is None:
        return True
    ks = fn.kids(m)
    return bool(ks) and declref(fn, ks[0], base_d) is not None


def assignments(fn):
    """[(lhs node, rhs node, site)] for every built-in or overloaded `lhs = rhs` in fn."""
    out = []
    for i in fn.walk():
        nd = fn.nodes[i]
        if nd['k'] == 'BinaryOperator' and nd.get('op') == '=':
            l, r = fn.kids(i)
            out.append((l, r, i))
        elif nd['k'] == 'CXXOperatorCallExpr' and nd.get('op') == '=' and len(fn.kids(i)) == 3:
            out.append((fn.kids(i)[1], fn.kids(i)[2], i))
    return out


def field_assigns(fn, d):
    """{field qualified name: [(rhs, site)]} for assignments `x.field = rhs` with x the local d."""
    out = {}
    for l, r, s in assignments(fn):
        m = fn.strip(l, casts=False)
        nd = fn.nodes[m]
        if nd['k'] == 'MemberExpr' and nd.get('mk') == 'Field' and fn.kids(m) and declref(fn, fn.kids(m)[0], d) is not None:
            out.setdefault(nd['m'], []).append((r, s))
    return out


def share_copy_source(fn, out_d, field_pairs):
    """The vector local `out_d` is filled only by push_back(tmp) inside one range-for whose body
    assigns tmp.<dst> = elem.<src> for every (dst, src) in field_pairs (and nothing else to tmp).
    Returns the range expression node of that loop (the source container), else None."""
    from sa.paths import local_writes
    pushes = [w for w in local_writes(fn, out_d)
              if fn.nodes[w]['k'] == 'CXXMemberCallExpr' and fn.nodes[w].get('callee', '').endswith('::push_back')]
    others = [w for w in local_writes(fn, out_d)
              if not (fn.nodes[w]['k'] == 'CXXMemberCallExpr' and fn.nodes[w].get('callee', '').split('::')[-1] in ('push_back', 'reserve'))]
    if len(pushes) != 1 or others:
        return None
    push = pushes[0]
    loop = None
    for a in fn.ancestors(push):
        if fn.nodes[a]['k'] == 'CXXForRangeStmt':
            loop = a
            break
        if fn.nodes[a]['k'] in ('ForStmt', 'WhileStmt', 'DoStmt', 'IfStmt', 'ConditionalOperator'):
            return None           # conditional or counted filling is a different shape
    if loop is None:
        return None
    var = fn.nodes[loop].get('var')
    if var is None:
        return None
    elem_d = fn.nodes[var]['d']
    tmp = declref(fn, fn.call_args(push)[0])
    if tmp is None:
        return None
    fa = field_assigns(fn, tmp)
    want = {dst: src for dst, src in field_pairs}
    if set(fa) != set(want):
        return None
    for dst, lst in fa.items():
        if len(lst) != 1 or not member_on(fn, lst[0][0], want[dst], elem_d):
            return None
        if not fn.is_in(lst[0][1], loop):
            return None
    return fn.nodes[loop].get('range')


def stream_insertions(fn, stream_d, root=None):
    """Operands inserted into the ostream local `stream_d` with operator<<, in evaluation (= source) order."""
    out = []

    def chain(i):
        """i is a `<<` call: returns True if its leftmost operand is the stream; appends operands left to right."""
        nd = fn.nodes[i]
        ks = fn.kids(i)
        if nd['k'] != 'CXXOperatorCallExpr' or nd.get('op') != '<<' or len(ks) != 3:
            return False
        lhs = fn.strip(ks[1])
        ln = fn.nodes[lhs]
        if ln['k'] == 'DeclRefExpr' and ln.get('d') == stream_d:
            out.append(ks[2])
            return True
        if ln['k'] == 'CXXOperatorCallExpr' and ln.get('op') == '<<' and chain(lhs):
            out.append(ks[2])
            return True
        return False

    def rec(i):
        nd = fn.nodes[i]
        if nd['k'] == 'CXXOperatorCallExpr' and nd.get('op') == '<<':
            mark = len(out)
            if chain(i):
                return
            del out[mark:]
        if nd['k'] == 'LambdaExpr':
            return
        for c in fn.kids(i):
            rec(c)
    rec(fn.body if root is None else root)
    return out


def literal_text(fn, n):
    """Text of a string / character literal operand, else None."""
    m = fn.strip(n)
    nd = fn.nodes[m]
    if nd['k'] == 'StringLiteral':
        return nd.get('s', '')
    if nd['k'] == 'CharacterLiteral':
        return chr(int(nd['v']))
    return None


def switch_table(fn, sw):
    """{case constant: [statement nodes of that case up to break]} for a switch statement; 'default' key for default."""
    table = {}
    body = fn.nodes[sw].get('body')
    cur = []
    labels = []

    def flush():
        for l in labels:
            table[l] = list(cur)

    for st in fn.kids(body):
        node = st
        new_labels = []
        while fn.nodes[node]['k'] in ('CaseStmt', 'DefaultStmt'):
            nd = fn.nodes[node]
            if nd['k'] == 'CaseStmt':
                v = None
                for j in fn.walk(nd['lhs']):
                    if 'cv' in fn.nodes[j]:
                        v = int(fn.nodes[j]['cv'])
                        break
                new_labels.append(v)
                node = nd['sub']
            else:
                new_labels.append('default')
                ks = fn.kids(node)
                node = ks[-1] if ks else node
                if fn.nodes[node]['k'] == 'DefaultStmt':
                    break
        if new_labels:
            if cur and labels and fn.nodes[cur[-1]]['k'] != 'BreakStmt':
                pass        # fallthrough: previous labels keep accumulating
            else:
                flush()
                labels, cur = [], []
            labels = labels + new_labels
        cur.append(node)
        if fn.nodes[node]['k'] in ('BreakStmt', 'ReturnStmt'):
            flush()
            labels, cur = [], []
    flush()
    return table


def refusal_reasons(fn, is_refusal):
    """For every return of fn accepted by is_refusal(return node): the canonical forms (sa.canon) of the disjuncts of the condition
    of the nearest enclosing `if` whose then-branch holds it — [(return node, [canonical tuples] or None when unconditional)]."""
    from sa.canon import canon, norm

    def disj(n):
        n = fn.strip(n)
        if fn.nodes[n]['k'] == 'BinaryOperator' and fn.nodes[n].get('op') == '||':
            return disj(fn.kids(n)[0]) + disj(fn.kids(n)[1])
        return [n]
    out = []
    for i in fn.walk():
        if fn.nodes[i]['k'] != 'ReturnStmt' or not is_refusal(i):
            continue
        guard = None
        prev = i
        for a in fn.ancestors(i):
            an = fn.nodes[a]
            if an['k'] == 'IfStmt' and an.get('then') is not None and (prev == an['then'] or fn.is_in(prev, an['then'])):
                guard = an['cond']
                break
            if an['k'] in ('ForStmt', 'WhileStmt', 'CXXForRangeStmt', 'DoStmt', 'LambdaExpr'):
                pass
            prev = a
        out.append((i, None if guard is None else [norm(canon(fn, c)) for c in disj(guard)]))
    return out


def always_scans(fn, container_member):
    """Every path from the entry of fn to a normal exit passes the start of a loop over `container_member` (its begin() call, or
    the range expression of a range-for): returns (loop statements found, witness path or None)."""
    from sa.paths import Cfg, loops
    lps = []
    starts = set()
    for l in loops(fn):
        nd = fn.nodes[l]
        if nd['k'] == 'CXXForRangeStmt':
            if any(fn.nodes[j]['k'] == 'MemberExpr' and fn.nodes[j].get('m') == container_member for j in fn.walk(nd['range'])):
                lps.append(l)
                starts |= {j for j in fn.walk(nd['range'])}
        else:
            ini = nd.get('init')
            if ini is not None and ini >= 0:
                bs = [j for j in fn.walk(ini) if (fn.nodes[j].get('callee') or '').endswith('::begin') and
                      any(fn.nodes[x]['k'] == 'MemberExpr' and fn.nodes[x].get('m') == container_member for x in fn.walk(j))]
                if bs:
                    lps.append(l)
                    starts |= set(bs)
                    starts |= {j for j in fn.walk(ini)}
    if not lps:
        return [], ['no loop over %s' % container_member]
    cfg = Cfg.of(fn)
    wit = cfg.must_pass_from((cfg.entry, -1), lambda e: e in starts)
    return lps, wit


def impure_sites(fn):
    """Nodes of fn that make it stateful: non-const static / thread_local locals, and references to mutable variables at
    namespace scope (std:: objects such as std::cerr excepted)."""
    out = []
    for i in fn.walk():
        nd = fn.nodes[i]
        if nd['k'] == 'VarDecl' and (nd.get('static') or nd.get('tls')) and not nd.get('constexpr') and not (nd.get('const') and 'init' in nd):
            out.append(i)
        if nd['k'] == 'DeclRefExpr' and nd.get('g') and nd.get('dk') == 'Var' and 'cv' not in nd and not (nd.get('t') or '').startswith('const ') \
                and not (nd.get('q') or '').startswith('std::'):
            out.append(i)
    return out


def purity_obligations(ck, rule, fns, why):
    """One obligation per function: it keeps no state between calls (so its result depends on its arguments — and, for
    methods, the object — alone).  The typical violation is a memo / cache / scratch buffer with static storage."""
    from sa.escape import short
    n = 0
    for f in fns:
        if f is None:
            continue
        n += 1
        ck.touch(f)
        imp = impure_sites(f)
        name = short(f.q).split('::')[-1] if '$' not in f.q else short(f.q).split('::', 1)[-1]
        ck.ob(rule, '%s/%s' % (rule, name), not imp, f.loc(imp[0]) if imp else f.loc(),
              '%s keeps no state between calls (no static / thread_local local, no mutable namespace-scope variable): %s' % (short(f.q), why))
    return n


def io_progress_ok(f, io_names):
    """A whole-buffer I/O loop advances its running total by the count the system call returned: returns (ok, node) where node is
    the advancing `+=` (or None)."""
    ios = [i for i in f.walk() if (f.nodes[i].get('callee') or '').lstrip(':') in io_names]
    res = [f.nodes[v]['d'] for v in f.walk() if f.nodes[v]['k'] == 'VarDecl' and f.nodes[v].get('init') is not None and f.nodes[v]['init'] >= 0 and
           any(j in ios for j in f.walk(f.nodes[v]['init']))]
    adv = [i for i in f.walk() if f.nodes[i]['k'] == 'CompoundAssignOperator' and f.nodes[i].get('op') == '+=' and
           f.nodes[f.strip(f.kids(i)[0])]['k'] == 'DeclRefExpr' and f.nodes[f.strip(f.kids(i)[0])].get('dk') in ('Var', 'ParmVar') and not f.nodes[f.strip(f.kids(i)[0])].get('g')]
    # only the advance of a byte offset counts: its right-hand side mentions locals / parameters
    adv = [i for i in adv if any(f.nodes[j]['k'] == 'DeclRefExpr' and f.nodes[j].get('dk') in ('Var', 'ParmVar') for j in f.walk(f.kids(i)[1]))]
    if not ios or not res or not adv:
        return False, (adv[0] if adv else None)
    for a in adv:
        refs = [f.nodes[j].get('d') for j in f.walk(f.kids(a)[1]) if f.nodes[j]['k'] == 'DeclRefExpr' and f.nodes[j].get('dk') in ('Var', 'ParmVar')]
        if not refs or any(d not in res for d in refs):
            return False, a
    return True, adv[0]

"""C07 — routing table answers XOR-closest live peers and keeps bucket shape (structural clauses)."""
from sa.paths import gate_check, must_precede, Cfg, loops
from sa.flow import origin_chain, field_accesses, value_sources, all_defs
from sa.match import holds, const_value, comparison, has_value
from sa.build import AnalysisBroken
from sa.prog import int_type
from props.common import rx, is_now

UNITS = ['src/dht/KademliaTable.cpp']
LEVEL = 'other'
EXPLANATION = (
    'Partial (structural) decision for KademliaTable: (own) buckets_ is written only by upsert_bucket and sweep_buckets; '
    '(shape) in upsert_bucket a new contact is pushed only after the size() >= kBucketSize -> pop_front step with '
    'kBucketSize == 16, the refresh path erases the existing entry before re-inserting one entry that takes address and '
    'expires_at from the new contact; insertion happens only past bucket_index_for(id).has_value(), which returns '
    'nullopt when every byte of self_id ^ peer is zero and otherwise kIdBits - leading_zeros - 1 past '
    'leading_zeros < kIdBits; (closest) candidates pass the expired() filter, are ordered by the comparator '
    'lhs.distance < rhs.distance over xor_distance(contact.id, target), and the result has min(limit, candidates) entries.')
ASSUMPTIONS = ['that bucket_index_for computes the highest differing bit (countl_zero arithmetic) and that XOR distances are '
               'strictly increasing/unique are numeric facts about 256-bit values and are NOT decided here']

KT = 'ephemeralnet::KademliaTable::'
PC = 'ephemeralnet::PeerContact::'
ANON = 'ephemeralnet::(anonymous namespace)::'


def run(ck):
    P = ck.prog(UNITS)
    writers = set()
    for f in P.fns:
        for i, m, w in field_accesses(f):
            if m == KT + 'buckets_' and w:
                root = f
                while root.is_lambda:
                    root = P.fn(root.parent_fn)
                writers.add(root.q)
    # range-for by non-const reference over buckets_ is a write access as well
    for f in P.fns:
        for l in loops(f):
            if f.nodes[l]['k'] == 'CXXForRangeStmt' and f.nodes[f.strip(f.nodes[l]['range'])].get('m') == KT + 'buckets_':
                v = f.nodes[f.nodes[l]['var']]
                if v['t'].endswith('&') and not v['t'].startswith('const '):
                    writers.add(f.q)
    ck.ob('C07.own', 'C07.own/buckets_', writers and writers <= {KT + 'upsert_bucket', KT + 'sweep_buckets', KT + 'KademliaTable'},
          '', 'buckets_ is written only by upsert_bucket and sweep_buckets (found: %s)' % sorted(writers))
    ck.ob('C07.table', 'C07.table/kBucketSize', P.global_const(KT + 'kBucketSize') == 16, '', 'kBucketSize == 16')

    ub = P.fn(KT + 'upsert_bucket')
    ck.touch(ub)
    cpar = ub.params[0]['d']
    pushes = ub.calls(rx(r'deque<.*PeerContact.*::push_back$'))
    ck.floor('C07.shape', 'push_back sites in upsert_bucket', len(pushes), 2)
    new_push = [p for p in pushes if any(ub.nodes[j]['k'] == 'DeclRefExpr' and ub.nodes[j].get('d') == cpar
                                         for j in origin_chain(ub, ub.call_args(p)[0]))]
    ref_push = [p for p in pushes if p not in new_push]
    ck.ob('C07.shape', 'C07.shape/push-kinds', len(new_push) == 1 and len(ref_push) == 1, ub.loc(),
          'upsert_bucket has one push_back for a new contact and one for the refreshed entry')

    def room(fact):
        h = holds(ub, fact)
        if not h:
            return False
        a, rel, b = h
        return rel == '<' and ub.nodes[ub.strip(a)].get('callee', '').endswith('::size') and const_value(ub, b) == 16

    def is_pop(n):
        return ub.nodes[n].get('callee', '').endswith('::pop_front')
    for p in new_push:
        mp = must_precede(ub, [p], is_pop, bypass=room)
        ck.ob('C07.shape', 'C07.shape/evict-before-insert', not mp, ub.loc(p),
              'a new contact is appended only after pop_front when the bucket already holds kBucketSize entries', mp[0][1] if mp else None)
        fails, _ = gate_check(ub, [('push', p)], [('index.has_value', has_value(ub, lambda n: ub.nodes[n].get('callee') == KT + 'bucket_index_for'))])
        ck.ob('C07.shape', 'C07.shape/index-required', not fails, ub.loc(p), 'insertion only when bucket_index_for(id) has a value',
              fails[0][3] if fails else None)
    for p in ref_push:
        def is_erase(n):
            return ub.nodes[n].get('callee', '').endswith('::erase') and \
                any(ub.nodes[j].get('callee') == 'std::find_if' for j in origin_chain(ub, ub.call_args(n)[0]))
        mp = must_precede(ub, [p], is_erase)
        arg = ub.call_args(p)[0]
        srcs = value_sources(ub, arg)
        # refreshed.address / refreshed.expires_at assigned from the new contact
        copied = set()
        for i in ub.walk():
            nd = ub.nodes[i]
            if nd['k'] in ('BinaryOperator', 'CXXOperatorCallExpr') and nd.get('op') == '=':
                ks = ub.kids(i)
                lhs, rhs = (ks[0], ks[1]) if nd['k'] == 'BinaryOperator' else (ks[1], ks[2])
                lm, rm = ub.nodes[ub.strip(lhs)], ub.nodes[ub.strip(rhs)]
                if lm.get('m') in (PC + 'address', PC + 'expires_at') and rm.get('m') == lm.get('m') and \
                        ub.nodes[ub.strip(ub.kids(ub.strip(rhs))[0])].get('d') == cpar:
                    copied.add(lm['m'].split('::')[-1])
        ck.ob('C07.shape', 'C07.shape/refresh-single-entry', not mp and copied == {'address', 'expires_at'}, ub.loc(p),
              'a refreshed contact replaces its old entry (erase before push_back) and takes address and expires_at from the new contact '
              '(copied: %s)' % sorted(copied), mp[0][1] if mp else None)

    bi = P.fn(KT + 'bucket_index_for')
    ck.touch(bi)
    rets = [r for r in bi.walk() if bi.nodes[r]['k'] == 'ReturnStmt' and not any('nullopt' in bi.nodes[j].get('n', '') for j in bi.walk(r))]
    ck.floor('C07.index', 'index-bearing returns of bucket_index_for', len(rets), 1)

    def in_range(fact):
        h = holds(bi, fact)
        if not h:
            return False
        a, rel, b = h
        return rel == '<' and bi.nodes[bi.strip(a)].get('n') == 'leading_zeros' and const_value(bi, b) == 256

    def not_all_zero(fact):
        kind, node, val = fact
        return kind == 'bool' and val is False and bi.nodes[node].get('n') == 'all_zero'
    fails, _ = gate_check(bi, [('return index', r) for r in rets], [('leading_zeros<kIdBits', in_range), ('!all_zero', not_all_zero)])
    failed = {g for _e, g, _n, _p, _c in fails}
    for g in ('leading_zeros<kIdBits', '!all_zero'):
        ck.ob('C07.index', 'C07.index/' + g, g not in failed, bi.loc(), 'an index is returned only past ' + g)
    ok = False
    for r in rets:
        for i in origin_chain(bi, bi.kids(r)[0]):
            t = bi.text(i)
            if 'kIdBits - leading_zeros - 1' in t.replace('(', '').replace(')', ''):
                ok = True
    ck.ob('C07.index', 'C07.index/formula', ok, bi.loc(), 'the index is kIdBits - leading_zeros - 1 (in [0, kIdBits) given the guard)')
    # all_zero is cleared only where a differing byte was found
    az = [bi.nodes[i]['d'] for i in bi.walk() if bi.nodes[i].get('n') == 'all_zero' and bi.nodes[i]['k'] == 'VarDecl']
    defs = [d for d in all_defs(bi, az[0])] if az else []
    ok = len(defs) == 2 and const_value(bi, defs[0][1]) == 1 and const_value(bi, defs[1][1]) == 0
    if ok:
        def diff_nonzero(fact):
            h = holds(bi, fact)
            return bool(h) and h[1] == '!=' and bi.nodes[bi.strip(h[0])].get('n') == 'diff' and const_value(bi, h[2]) == 0
        fails, _ = gate_check(bi, [('all_zero=false', defs[1][2])], [('diff!=0', diff_nonzero)])
        ok = not fails
    ck.ob('C07.index', 'C07.index/own-id-rejected', ok, bi.loc(),
          'all_zero starts true and is cleared only when a byte of self_id ^ peer differs (own id => nullopt => never inserted)')

    # leading zeros of the first differing byte: countl_zero counts in the width of its operand, so a byte widened to W bits needs W - 8 taken off
    clz = [i for i in bi.walk() if (bi.nodes[i].get('callee') or '') == 'std::countl_zero']
    okc = bool(clz)
    for c_ in clz:
        at = (bi.nodes[bi.strip(bi.call_args(c_)[0], casts=False)].get('t') or '').replace('const ', '')
        bits = (int_type(at) or (None, None))[0]
        par = bi.parent(c_)
        while par is not None and bi.nodes[par]['k'] in ('ParenExpr', 'ImplicitCastExpr'):
            par = bi.parent(par)
        corr = None
        if par is not None and bi.nodes[par]['k'] == 'BinaryOperator' and bi.nodes[par].get('op') == '-':
            corr = const_value(bi, bi.kids(par)[1])
        # the operand must derive from an 8-bit value (the xor byte)
        okc = okc and bits in (8, 16, 32, 64) and (corr or 0) == bits - 8
    ck.ob('C07.index', 'C07.index/byte-leading-zeros', okc, bi.loc(clz[0]) if clz else bi.loc(),
          'the leading zeros of the differing byte are countl_zero(widened byte) minus (width - 8)')
    cp = P.fn(KT + 'closest_peers')
    ck.touch(cp)
    cpush = [c for c in cp.calls(rx(r'vector<.*Candidate.*::(push_back|emplace_back)$'))]
    # completeness: every live contact of every bucket becomes a candidate — the insertion sits directly in
    # for (bucket : buckets_) for (contact : bucket) with no exit other than the expired-`continue`
    nested = [(g, c) for g in P.with_lambdas(cp) if g is not cp for c in g.calls(rx(r'vector<.*Candidate.*::(push_back|emplace_back)$'))]
    ck.floor('C07.closest', 'candidate insertions', len(cpush) + len(nested), 1)
    complete = bool(cpush) and not nested
    for c in cpush:
        lps = [a for a in cp.ancestors(c) if cp.nodes[a]['k'] in ('CXXForRangeStmt', 'ForStmt', 'WhileStmt', 'DoStmt')]
        ok_nest = len(lps) == 2 and all(cp.nodes[l]['k'] == 'CXXForRangeStmt' for l in lps) and \
            cp.nodes[cp.strip(cp.nodes[lps[1]]['range'])].get('m') == KT + 'buckets_' and \
            cp.nodes[cp.strip(cp.nodes[lps[0]]['range'])].get('d') == cp.nodes[cp.nodes[lps[1]]['var']]['d']
        exits = [j for j in cp.walk(lps[-1]) if cp.nodes[j]['k'] in ('BreakStmt', 'ReturnStmt', 'GotoStmt')] if lps else [0]
        conts = [j for j in cp.walk(lps[-1]) if cp.nodes[j]['k'] == 'ContinueStmt'] if lps else []
        cont_ok = True
        for j in conts:
            gi = [a for a in cp.ancestors(j) if cp.nodes[a]['k'] == 'IfStmt']
            cond = cp.nodes[gi[0]]['cond'] if gi else None
            cont_ok = cont_ok and cond is not None and cp.nodes[cp.strip(cond)].get('callee') == ANON + 'expired'
        complete = complete and ok_nest and not exits and cont_ok
    ck.ob('C07.closest', 'C07.closest/complete', complete, cp.loc(),
          'every unexpired contact of every bucket is ranked: the candidate insertion sits in for (bucket : buckets_) for (contact : bucket) '
          'with no break/return and only the expired-`continue` (an early stop by count would miss nearer live peers)')
    if not cpush:
        return

    def live(fact):
        kind, node, val = fact
        return kind == 'bool' and val is False and cp.nodes[node].get('callee') == ANON + 'expired' and is_now(cp, cp.call_args(node)[1])
    fails, _ = gate_check(cp, [('candidate', c) for c in cpush], [('!expired', live)])
    ck.ob('C07.closest', 'C07.closest/live-only', not fails, cp.loc(), 'only unexpired contacts become candidates', fails[0][3] if fails else None)
    ok = all(any(cp.nodes[j].get('callee') == KT + 'xor_distance' for j in cp.walk(c)) for c in cpush)
    xd = [j for c in cpush for j in cp.walk(c) if cp.nodes[j].get('callee') == KT + 'xor_distance']
    if ok:
        a = cp.call_args(xd[0])
        ok = cp.nodes[cp.strip(a[0])].get('m') == PC + 'id' and cp.nodes[cp.strip(a[1])].get('d') == cp.params[0]['d']
    ck.ob('C07.closest', 'C07.closest/distance', ok, cp.loc(), 'candidate distance is xor_distance(contact.id, target)')
    okc = False
    for lam in P.lambdas_of(cp.q):
        rr = [x for x in lam.walk() if lam.nodes[x]['k'] == 'ReturnStmt']
        c = comparison(lam, lam.kids(rr[0])[0]) if len(rr) == 1 else None
        if c and c[0] == '<' and lam.nodes[lam.strip(c[1])].get('n') == 'distance' and lam.nodes[lam.strip(c[2])].get('n') == 'distance' \
                and lam.nodes[lam.strip(lam.kids(lam.strip(c[1]))[0])].get('d') == lam.params[0]['d'] \
                and lam.nodes[lam.strip(lam.kids(lam.strip(c[2]))[0])].get('d') == lam.params[1]['d']:
            okc = True
    ck.ob('C07.closest', 'C07.closest/ascending', okc and bool(cp.calls('std::sort')), cp.loc(), 'candidates are sorted with lhs.distance < rhs.distance')
    # result length: loop i < min(limit, candidates.size())
    rp = cp.calls(rx(r'vector<.*PeerContact.*::push_back$'))
    okl = False
    for l in loops(cp):
        if cp.nodes[l]['k'] == 'ForStmt' and any(cp.is_in(r, l) for r in rp):
            c = comparison(cp, cp.nodes[l]['cond'])
            if c and c[0] == '<':
                srcs = value_sources(cp, c[2])
                mn = [j for j in srcs if cp.nodes[j].get('callee') == 'std::min']
                if mn:
                    a = cp.call_args(mn[0])
                    okl = any(cp.nodes[cp.strip(x)].get('d') == cp.params[1]['d'] for x in a) and \
                        any(cp.nodes[cp.strip(x)].get('callee', '').endswith('::size') for x in a)
    ck.ob('C07.closest', 'C07.closest/length', okl, cp.loc(), 'the result has min(limit, candidates.size()) entries, taken from the front of the sorted list')
    xf = P.fn(KT + 'xor_distance')
    ok = any(xf.nodes[j].get('op') == '^' for j in xf.walk()) and len(loops(xf)) == 1
    ck.ob('C07.closest', 'C07.closest/xor', ok, xf.loc(), 'xor_distance is the byte-wise XOR over the whole id')

    # ---- every announcement refreshes the routing entry, and the bucket is purged of expired contacts before anything else ---------
    from sa.paths import Cfg as _Cfg7, must_precede as _mp7
    ac7 = P.fn(KT + 'add_contact')
    ck.touch(ac7)
    ub_calls = [i for i in ac7.walk() if ac7.nodes[i].get('callee') == KT + 'upsert_bucket']
    cfg_ac = _Cfg7.of(ac7)
    wit7 = cfg_ac.must_pass_from((cfg_ac.entry, -1), lambda e, s_=set(ub_calls): e in s_ or any(ac7.is_in(x, e) for x in s_) and ac7.nodes[e]['k'] == 'ExprWithCleanups') if ub_calls else ['no call']
    ck.ob('C07.bucket', 'C07.bucket/announce-always-refreshes', wit7 is None, ac7.loc(),
          'every add_contact goes through upsert_bucket (a re-announcement renews the routing entry\'s lease)', wit7)
    purge = [i for i in ub.walk() if (ub.nodes[i].get('callee') or '').endswith('::erase') and any(ub.nodes[j].get('callee') == 'std::remove_if' for j in ub.walk(i))]
    pops = [i for i in ub.walk() if (ub.nodes[i].get('callee') or '').split('::')[-1] in ('pop_front', 'push_back', 'emplace_back')]
    bad7 = _mp7(ub, pops, lambda e: e in purge or any(ub.is_in(x, e) for x in purge) and ub.nodes[e]['k'] == 'ExprWithCleanups') if purge else [('none', ['no purge of expired contacts'])]
    ck.ob('C07.bucket', 'C07.bucket/purge-before-insert-or-evict', not bad7, ub.loc(purge[0]) if purge else ub.loc(),
          'upsert_bucket removes every expired contact of the bucket (erase(remove_if(expired))) before it inserts or evicts (a live contact is never '
          'evicted while an expired one sits further back)', bad7[0][1] if bad7 else None)

    # ---- routing entries are (re)inserted only by the two operations that carry a freshly observed contact: add_contact (an announce) and
    # register_peer (a handshake).  A lookup or a maintenance pass that re-inserts a contact from stored provider data rolls the routing
    # entry back to that record's older address and expiry (upsert_bucket is private: every caller is in this unit) ----
    ub_callers = set()
    for f7 in list(P.fns):
        if f7.q == KT + 'upsert_bucket':
            continue
        for g7 in P.with_lambdas(f7):
            if any(g7.nodes[i].get('callee') == KT + 'upsert_bucket' for i in g7.walk()):
                ub_callers.add(f7.q)
    ck.floor('C07.own', 'callers of upsert_bucket', len(ub_callers), 2)
    extra7 = sorted(ub_callers - {KT + 'add_contact', KT + 'register_peer'})
    ck.ob('C07.own', 'C07.own/upsert-only-from-announce-and-handshake', not extra7, P.fn(extra7[0]).loc() if extra7 else ub.loc(),
          'upsert_bucket is called only from add_contact and register_peer (found: %s): lookups (find_providers, closest_peers, shard_record, '
          'snapshot_locators) and sweeps never write a stored contact back into the routing table' % sorted(ub_callers))

"""C13 — signed messages are accepted only with the exact MAC over the exact bytes."""
from sa.paths import gate_check, returns_true_only_if, loops, loop_has_early_exit, Cfg
from sa.flow import derives_from, origin_chain, all_defs, value_sources
from sa.match import holds, const_value, comparison, same_value
from sa.build import AnalysisBroken
from sa.prog import int_type

UNITS = ['src/protocol/Message.cpp', 'src/crypto/HmacSha256.cpp']
LEVEL = 'other'
EXPLANATION = (
    'R-GATE/R-FLOW on decode_signed, encode_signed and HmacSha256::verify: decode() and every non-empty return of '
    'decode_signed are unreachable unless HmacSha256::verify(shared_key, buffer.first(size-32), buffer.last(32)) '
    'returned true, the two spans are taken only past size >= 32, decode() is given the authenticated span; '
    'encode_signed appends compute(key, whole encoding) at the end; verify returns true only past '
    'mac.size()==32 and diff==0 where diff ORs expected[i]^mac[i] over a full-length loop without early exit.')
ASSUMPTIONS = ['collision/forgery resistance of HMAC-SHA256 itself is not decided (C08 checks its structure)',
               'std::span::first/last have their standard meaning']

NS = 'ephemeralnet::protocol::'
VERIFY = 'ephemeralnet::crypto::HmacSha256::verify'
COMPUTE = 'ephemeralnet::crypto::HmacSha256::compute'
KD = 'ephemeralnet::crypto::HmacSha256::kDigestSize'


def is_param(fn, node, idx):
    want = fn.params[idx]['d']
    return any(fn.nodes[i]['k'] == 'DeclRefExpr' and fn.nodes[i].get('d') == want for i in origin_chain(fn, node))


def span_call(fn, node, method):
    """node's origin is buffer.<method>(arg) on parameter 0 -> return arg node, else None."""
    for i in origin_chain(fn, node):
        nd = fn.nodes[i]
        if nd['k'] == 'CXXMemberCallExpr' and nd.get('callee', '').endswith('::' + method) and 'span<' in nd.get('callee', ''):
            r = fn.receiver(i)
            if r is not None and is_param(fn, r, 0):
                return fn.call_args(i)[0]
    return None


def run(ck):
    P = ck.prog(UNITS)
    kd = None
    # ---- decode_signed -----------------------------------------------------------------
    ds = P.fn(NS + 'decode_signed')
    ck.touch(ds)
    verifies = ds.calls(VERIFY)
    ck.floor('C13.gate', 'HmacSha256::verify call sites in decode_signed', len(verifies), 1)
    decs = ds.calls(NS + 'decode')
    ck.floor('C13.gate', 'decode() call sites in decode_signed', len(decs), 1)

    def verify_ok(node):
        a = ds.call_args(node)
        if len(a) != 3:
            return False
        first = span_call(ds, a[1], 'first')
        last = span_call(ds, a[2], 'last')
        if not is_param(ds, a[0], 1) or first is None or last is None:
            return False
        # last(32); first(size() - 32)
        if const_value(ds, last) != 32:
            return False
        for i in origin_chain(ds, first):
            nd = ds.nodes[i]
            if nd['k'] == 'BinaryOperator' and nd.get('op') == '-':
                l, r = ds.kids(i)
                if const_value(ds, r) == 32 and ds.nodes[ds.strip(l)].get('callee', '').endswith('::size') \
                        and is_param(ds, ds.receiver(ds.strip(l)), 0):
                    return True
        return False

    def mac_gate(fact):
        kind, node, val = fact
        return kind == 'bool' and val is True and ds.nodes[node].get('callee') == VERIFY and verify_ok(node)

    effects = [('decode()', d) for d in decs]
    for i in ds.walk():
        nd = ds.nodes[i]
        if nd['k'] == 'ReturnStmt' and ds.kids(i):
            if not any('nullopt' in ds.nodes[j].get('n', '') for j in ds.walk(i)):
                effects.append(('return <message>', i))
    fails, _ = gate_check(ds, effects, [('mac', mac_gate)])
    failed = {(e, n): p for e, _g, n, p, _c in fails}
    for n_, (lab, nid) in enumerate(effects):
        ck.ob('C13.gate', 'C13.gate/decode_signed/%s#%d' % (lab, n_), (lab, nid) not in failed, ds.loc(nid),
              '%s in decode_signed only after HmacSha256::verify(key, buffer.first(size-32), buffer.last(32)) == true' % lab,
              failed.get((lab, nid)))
    # decode receives the authenticated span
    for d in decs:
        a = ds.call_args(d)[0]
        ok = any(same_value(ds, a, ds.call_args(v)[1]) for v in verifies)
        ck.ob('C13.flow', 'C13.flow/decode-arg', ok, ds.loc(d), 'decode() is given the span that was authenticated, not the whole buffer')
    # the size guard precedes the unsigned subtraction and the span construction
    subs = [i for i in ds.walk() if ds.nodes[i]['k'] == 'BinaryOperator' and ds.nodes[i].get('op') == '-']
    spans = [i for i in ds.walk() if ds.nodes[i].get('callee', '').endswith(('::first', '::last'))]
    ck.floor('C13.bound', 'span/subtraction sites in decode_signed', len(subs) + len(spans), 3)

    def size_ok(fact):
        h = holds(ds, fact)
        if h is None:
            return False
        a, rel, b = h
        sa_, sb_ = ds.strip(a), ds.strip(b)
        issize = lambda n: ds.nodes[n].get('callee', '').endswith('::size') and is_param(ds, ds.receiver(n), 0)
        return (rel == '>=' and issize(sa_) and const_value(ds, b) == 32) or \
               (rel == '<=' and issize(sb_) and const_value(ds, a) == 32)
    fails, _ = gate_check(ds, [('site', s) for s in subs + spans], [('size>=32', size_ok)])
    ck.ob('C13.bound', 'C13.bound/size-guard', not fails, ds.loc(),
          'buffer.size() - 32, first() and last(32) are evaluated only past buffer.size() >= 32',
          fails[0][3] if fails else None)
    ck.ob('C13.table', 'C13.table/kDigestSize', P.global_const(KD) == 32 if KD in P.globals else True, ds.loc(),
          'HmacSha256::kDigestSize == 32')

    # ---- encode_signed -------------------------------------------------------------------
    es = P.fn(NS + 'encode_signed')
    ck.touch(es)
    comps = es.calls(COMPUTE)
    ck.floor('C13.enc', 'HmacSha256::compute call sites in encode_signed', len(comps), 1)
    ok_enc = False
    for c in comps:
        a = es.call_args(c)
        key_ok = is_param(es, a[0], 1)
        # the MAC input is the local that holds encode(message); its only later write is the insert
        data_ok = False
        for i in origin_chain(es, a[1]):
            nd = es.nodes[i]
            if nd['k'] == 'DeclRefExpr' and nd.get('dk') == 'Var':
                defs = all_defs(es, nd['d'])
                inits = [x for x in defs if x[0] == 'init' and es.nodes[es.strip(x[1])].get('callee') == NS + 'encode']
                others = [x for x in defs if x[0] != 'init']
                cfg = Cfg.of(es)
                if len(inits) == 1 and all(es.nodes[x[2]].get('callee', '').endswith('::insert') and
                                           cfg.dominates(cfg.locate(c), cfg.locate(x[2])) for x in others):
                    data_ok = True
        # appended at the end of the same buffer, which is returned
        for ins in es.calls(lambda_re(r'vector<unsigned char.*::insert$')):
            ia = es.call_args(ins)
            recv = es.receiver(ins)
            ends = [j for j in origin_chain(es, ia[0]) if es.nodes[j].get('callee', '').endswith('::end')]
            at_end = bool(ends) and same_value(es, es.receiver(ends[0]), recv)
            mac_src = all(any(es.nodes[j].get('callee') == COMPUTE for j in value_sources(es, x)) for x in ia[1:3])
            same_buf = same_value(es, recv, a[1])
            rets = [r for r in es.walk() if es.nodes[r]['k'] == 'ReturnStmt']
            ret_ok = all(same_value(es, es.kids(r)[0], recv) for r in rets) and rets
            if key_ok and data_ok and at_end and mac_src and same_buf and ret_ok:
                ok_enc = True
    ck.ob('C13.enc', 'C13.enc/append-mac-of-whole-encoding', ok_enc, es.loc(),
          'encode_signed returns encode(message) followed by HmacSha256::compute(shared_key, that whole encoding)')

    # ---- HmacSha256::verify -------------------------------------------------------------
    vf = P.fn(VERIFY)
    ck.touch(vf)

    def len_gate(fact):
        h = holds(vf, fact)
        if h is None:
            return False
        a, rel, b = h
        sa_, sb_ = vf.strip(a), vf.strip(b)
        issz = lambda n: vf.nodes[n].get('callee', '').endswith('::size') and is_param(vf, vf.receiver(n), 2)
        return rel == '==' and ((issz(sa_) and const_value(vf, b) == 32) or (issz(sb_) and const_value(vf, a) == 32))

    diff_decl = {}

    def diff_gate(fact):
        h = holds(vf, fact)
        if h is None:
            return False
        a, rel, b = h
        if rel != '==':
            return False
        for x, y in ((a, b), (b, a)):
            xn = vf.nodes[vf.strip(x)]
            if xn['k'] == 'DeclRefExpr' and const_value(vf, y) == 0:
                diff_decl[xn['d']] = xn['n']
                return True
        return False
    fails, nret = returns_true_only_if(vf, [('mac.size()==32', len_gate), ('diff==0', diff_gate)])
    ck.floor('C13.verify', 'returns of HmacSha256::verify that may be true', nret, 1)
    failed = {g: w for g, _r, w in fails}
    for g in ('mac.size()==32', 'diff==0'):
        ck.ob('C13.verify', 'C13.verify/' + g, g not in failed, vf.loc(), 'verify returns true only if ' + g, failed.get(g))
    # diff accumulates expected[i] ^ mac[i] over a full-length loop without early exit
    ok_acc = False
    for d in diff_decl:
        defs = all_defs(vf, d)
        inits = [x for x in defs if x[0] == 'init' and const_value(vf, x[1]) == 0]
        accs = [x for x in defs if x[0] == 'other' and vf.nodes[x[2]].get('op') == '|=']
        if len(inits) == 1 and len(accs) == 1 and len(defs) == 2:
            acc = accs[0][2]
            lp = [l for l in loops(vf) if vf.is_in(acc, l)]
            if len(lp) == 1 and not loop_has_early_exit(vf, lp[0]):
                srcs = value_sources(vf, vf.kids(acc)[1])
                uses_mac = any(vf.nodes[j]['k'] == 'DeclRefExpr' and vf.nodes[j].get('d') == vf.params[2]['d'] for j in srcs)
                uses_exp = any(vf.nodes[j].get('callee') == COMPUTE for j in srcs)
                xors = [j for j in vf.walk(vf.kids(acc)[1]) if vf.nodes[j].get('op') == '^']
                # no difference bit may be lost: the xor operands are no wider than the accumulator
                accw = (int_type(vf.nodes[vf.kids(acc)[0]].get('t')) or (0, False))[0]
                xor = bool(xors) and all((int_type(vf.nodes[vf.strip(o, casts=False) if vf.nodes[o]['k'] != 'ImplicitCastExpr'
                                                    else vf.strip(o)].get('t')) or (999, False))[0] <= accw
                                         for j in xors for o in vf.kids(j))
                cond = vf.nodes[lp[0]].get('cond')
                c = comparison(vf, cond) if cond is not None else None
                full = c is not None and c[0] == '<' and (const_value(vf, c[2]) == 32 or
                                                          vf.nodes[vf.strip(c[2])].get('callee', '').endswith('::size'))
                if uses_mac and uses_exp and xor and full:
                    ok_acc = True
    ck.ob('C13.verify', 'C13.verify/full-tag-compare', ok_acc, vf.loc(),
          'diff starts at 0 and is only OR-ed with expected[i]^mac[i] in one loop over the whole tag, no early exit')
    comp_calls = vf.calls(COMPUTE)
    ok_args = bool(comp_calls) and all(is_param(vf, vf.call_args(c)[0], 0) and is_param(vf, vf.call_args(c)[1], 1) for c in comp_calls)
    ck.ob('C13.verify', 'C13.verify/expected=compute(key,data)', ok_args, vf.loc(),
          'the expected tag is compute(key, data) with the arguments in that order')


def lambda_re(pat):
    import re
    return re.compile(pat)

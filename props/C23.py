"""C23 — upload concurrency limits hold and slots are always released."""
from sa.paths import gate_check, must_precede, returns_true_only_if, Cfg, loops
from sa.flow import origin_chain, field_accesses, value_sources
from sa.match import holds, const_value, call_true
from sa.callgraph import CallGraph
from sa.build import AnalysisBroken
from props.common import rx, is_now

UNITS = ['src/core/Node.cpp']
LEVEL = 'other'
EXPLANATION = (
    'Structural decision on Node: (gate) dispatch_upload is called only past can_accept_more_uploads() and '
    'can_dispatch_upload(peer); those return true only when the limit is 0 (unlimited) or the current count is strictly '
    'below the configured limit; (lock-step) the per-peer counter changes only where the keyed map active_uploads_ changes '
    'cardinality: incremented only on the `inserted` result of insert/insert_or_assign/try_emplace, never after an '
    'operator[] overwrite, and decremented only on a path that erases the entry; (release) note_upload_end is reached from '
    'handle_acknowledge and from prune_stale_uploads for every entry with now - started_at >= timeout, and '
    'process_pending_uploads calls prune_stale_uploads on every path, and tick calls process_pending_uploads; '
    '(nack) every exit of handle_request past the session-key check either enqueues the request or sends a negative '
    'acknowledgement, and every `return false` of dispatch_upload with a session key present is preceded by one; '
    '(own) the two containers are written only by note_upload_start / note_upload_end.')
ASSUMPTIONS = ['the invariant "<= limit at every point" as a count over histories follows from gate + lock-step; it is not enumerated']

N = 'ephemeralnet::Node::'


def run(ck):
    P = ck.prog(UNITS)
    G = CallGraph(P)
    # ---- (gate) -------------------------------------------------------------------------------
    n_sites = 0
    for f in P.fns:
        for c in f.calls(N + 'dispatch_upload'):
            n_sites += 1
            ck.touch(f)
            req = f.call_args(c)[0]

            def peer_ok(node, f=f, req=req):
                a = f.strip(f.call_args(node)[0])
                # request.peer_id of the same request object
                return f.nodes[a].get('m', '').endswith('PendingUploadRequest::peer_id') and \
                    f.nodes[f.strip(f.kids(a)[0])].get('d') == f.nodes[f.strip(req)].get('d')
            gates = [('can_accept_more_uploads', call_true(f, N + 'can_accept_more_uploads')),
                     ('can_dispatch_upload(peer)', call_true(f, N + 'can_dispatch_upload', peer_ok))]
            fails, _ = gate_check(f, [('dispatch_upload', c)], gates)
            failed = {g: p for _e, g, _n, p, _c in fails}
            for g, _ in gates:
                ck.ob('C23.gate', 'C23.gate/%s/%s' % (f.name, g), g not in failed, f.loc(c),
                      'dispatch_upload is reached only past %s == true' % g, failed.get(g))
    ck.floor('C23.gate', 'dispatch_upload call sites', n_sites, 1)
    for q, limit_field, counter in ((N + 'can_accept_more_uploads', 'ephemeralnet::Config::upload_max_parallel_transfers', 'active_uploads_.size()'),
                                    (N + 'can_dispatch_upload', 'ephemeralnet::Config::upload_max_transfers_per_peer', 'per-peer count')):
        f = P.fn(q)
        ck.touch(f)

        def lim_gate(fact, f=f, limit_field=limit_field):
            h = holds(f, fact)
            if not h:
                return False
            a, rel, b = h
            isl = lambda n: f.nodes[f.strip(n)].get('m') == limit_field
            if rel == '==' and ((isl(a) and const_value(f, b) == 0) or (isl(b) and const_value(f, a) == 0)):
                return True
            if rel == '<' and isl(b):
                return True
            if rel == '>' and isl(a):
                return True
            # absent entry in the per-peer map = zero uploads for that peer
            if rel == '==' and any(f.nodes[f.strip(x)].get('callee', '').endswith('::end') for x in (a, b)):
                return True
            return False
        fails, nret = returns_true_only_if(f, [('limit==0 or count<limit', lim_gate)])
        ck.ob('C23.gate', 'C23.gate/%s/strictly-below-limit' % f.name, not fails and nret >= 2, f.loc(),
              '%s returns true only when the limit is 0 or %s < limit' % (f.name, counter), fails[0][2] if fails else None)
    cdu = P.fn(N + 'can_dispatch_upload')
    fails, _ = returns_true_only_if(cdu, [('can_accept_more_uploads', call_true(cdu, N + 'can_accept_more_uploads'))])
    ck.ob('C23.gate', 'C23.gate/can_dispatch_upload/global-limit', not fails, cdu.loc(), 'can_dispatch_upload also requires the global limit')

    # ---- (lock-step) ------------------------------------------------------------------------
    ns = P.fn(N + 'note_upload_start')
    ck.touch(ns)
    per_peer_w = [i for i, m in [(i, m) for i, m, w in field_accesses(ns) if w] if m == N + 'active_uploads_per_peer_']
    map_w = [i for i, m in [(i, m) for i, m, w in field_accesses(ns) if w] if m == N + 'active_uploads_']
    ck.floor('C23.lockstep', 'writes of active_uploads_per_peer_ in note_upload_start', len(per_peer_w), 1)
    overwrite = [i for i in map_w if ns.nodes[ns.parent(i)].get('op') == '[]' or
                 any(ns.nodes[a].get('op') == '[]' for a in list(ns.ancestors(i))[:3])]
    ck.ob('C23.lockstep', 'C23.lockstep/note_upload_start/no-blind-overwrite', not overwrite, ns.loc(),
          'active_uploads_ is not written through operator[] (which cannot tell an insertion from an overwrite)')

    def inserted_edge(fact):
        kind, node, val = fact
        if kind != 'bool' or val is not True:
            return False
        for j in origin_chain(ns, node):
            nd = ns.nodes[j]
            if nd['k'] == 'MemberExpr' and nd.get('n') == 'second':
                base = ns.kids(j)[0]
                for b in origin_chain(ns, base):
                    c = ns.nodes[b].get('callee', '')
                    if c.split('::')[-1] in ('insert', 'insert_or_assign', 'try_emplace', 'emplace'):
                        r = ns.receiver(b)
                        if r is not None and ns.nodes[r].get('m') == N + 'active_uploads_':
                            return True
        return False
    fails, _ = gate_check(ns, [('per-peer += 1', w) for w in per_peer_w], [('inserted', inserted_edge)])
    ck.ob('C23.lockstep', 'C23.lockstep/note_upload_start/increment-on-insert', not fails, ns.loc(),
          'the per-peer counter is incremented only when a new (peer, chunk) entry was inserted into active_uploads_',
          fails[0][3] if fails else None)
    ne = P.fn(N + 'note_upload_end')
    ck.touch(ne)
    per_peer_w = [i for i, m, w in field_accesses(ne) if w and m == N + 'active_uploads_per_peer_']
    # also decrement through the iterator (peer_it->second -= 1)
    decs = [i for i in ne.walk() if ne.nodes[i]['k'] in ('CompoundAssignOperator', 'UnaryOperator') and ne.nodes[i].get('op') in ('-=', '--')]
    er = [c for c in ne.calls(rx(r'unordered_map<.*ActiveUploadState.*::erase$'))]
    cfg = Cfg.of(ne)
    ok = len(er) == 1
    if ok:
        for w in per_peer_w + decs:
            if cfg.must_pass(w, lambda n: n == er[0]) is not None:
                ok = False

        def found(fact):
            h = holds(ne, fact)
            if not h or h[1] != '!=':
                return False
            a, _r, b = h
            return any(ne.nodes[ne.strip(x)].get('callee', '').endswith('::end') and
                       ne.nodes[ne.receiver(ne.strip(x))].get('m') == N + 'active_uploads_' for x in (a, b))
        fails, _ = gate_check(ne, [('dec', w) for w in per_peer_w + decs], [('entry exists', found)])
        ok = ok and not fails
    ck.ob('C23.lockstep', 'C23.lockstep/note_upload_end/decrement-with-erase', ok and len(per_peer_w) + len(decs) >= 2, ne.loc(),
          'the per-peer counter is decremented/erased only when the (peer, chunk) entry exists, and that entry is erased on the same path')

    # ---- (release) ----------------------------------------------------------------------------
    ha = P.fn(N + 'handle_acknowledge')
    ck.touch(ha)
    ends = ha.calls(N + 'note_upload_end')
    ok = len(ends) >= 1
    if ok:
        cfg = Cfg.of(ha)
        # every normal path through handle_acknowledge reaches note_upload_end
        ok = cfg.must_pass_from((cfg.entry, -1), lambda n: n in ends) is None
    ck.ob('C23.release', 'C23.release/handle_acknowledge', ok, ha.loc(), 'every acknowledgement releases the upload slot (note_upload_end on all paths)')
    ps = P.fn(N + 'prune_stale_uploads')
    ck.touch(ps)
    ends = ps.calls(N + 'note_upload_end')
    emp = ps.calls(rx(r'::emplace_back$|::push_back$'))

    def timed_out(fact):
        h = holds(ps, fact)
        if not h:
            return False
        a, rel, b = h
        return rel == '>=' and any(ps.nodes[j].get('n') == 'started_at' for j in ps.walk(a)) and \
            any(ps.nodes[j].get('m') == 'ephemeralnet::Config::upload_transfer_timeout' for j in value_sources(ps, b))
    ok = len(ends) == 1 and len(emp) == 1
    if ok:
        # collected exactly on the timed-out edge: the only branch guarding the collection is the timeout test
        ifs = [a for a in ps.ancestors(emp[0]) if ps.nodes[a]['k'] == 'IfStmt']
        ok = len(ifs) == 1 and any(timed_out(f) for f in __import__('sa.paths', fromlist=['implied']).implied(ps, ps.nodes[ifs[0]]['cond'], True))
        l1 = [l for l in loops(ps) if ps.is_in(emp[0], l)]
        l2 = [l for l in loops(ps) if ps.is_in(ends[0], l)]
        ok = ok and len(l1) == 1 and len(l2) == 1 and \
            ps.nodes[ps.strip(ps.nodes[l1[0]]['range'])].get('m') == N + 'active_uploads_'
    ck.ob('C23.release', 'C23.release/prune_stale_uploads', ok, ps.loc(),
          'prune_stale_uploads releases every active upload with now - started_at >= upload_transfer_timeout')
    pu = P.fn(N + 'process_pending_uploads')
    ck.touch(pu)
    pr = pu.calls(N + 'prune_stale_uploads')
    cfg = Cfg.of(pu)
    ok = bool(pr) and cfg.must_pass_from((cfg.entry, -1), lambda n: n in pr) is None
    ck.ob('C23.release', 'C23.release/process_pending_uploads', ok, pu.loc(), 'process_pending_uploads prunes stale uploads on every path (also when the queue is empty)')
    tick = P.fn(N + 'tick')
    tc = tick.calls(N + 'process_pending_uploads')
    cfg = Cfg.of(tick)
    ok = bool(tc) and cfg.must_pass_from((cfg.entry, -1), lambda n: n in tc) is None
    ck.ob('C23.release', 'C23.release/tick', ok, tick.loc(), 'every tick runs process_pending_uploads')

    # ---- (nack) ---------------------------------------------------------------------------------
    hr = P.fn(N + 'handle_request')
    ck.touch(hr)
    cfg = Cfg.of(hr)
    key_checks = [c for c in hr.calls(N + 'session_shared_key')]
    ok = len(key_checks) == 1
    if ok:
        w = cfg.must_pass(key_checks[0], lambda n: hr.nodes[n].get('callee') in (N + 'send_negative_ack', N + 'enqueue_upload_request'),
                          stop_at=None)
        # the only exit allowed without either is the one right after the missing-key test
        ok = w is None or (len(w) == 1 and 'has_value' in w[0] and '[T]' in w[0])
    ck.ob('C23.nack', 'C23.nack/handle_request', ok, hr.loc(),
          'past the session-key check, every exit of handle_request enqueues the request or sends a negative acknowledgement')
    du = P.fn(N + 'dispatch_upload')
    ck.touch(du)
    rf = [r for r in du.walk() if du.nodes[r]['k'] == 'ReturnStmt' and const_value(du, du.kids(r)[0]) == 0]
    ck.floor('C23.nack', 'rejecting exits of dispatch_upload', len(rf), 3)

    def no_key(fact):
        kind, node, val = fact
        return kind == 'has' and val is False and any(du.nodes[j].get('callee') == N + 'session_shared_key' for j in origin_chain(du, node))
    mp = dict(must_precede(du, rf, lambda n: du.nodes[n].get('callee') == N + 'send_negative_ack', bypass=no_key))
    for k_, r in enumerate(rf):
        ck.ob('C23.nack', 'C23.nack/dispatch_upload/return-false#%d' % k_, r not in mp, du.loc(r),
              'a refused dispatch sends a negative acknowledgement when the peer has a session', mp.get(r))

    # ---- (own) ------------------------------------------------------------------------------------
    for field in (N + 'active_uploads_', N + 'active_uploads_per_peer_'):
        ws = set()
        for f in P.fns:
            if any(w and m == field for _i, m, w in field_accesses(f)):
                ws.add(f.q)
        ck.ob('C23.own', 'C23.own/' + field.split('::')[-1], ws and ws <= {N + 'note_upload_start', N + 'note_upload_end', N + 'Node'}, '',
              '%s is written only by note_upload_start / note_upload_end (found: %s)' % (field.split('::')[-1], sorted(x.split('::')[-1] for x in ws)))

    # ---- a refusal is always answered: every path through send_negative_ack that has a session key sends the signed negative ack ----
    from sa.paths import Cfg as _Cfg23
    sna = P.fn(N + 'send_negative_ack')
    ck.touch(sna)
    sends23 = [i for i in sna.walk() if (sna.nodes[i].get('callee') or '') in (N + 'send_secure',) or (sna.nodes[i].get('callee') or '').endswith('SessionManager::send')]
    rets23 = [i for i in sna.walk() if sna.nodes[i]['k'] == 'ReturnStmt']
    cfg23 = _Cfg23.of(sna)
    early = []
    for r_ in rets23:
        # allowed: the early return right after `if (!key.has_value())`
        par = sna.parent(r_)
        while par is not None and sna.nodes[par]['k'] == 'CompoundStmt':
            par = sna.parent(par)
        cond_ok = False
        if par is not None and sna.nodes[par]['k'] == 'IfStmt':
            cond_ok = any((sna.nodes[j].get('callee') or '').endswith('::has_value') or sna.nodes[j].get('op') == '!' for j in sna.walk(sna.nodes[par]['cond'])) and \
                any((sna.nodes[j].get('t') or '').startswith(('const std::optional<std::array', 'std::optional<std::array')) for j in sna.walk(sna.nodes[par]['cond']))
        if not cond_ok:
            early.append(r_)
    ck.ob('C23.nack', 'C23.nack/always-sent', len(sends23) == 1 and not early, sna.loc(early[0]) if early else sna.loc(),
          'send_negative_ack returns without sending only when no session key exists: every refused request is answered')

    # ---- the configured limits are used as configured: nothing rewrites them (0 means "no limit" for each of the two independently) ----
    from sa.flow import field_accesses as _fa23
    LIM = ('ephemeralnet::Config::upload_max_parallel_transfers', 'ephemeralnet::Config::upload_max_transfers_per_peer')
    lim_writes = []
    for f in P.fns:
        for i, m_, w_ in _fa23(f):
            if w_ and m_ in LIM and f.kind not in ('ctor',):
                lim_writes.append((f, i, m_))
    ck.ob('C23.limit', 'C23.limit/limits-not-rewritten', not lim_writes, lim_writes[0][0].loc(lim_writes[0][1]) if lim_writes else '',
          'no function of the node assigns Config::upload_max_parallel_transfers / upload_max_transfers_per_peer (a "per-peer <= overall" clamp turns a '
          'per-peer limit into "unlimited" whenever the overall limit is 0)' + ('' if not lim_writes else ' — written in %s' % lim_writes[0][0].name))

    # ---- admission and slot accounting are one critical section: process_pending_uploads never drops its lock in between ----------------
    ppu = P.fn(N + 'process_pending_uploads')
    ck.touch(ppu)
    unl = [i for i in ppu.walk() if ppu.nodes[i]['k'] == 'CXXMemberCallExpr' and (ppu.nodes[i].get('callee') or '').split('::')[-1] in ('unlock', 'release')
           and 'lock' in (ppu.nodes[i].get('callee') or '')]
    ck.ob('C23.gate', 'C23.gate/process_pending_uploads/lock-held-throughout', not unl, ppu.loc(unl[0]) if unl else ppu.loc(),
          'process_pending_uploads keeps the scheduler lock from the admission test to note_upload_start / dispatch (releasing it lets a second request '
          'pass the same test before the first is counted)')

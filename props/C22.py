"""C22 — swarm plans hand every shard to exactly one eligible provider, evenly (structural clauses)."""
from sa.canon import canon, norm, V, C
from sa.paths import loops, gate_check, unique_init, Cfg
from sa.match import comparison, const_value, holds
from sa.build import AnalysisBroken
from props.common import declref, assignments

UNITS = ['src/core/SwarmCoordinator.cpp']
LEVEL = 'other'
EXPLANATION = (
    'Formula normalisation: with the const locals of compute_plan inlined, provider_count is the min/max tree '
    'min(cand, shards, max(target, min(max(minprov, threshold), cand, shards))) over cand = evaluated.size(), shards = '
    'manifest.shards.size(), swarm_target_replicas, swarm_min_providers, manifest.threshold (modulo commutativity/associativity). '
    'Round robin: the shard loop runs over [0, shards), performs exactly one push_back of manifest.shards[i].index into '
    'assignments[i % provider_count] per iteration, and is reached only past provider_count != 0; the provider loop creates '
    'exactly provider_count assignments from the best-ranked candidates, one per iteration. Eligibility: one evaluated entry per '
    'candidate (unconditional push_back), candidates come from KademliaTable::closest_peers (expiry filtered, C07) with the '
    'node\'s own id removed.')
ASSUMPTIONS = ['exactly-once, at-least-one and |difference| <= 1 follow from round robin with 1 <= provider_count <= shards; they are not counted',
               'distinctness of provider ids is inherited from bucket uniqueness (C07)']

SC = 'ephemeralnet::SwarmCoordinator::'


def mm_tree(fn, n, depth=0):
    """min/max tree of an expression with const locals inlined; leaves are symbolic names."""
    n = fn.strip(n)
    nd = fn.nodes[n]
    if depth > 12:
        return ('?',)
    c = nd.get('callee', '')
    if c in ('std::min', 'std::max'):
        args = []
        for a in fn.call_args(n):
            an = fn.nodes[fn.strip(a)]
            if an['k'] in ('CXXStdInitializerListExpr', 'InitListExpr'):
                inner = fn.strip(a)
                while fn.nodes[inner]['k'] != 'InitListExpr' and fn.kids(inner):
                    inner = fn.strip(fn.kids(inner)[0])
                args += [mm_tree(fn, x, depth + 1) for x in fn.kids(inner)]
            else:
                args.append(mm_tree(fn, a, depth + 1))
        op = c.split('::')[-1]
        flat = []
        for x in args:
            if x[0] == op:
                flat.extend(x[1:])
            else:
                flat.append(x)
        return (op,) + tuple(sorted(set(flat), key=repr))
    if nd['k'] == 'DeclRefExpr' and nd.get('dk') == 'Var':
        init = unique_init(fn, nd['d'], n)
        if init is not None:
            return mm_tree(fn, init, depth + 1)
        return ('leaf', nd['n'])
    if nd['k'] == 'MemberExpr':
        return ('leaf', nd.get('m', nd.get('n')).split('::')[-1])
    if nd['k'] == 'CXXMemberCallExpr' and c.endswith('::size'):
        r = fn.receiver(n)
        rn = fn.nodes[r]
        return ('leaf', (rn.get('m') or rn.get('n') or '?').split('::')[-1] + '.size')
    return ('leaf', fn.text(n)[:40])


def run(ck):
    P = ck.prog(UNITS)
    cp = P.fn(SC + 'compute_plan')
    ck.touch(cp)
    pc = [i for i in cp.walk() if cp.nodes[i]['k'] == 'VarDecl' and cp.nodes[i].get('n') == 'provider_count']
    if len(pc) != 1:
        raise AnalysisBroken('compute_plan no longer defines provider_count')
    pc_d = cp.nodes[pc[0]]['d']
    tree = mm_tree(cp, cp.nodes[pc[0]]['init'])
    L = lambda s: ('leaf', s)
    cand, shards = L('evaluated.size'), L('shards.size')
    want = ('min', cand, shards, ('max', L('swarm_target_replicas'), ('min', ('max', L('swarm_min_providers'), L('threshold')), cand, shards)))

    def srt(t):
        if t[0] in ('min', 'max'):
            return (t[0],) + tuple(sorted((srt(x) for x in t[1:]), key=repr))
        return t
    ck.extra['provider_count_formula'] = repr(srt(tree))
    ck.ob('C22.formula', 'C22.formula/provider_count', srt(tree) == srt(want), cp.loc(pc[0]),
          'provider_count = min(cand, shards, max(target, min(max(minprov, threshold), cand, shards))) (found %s)' % (srt(tree),))
    # ---- one evaluated entry per candidate -----------------------------------------------------------------------
    ev = [cp.nodes[i]['d'] for i in cp.walk() if cp.nodes[i]['k'] == 'VarDecl' and cp.nodes[i].get('n') == 'evaluated']
    cands = [cp.nodes[i] for i in cp.walk() if cp.nodes[i]['k'] == 'VarDecl' and cp.nodes[i].get('n') == 'candidates']
    ok = False
    if ev and cands:
        pushes = [i for i in cp.walk() if cp.nodes[i].get('callee', '').endswith('::push_back') and declref(cp, cp.receiver(i), ev[0]) is not None]
        if len(pushes) == 1:
            lp = [l for l in loops(cp) if cp.is_in(pushes[0], l)]
            ok = len(lp) == 1 and cp.nodes[lp[0]]['k'] == 'CXXForRangeStmt' and declref(cp, cp.nodes[lp[0]]['range'], cands[0]['d']) is not None and \
                not any(cp.nodes[a]['k'] in ('IfStmt',) and cp.is_in(a, cp.nodes[lp[0]]['body']) for a in cp.ancestors(pushes[0])) and \
                not [j for j in cp.walk(cp.nodes[lp[0]]['body']) if cp.nodes[j]['k'] in ('ContinueStmt', 'BreakStmt', 'ReturnStmt')]
    ck.ob('C22.elig', 'C22.elig/one-entry-per-candidate', ok, cp.loc(), 'every candidate yields exactly one evaluated entry (unconditional push_back in the candidate loop)')
    okc = bool(cands) and cp.nodes[cp.strip(cands[0]['init'])].get('callee') == SC + 'candidate_peers'
    ck.ob('C22.elig', 'C22.elig/candidates-source', okc, cp.loc(), 'candidates = candidate_peers(chunk_id, table, self_id)')
    # ---- provider loop ------------------------------------------------------------------------------------------------
    asg_push = [i for i in cp.walk() if cp.nodes[i].get('callee', '').endswith('::push_back') and cp.receiver(i) is not None and
                cp.nodes[cp.receiver(i)].get('n') == 'assignments']
    okp = False
    if len(asg_push) == 1:
        lp = [l for l in loops(cp) if cp.is_in(asg_push[0], l)]
        if len(lp) == 1 and cp.nodes[lp[0]]['k'] == 'ForStmt':
            c = comparison(cp, cp.nodes[lp[0]]['cond'])
            iv = declref(cp, c[1]) if c else None
            body = cp.nodes[lp[0]]['body']
            peer_src = [(l, r) for l, r, s in assignments(cp) if cp.is_in(s, body) and cp.nodes[cp.strip(l)].get('n') == 'peer']
            src_ok = len(peer_src) == 1 and norm(canon(cp, peer_src[0][1])) == ('m', ('idx', V('evaluated'), V(cp.nodes[cp.strip(c[1])]['n'])), 'contact') if c else False
            okp = bool(c) and c[0] == '<' and declref(cp, c[2], pc_d) is not None and src_ok and \
                not [a for a in cp.ancestors(asg_push[0]) if cp.is_in(a, body) and cp.nodes[a]['k'] in ('IfStmt', 'ForStmt', 'WhileStmt')] and \
                not [j for j in cp.walk(body) if cp.nodes[j]['k'] in ('ContinueStmt', 'BreakStmt', 'ReturnStmt')]
    ck.ob('C22.plan', 'C22.plan/providers', okp, cp.loc(), 'exactly provider_count assignments are created, the i-th from evaluated[i].contact (best-ranked first)')
    srt_calls = [i for i in cp.walk() if cp.nodes[i].get('callee') == 'std::sort']
    cfg = Cfg.of(cp)
    ck.ob('C22.plan', 'C22.plan/ranked-before-selection', len(srt_calls) == 1 and bool(asg_push) and cfg.dominates(cfg.locate(srt_calls[0]), cfg.locate(asg_push[0])), cp.loc(),
          'candidates are ranked (std::sort) before providers are selected')
    # ---- shard loop ---------------------------------------------------------------------------------------------------
    sh_push = [i for i in cp.walk() if cp.nodes[i].get('callee', '').endswith('::push_back') and cp.receiver(i) is not None and
               cp.nodes[cp.receiver(i)].get('n') == 'shard_indices']
    oks = False
    mod = None
    if len(sh_push) == 1:
        lp = [l for l in loops(cp) if cp.is_in(sh_push[0], l)]
        if len(lp) == 1 and cp.nodes[lp[0]]['k'] == 'ForStmt':
            c = comparison(cp, cp.nodes[lp[0]]['cond'])
            body = cp.nodes[lp[0]]['body']
            iv_name = cp.nodes[cp.strip(c[1])].get('n') if c else None
            bound = mm_tree(cp, c[2]) if c else None
            rec = [cp.nodes[i] for i in cp.walk(body) if cp.nodes[i]['k'] == 'VarDecl' and cp.nodes[i].get('n') == 'recipient']
            lab = [cp.nodes[i] for i in cp.walk(body) if cp.nodes[i]['k'] == 'VarDecl' and cp.nodes[i].get('n') == 'shard_label']
            init0 = [cp.nodes[i] for i in cp.walk(lp[0]) if cp.nodes[i]['k'] == 'VarDecl' and cp.nodes[i].get('n') == iv_name]
            mod = [i for i in cp.walk(body) if cp.nodes[i]['k'] == 'BinaryOperator' and cp.nodes[i].get('op') == '%']
            oks = bool(c) and c[0] == '<' and bound == L('shards.size') and init0 and const_value(cp, init0[0]['init']) == 0 and \
                len(rec) == 1 and norm(canon(cp, rec[0]['init'])) == ('%', V(iv_name), V('provider_count')) and \
                len(lab) == 1 and norm(canon(cp, lab[0]['init'])) == ('m', ('idx', ('m', V('manifest'), 'shards'), V(iv_name)), 'index') and \
                norm(canon(cp, cp.receiver(sh_push[0]))) == ('m', ('idx', ('m', V('plan'), 'assignments'), V('recipient')), 'shard_indices') and \
                norm(canon(cp, cp.call_args(sh_push[0])[0])) == V('shard_label') and \
                not [a for a in cp.ancestors(sh_push[0]) if cp.is_in(a, body) and cp.nodes[a]['k'] in ('IfStmt', 'ForStmt', 'WhileStmt')] and \
                not [j for j in cp.walk(body) if cp.nodes[j]['k'] in ('ContinueStmt', 'BreakStmt', 'ReturnStmt')]
    ck.ob('C22.plan', 'C22.plan/round-robin', oks, cp.loc(),
          'every shard index i in [0, shards) is pushed exactly once, to assignments[i % provider_count]')
    if mod:
        def g_nz(fact):
            h = holds(cp, fact)
            if not h:
                return False
            a, rel, b = h
            return rel == '!=' and declref(cp, a, pc_d) is not None and const_value(cp, b) == 0 or \
                rel in ('>', '>=') and declref(cp, a, pc_d) is not None and const_value(cp, b) in (0, 1) and (rel == '>' or const_value(cp, b) == 1)
        fails, _ = gate_check(cp, [('modulo', m) for m in mod], [('provider_count!=0', g_nz)])
        ck.ob('C22.plan', 'C22.plan/nonzero-divisor', not fails, cp.loc(mod[0]), 'i % provider_count is evaluated only past provider_count != 0', fails[0][3] if fails else None)
    # empty manifest -> nothing assigned
    empt = [i for i in cp.walk() if cp.nodes[i]['k'] == 'IfStmt' and 'shards' in cp.text(cp.nodes[i]['cond']) and 'empty' in cp.text(cp.nodes[i]['cond']) and
            any(cp.nodes[j]['k'] == 'ReturnStmt' for j in cp.walk(cp.nodes[i]['then']))]
    ck.ob('C22.plan', 'C22.plan/empty-manifest', len(empt) == 1, cp.loc(), 'a manifest without shards yields an empty plan')
    # ---- candidate_peers -------------------------------------------------------------------------------------------------
    cq = P.fn(SC + 'candidate_peers')
    ck.touch(cq)
    cl = [i for i in cq.walk() if cq.nodes[i].get('callee') == 'ephemeralnet::KademliaTable::closest_peers']
    rm = [i for i in cq.walk() if cq.nodes[i].get('callee') == 'std::remove_if']
    er = [i for i in cq.walk() if cq.nodes[i].get('callee', '').endswith('::erase')]
    pred_ok = False
    for lam in P.lambdas_of(cq.q):
        rets = [x for x in lam.walk() if lam.nodes[x]['k'] == 'ReturnStmt']
        if len(rets) == 1:
            c = comparison(lam, lam.kids(rets[0])[0])
            pred_ok = bool(c) and c[0] == '==' and {lam.nodes[lam.strip(c[1])].get('n'), lam.nodes[lam.strip(c[2])].get('n')} == {'id', 'self_id'}
    whole = False
    if rm:
        a = cq.call_args(rm[0])
        whole = cq.nodes[cq.strip(a[0])].get('callee', '').endswith('::begin') and cq.nodes[cq.strip(a[1])].get('callee', '').endswith('::end')
    ck.ob('C22.elig', 'C22.elig/self-removed', len(cl) == 1 and len(rm) == 1 and len(er) == 1 and pred_ok and whole, cq.loc(),
          'candidate_peers takes closest_peers(chunk id) and erases every contact whose id is the node\'s own')
    tgt = [cq.nodes[i] for i in cq.walk() if cq.nodes[i]['k'] == 'VarDecl' and cq.nodes[i].get('n') == 'target']
    cps = [i for i in cq.walk() if cq.nodes[i].get('callee') == 'std::copy']
    okt = len(tgt) == 1 and len(cps) == 1 and 'chunk_id' in cq.text(cq.call_args(cps[0])[0]) and 'target' in cq.text(cq.call_args(cps[0])[2]) and \
        bool(cl) and declref(cq, cq.call_args(cl[0])[0], tgt[0]['d']) is not None
    ck.ob('C22.elig', 'C22.elig/target-is-chunk-id', okt, cq.loc(), 'the lookup target is the chunk id')

    # ---- the plan the node keeps is the plan compute_plan returned: nobody edits assignments afterwards -----------------------------------
    from sa.flow import field_accesses as _fa22
    PN22 = ck.prog(['src/core/Node.cpp', 'src/core/SwarmCoordinator.cpp'])
    edits = []
    nw = 0
    for f in PN22.fns:
        for i, m_, w_ in _fa22(f):
            if not w_ or not (m_.endswith('SwarmAssignment::shard_indices') or m_.endswith('SwarmAssignment::peer') or m_.endswith('SwarmDistributionPlan::assignments')):
                continue
            nw += 1
            if not (f.q == SC + 'compute_plan' or f.q.startswith(SC + 'compute_plan::$')):
                edits.append((f, i, m_))
    ck.floor('C22.plan', 'writes of plan assignments', nw, 2)
    ck.ob('C22.plan', 'C22.plan/assignments-only-from-compute_plan', not edits, edits[0][0].loc(edits[0][1]) if edits else cp.loc(),
          'SwarmAssignment::shard_indices / peer and the assignments list are written only inside SwarmCoordinator::compute_plan: a recomputed plan is not '
          'patched with shard sets of an older plan' + ('' if not edits else ' — %s written in %s' % (edits[0][2].split('::')[-1], edits[0][0].name)))

"""C38 — update metadata parsing is total and decodes JSON strings correctly."""
import re
from sa.paths import Cfg, must_hold_at, gate_check
from sa.flow import origin_chain, field_accesses
from sa.match import comparison, const_value, holds
from sa.build import AnalysisBroken
from props.common import declref, assignments

UNITS = ['src/core/UpdateCheck.cpp']
LEVEL = 'other'
EXPLANATION = (
    'R-ESC: the whole body of parse_update_metadata lies inside try/catch(const std::exception&) and every throw of the JSON '
    'parser is std::runtime_error. R-REC: every recursive cycle of JsonParser reachable from parse() passes a depth guard (a '
    'counter compared with a constant <= 1024 whose failing edge throws, incremented on entry) that dominates the recursive calls. '
    'R-CURSOR: forward must-dataflow of the fact "not at end of input since the last cursor move" — every raw access input_[pos_] '
    'holds the fact; for accessors that do not establish it themselves (get) every call site does. R-BOUND: substr(pos_,4) is '
    'guarded by pos_+4 <= size. R-TABLE: append_utf8 thresholds/lead bytes/masks per RFC 3629; the \\u decoder tests the '
    'surrogate ranges D800-DBFF / DC00-DFFF, requires a following low surrogate and combines 0x10000 + (hi-D800)<<10 + (lo-DC00). '
    'R-FLOW: every reported field is the string_value of the node found under its own key.')
ASSUMPTIONS = ['full RFC 8259 conformance of the accepted language is not decided',
               'stack use per recursion level is assumed small enough for the depth limit (<= 1024 frames)']

JP = '(anonymous namespace)::JsonParser::'
MAX_DEPTH_LIMIT = 1024


def sccs(nodes, edges):
    index = {}
    low = {}
    st = []
    on = set()
    out = []
    cnt = [0]

    def strong(v):
        index[v] = low[v] = cnt[0]
        cnt[0] += 1
        st.append(v)
        on.add(v)
        for w in edges.get(v, ()):
            if w not in nodes:
                continue
            if w not in index:
                strong(w)
                low[v] = min(low[v], low[w])
            elif w in on:
                low[v] = min(low[v], index[w])
        if low[v] == index[v]:
            comp = []
            while True:
                w = st.pop()
                on.discard(w)
                comp.append(w)
                if w == v:
                    break
            out.append(comp)
    for v in nodes:
        if v not in index:
            strong(v)
    return out


def _only_via(fn, via, targets, is_pass):
    """Every path to a target that avoids the pass edges goes through node `via` (where the value is replaced)."""
    from sa.paths import Cfg
    cfg = Cfg.of(fn)
    vb = cfg.locate(via)
    if vb is None:
        return False
    # remove the block of `via`: targets must then be unreachable without a pass edge
    from collections import deque
    seen = {cfg.entry}
    dq = deque([cfg.entry])
    tb = {cfg.locate(t)[0] for t in targets}
    while dq:
        b = dq.popleft()
        if b == vb[0]:
            continue
        if b in tb:
            return False
        for s_, _l, facts in cfg.out_edges(b):
            if fact_passes(is_pass, facts):
                continue
            if s_ not in seen:
                seen.add(s_)
                dq.append(s_)
    return True


def run(ck):
    P = ck.prog(UNITS)
    methods = {f.q: f for f in P.fns if f.q.startswith(JP)}
    if JP + 'parse_value' not in methods:
        raise AnalysisBroken('JsonParser::parse_value not found')
    for f in methods.values():
        ck.touch(f)
    calls = {}
    for q, f in methods.items():
        calls[q] = set()
        for i in f.walk():
            c = f.nodes[i].get('callee')
            if c in methods:
                calls[q].add(c)

    # ---- R-ESC ------------------------------------------------------------------------------------
    pm = P.fn('ephemeralnet::update::parse_update_metadata')
    ck.touch(pm)
    tries = [i for i in pm.walk() if pm.nodes[i]['k'] == 'CXXTryStmt']
    body_stmts = [k for k in pm.kids(pm.body)]
    handlers = [pm.nodes[j] for t in tries for j in pm.walk(t) if pm.nodes[j]['k'] == 'CXXCatchStmt']
    catches_all = any(h.get('caught') in (None, '', '...') or 'std::exception' in (h.get('caught') or '') for h in handlers)
    THROWING = ('CallExpr', 'CXXMemberCallExpr', 'CXXOperatorCallExpr', 'CXXConstructExpr', 'CXXTemporaryObjectExpr', 'CXXNewExpr', 'CXXThrowExpr',
                'CXXDynamicCastExpr', 'CXXTypeidExpr', 'LambdaExpr', 'UserDefinedLiteral')
    outside = [k for k in body_stmts if not tries or k != tries[0]]
    inert = all(not any(pm.nodes[j]['k'] in THROWING for j in pm.walk(k)) for k in outside)      # e.g. `(void)0;`, a scalar declaration
    ck.ob('C38.esc', 'C38.esc/whole-body-in-try', len(tries) == 1 and tries[0] in body_stmts and inert and catches_all, pm.loc(),
          'parse_update_metadata consists of one try block with a catch (const std::exception&) / catch (...) handler')
    nthrow = 0
    for f in methods.values():
        for i in f.walk():
            if f.nodes[i]['k'] == 'CXXThrowExpr':
                nthrow += 1
                t = f.nodes[i].get('thrown') or ''
                ck.ob('C38.esc', 'C38.esc/%s#%d' % (f.name.split('::')[-1], nthrow), t in ('std::runtime_error', 'std::invalid_argument', 'std::out_of_range', 'std::logic_error'),
                      f.loc(i), 'parser throw of type %s is derived from std::exception (caught by parse_update_metadata)' % t)
    ck.floor('C38.esc', 'throw sites in JsonParser', nthrow, 15)

    # ---- R-REC ------------------------------------------------------------------------------------
    reach = set()
    work = [JP + 'parse']
    while work:
        q = work.pop()
        if q in reach:
            continue
        reach.add(q)
        work.extend(calls.get(q, ()))
    comps = [c for c in sccs(reach, calls) if len(c) > 1 or c[0] in calls.get(c[0], ())]
    ck.floor('C38.rec', 'recursive components of JsonParser reachable from parse()', len(comps), 1)

    def guard_of(f, comp):
        """(limit, guard node) if every call from f into comp is dominated by a depth guard in f."""
        cfg = Cfg.of(f)
        guards = []
        for i in f.walk():
            nd = f.nodes[i]
            # form (ii): local object of a guard class
            if nd['k'] == 'VarDecl' and 'init' in nd:
                init = f.strip(nd['init'])
                ctor_q = f.nodes[init].get('callee')
                g = P.fn(ctor_q, optional=True) if ctor_q else None
                if g is not None and g.kind == 'ctor' and f.kids(init):
                    arg_is_field = any(f.nodes[j]['k'] == 'MemberExpr' and f.nodes[j].get('mk') == 'Field' for j in f.walk(f.kids(init)[0]))
                    lim = depth_check(g)
                    if arg_is_field and lim is not None:
                        guards.append((lim, i))
            # form (i): inline check
            if nd['k'] == 'IfStmt':
                lim = inline_check(f, i)
                if lim is not None:
                    guards.append((lim, nd['cond']))
        rec_calls = [i for i in f.walk() if f.nodes[i].get('callee') in comp]
        for lim, gnode in guards:
            gl = cfg.locate(gnode)
            if gl is not None and all(cfg.dominates(gl, cfg.locate(c)) for c in rec_calls):
                return lim, gnode
        return None

    def throws_in(f, stmt):
        return any(f.nodes[j]['k'] == 'CXXThrowExpr' for j in f.walk(stmt))

    def inline_check(f, ifnode):
        nd = f.nodes[ifnode]
        c = comparison(f, nd['cond'])
        if not c or c[0] not in ('>=', '>') or not throws_in(f, nd.get('then')):
            return None
        fld = [j for j in f.walk(c[1]) if f.nodes[j]['k'] == 'MemberExpr' and f.nodes[j].get('mk') == 'Field']
        lim = const_value(f, c[2])
        if not fld or lim is None:
            return None
        m = f.nodes[fld[0]]['m']
        inc = any(f.nodes[j]['k'] == 'UnaryOperator' and f.nodes[j].get('op') == '++' and
                  any(f.nodes[x].get('m') == m for x in f.walk(j)) for j in f.walk())
        return lim if inc else None

    def depth_check(g):
        for i in g.walk():
            if g.nodes[i]['k'] == 'IfStmt':
                lim = inline_check(g, i)
                if lim is not None:
                    return lim
        return None
    for comp in comps:
        guarded = {}
        for q in comp:
            r = guard_of(methods[q], set(comp))
            if r is not None:
                guarded[q] = r
        rest = set(comp) - set(guarded)
        cyc = [c for c in sccs(rest, calls) if len(c) > 1 or c[0] in calls.get(c[0], ())]
        name = '+'.join(sorted(x.split('::')[-1] for x in comp))
        ck.ob('C38.rec', 'C38.rec/%s/depth-guard' % name, not cyc and bool(guarded), methods[comp[0]].loc(),
              'every cycle through {%s} passes a depth guard that dominates the recursive calls (guarded: %s)'
              % (name, sorted(x.split('::')[-1] for x in guarded)))
        for q, (lim, gnode) in guarded.items():
            ck.ob('C38.rec', 'C38.rec/%s/limit' % q.split('::')[-1], 1 <= lim <= MAX_DEPTH_LIMIT, methods[q].loc(gnode),
                  'nesting limit %d is between 1 and %d' % (lim, MAX_DEPTH_LIMIT))

    # ---- R-CURSOR ---------------------------------------------------------------------------------
    POS = JP + 'pos_'
    direct = {q for q, f in methods.items() if any(w and m == POS for _i, m, w in field_accesses(f))}
    movers = set(direct)
    changed = True
    while changed:
        changed = False
        for q in methods:
            if q not in movers and calls[q] & movers:
                movers.add(q)
                changed = True

    def raw_sites(f):
        out = []
        for i in f.walk():
            nd = f.nodes[i]
            if nd['k'] == 'CXXOperatorCallExpr' and nd.get('op') == '[]' and len(f.kids(i)) == 3:
                base = f.strip(f.kids(i)[1])
                if f.nodes[base].get('m') == JP + 'input_':
                    out.append(i)
        return out

    def analyse(f, sites, entry):
        def gen(fact):
            kind, node, val = fact
            return kind == 'bool' and val is False and f.nodes[node].get('callee') == JP + 'eof'

        def kill(e):
            nd = f.nodes[e]
            if nd.get('callee') in movers and nd['k'] in ('CXXMemberCallExpr', 'CallExpr'):
                return True
            if nd['k'] in ('UnaryOperator', 'CompoundAssignOperator', 'BinaryOperator') and nd.get('op') in ('++', '--', '+=', '-=', '='):
                tgt = f.kids(e)[0]
                return f.nodes[f.strip(tgt)].get('m') == POS
            return False
        return must_hold_at(f, sites, gen, kill, entry_state=entry)
    needs = {}           # method -> True if it needs "not eof" from its caller
    n_sites = 0
    for q, f in methods.items():
        sites = raw_sites(f)
        if not sites:
            continue
        n_sites += len(sites)
        res = analyse(f, sites, False)
        if all(res.values()):
            for s in sites:
                ck.ob('C38.cursor', 'C38.cursor/%s/raw#%d' % (q.split('::')[-1], s), True, f.loc(s),
                      'input_[pos_] in %s is evaluated only with "not eof" established since the last cursor move' % q.split('::')[-1])
        else:
            res2 = analyse(f, sites, True)
            if all(res2.values()):
                needs[q] = True          # an accessor: obligation moves to its call sites
            else:
                for s in sites:
                    ck.ob('C38.cursor', 'C38.cursor/%s/raw#%d' % (q.split('::')[-1], s), res2[s], f.loc(s),
                          'input_[pos_] in %s is evaluated only with "not eof" established since the last cursor move' % q.split('::')[-1])
    ck.floor('C38.cursor', 'raw input_[pos_] accesses', n_sites, 5)
    n_calls = 0
    for _round in range(4):
        new_needs = {}
        for q, f in methods.items():
            sites = [i for i in f.walk() if f.nodes[i].get('callee') in needs and f.nodes[i]['k'] == 'CXXMemberCallExpr']
            if not sites:
                continue
            res = analyse(f, sites, q in needs)
            for s in sites:
                n_calls += 1
                if not res[s] and q not in needs and _round < 3:
                    res_t = analyse(f, [s], True)
                    if res_t[s] and q != JP + 'parse':
                        new_needs[q] = True
                        continue
                ck.ob('C38.cursor', 'C38.cursor/%s/call-%s#%d' % (q.split('::')[-1], f.nodes[s]['callee'].split('::')[-1], s), res[s], f.loc(s),
                      '%s() reads input_[pos_] unguarded, so %s calls it only with "not eof" established since the last cursor move'
                      % (f.nodes[s]['callee'].split('::')[-1], q.split('::')[-1]))
        if not new_needs:
            break
        needs.update(new_needs)
    ck.extra['unguarded_accessors'] = sorted(x.split('::')[-1] for x in needs)

    # ---- R-BOUND substr --------------------------------------------------------------------------
    nsub = 0
    for q, f in methods.items():
        for i in f.walk():
            nd = f.nodes[i]
            if nd.get('callee', '').endswith('basic_string_view<char>::substr') and f.nodes[f.receiver(i)].get('m') == JP + 'input_':
                a = f.call_args(i)
                n = const_value(f, a[1]) if len(a) > 1 else None
                if n is None or f.nodes[f.strip(a[0])].get('m') != POS:
                    continue          # substr(start, pos_-start): start <= pos_ <= size by construction of the scanner
                nsub += 1

                def g(fact, f=f, n=n):
                    h = holds(f, fact)
                    if not h:
                        return False
                    x, rel, y = h
                    issz = lambda z: f.nodes[f.strip(z)].get('callee', '').endswith('::size')
                    isp = lambda z: f.nodes[f.strip(z)].get('op') == '+' and const_value(f, f.kids(f.strip(z))[1]) == n and \
                        f.nodes[f.strip(f.kids(f.strip(z))[0])].get('m') == POS
                    return (rel == '<=' and isp(x) and issz(y)) or (rel == '>=' and issz(x) and isp(y))
                fails, _ = gate_check(f, [('substr', i)], [('pos+n<=size', g)])
                ck.ob('C38.bound', 'C38.bound/%s/substr' % q.split('::')[-1], not fails, f.loc(i),
                      'input_.substr(pos_, %d) is reached only past pos_ + %d <= input_.size()' % (n, n), fails[0][3] if fails else None)
    ck.floor('C38.bound', 'fixed-length substr(pos_, n) sites', nsub, 1)

    # ---- surrogates -------------------------------------------------------------------------------
    esc_fns = set()
    work = [JP + 'parse_unicode_escape']
    while work:
        q = work.pop()
        if q in esc_fns or q not in methods:
            continue
        esc_fns.add(q)
        work.extend(calls[q])
    consts = set()
    shifts = set()
    hex_calls = 0
    for q in esc_fns:
        f = methods[q]
        for i in f.walk():
            nd = f.nodes[i]
            if nd['k'] == 'IntegerLiteral':
                consts.add(int(nd['v']))
            if nd['k'] == 'BinaryOperator' and nd.get('op') == '<<' and const_value(f, f.kids(i)[1]) is not None:
                shifts.add(const_value(f, f.kids(i)[1]))
    ue = methods[JP + 'parse_unicode_escape']
    # the combination 0x10000 + ((hi - 0xD800) << 10) + (lo - 0xDC00) and the range gates in front of it
    comb = [i for i in ue.walk() if ue.nodes[i]['k'] == 'BinaryOperator' and ue.nodes[i].get('op') == '+' and
            any(ue.nodes[j]['k'] == 'IntegerLiteral' and int(ue.nodes[j]['v']) == 0x10000 for j in ue.walk(i))]
    comb = [i for i in comb if not any(ue.is_in(i, j) and i != j for j in comb)]
    hi_d = lo_d = None
    shift_ok = False
    if comb:
        for j in ue.walk(comb[0]):
            nd = ue.nodes[j]
            if nd['k'] == 'BinaryOperator' and nd.get('op') == '-':
                v = declref(ue, ue.kids(j)[0])
                cst = const_value(ue, ue.kids(j)[1])
                if cst == 0xD800:
                    hi_d = v
                if cst == 0xDC00:
                    lo_d = v
            if nd['k'] == 'BinaryOperator' and nd.get('op') == '&' and const_value(ue, ue.kids(j)[1]) == 0x3FF:
                # mask form: (hi & 0x3FF) << 10 and (lo & 0x3FF); the unit under the shift is the high one
                v = declref(ue, ue.kids(j)[0])
                under_shift = any(ue.nodes[a]['k'] == 'BinaryOperator' and ue.nodes[a].get('op') == '<<' and ue.is_in(j, ue.kids(a)[0])
                                  for a in ue.ancestors(j) if ue.is_in(a, comb[0]))
                if under_shift:
                    hi_d = v
                else:
                    lo_d = v
            if nd['k'] == 'BinaryOperator' and nd.get('op') == '<<' and const_value(ue, ue.kids(j)[1]) == 10:
                shift_ok = any(ue.nodes[x]['k'] == 'IntegerLiteral' and int(ue.nodes[x]['v']) in (0xD800, 0x3FF) for x in ue.walk(ue.kids(j)[0]))
            if nd['k'] == 'BinaryOperator' and nd.get('op') == '*' and 0x400 in (const_value(ue, ue.kids(j)[0]), const_value(ue, ue.kids(j)[1])):
                shift_ok = True
    plus_ok = False
    if comb:
        # 0x10000 is joined by '+' (an OR would lose the carry into bit 16 when (hi - 0xD800) << 10 reaches it)
        for j in ue.walk(comb[0]):
            nd = ue.nodes[j]
            if nd['k'] == 'BinaryOperator' and nd.get('op') == '+' and any(const_value(ue, x) == 0x10000 for x in ue.kids(j)):
                plus_ok = True
    ck.ob('C38.surrogate', 'C38.surrogate/combine', bool(comb) and hi_d is not None and lo_d is not None and hi_d != lo_d and shift_ok and plus_ok,
          ue.loc(comb[0]) if comb else ue.loc(),
          'a surrogate pair is combined as 0x10000 + ((hi - 0xD800) << 10) + (lo - 0xDC00) over two different code units')

    def rng(d, lo, hi):
        def ge(fact):
            h = holds(ue, fact)
            if not h:
                return False
            a, rel, b = h
            return (declref(ue, a, d) is not None and ((rel == '>=' and const_value(ue, b) == lo) or (rel == '>' and const_value(ue, b) == lo - 1))) or \
                   (declref(ue, b, d) is not None and ((rel == '<=' and const_value(ue, a) == lo) or (rel == '<' and const_value(ue, a) == lo - 1)))

        def le(fact):
            h = holds(ue, fact)
            if not h:
                return False
            a, rel, b = h
            return (declref(ue, a, d) is not None and ((rel == '<=' and const_value(ue, b) == hi) or (rel == '<' and const_value(ue, b) == hi + 1))) or \
                   (declref(ue, b, d) is not None and ((rel == '>=' and const_value(ue, a) == hi) or (rel == '>' and const_value(ue, a) == hi + 1)))
        return [('>=%X' % lo, ge), ('<=%X' % hi, le)]
    if comb and hi_d is not None and lo_d is not None:
        fails, _ = gate_check(ue, [('combine', comb[0])], rng(hi_d, 0xD800, 0xDBFF) + rng(lo_d, 0xDC00, 0xDFFF))
        bad = sorted({g for _e, g, _n, _p, _c in fails})
        ck.ob('C38.surrogate', 'C38.surrogate/ranges', not fails, ue.loc(comb[0]),
              'the pair is combined only when the first unit is in D800..DBFF and the second in DC00..DFFF (missing gates: %s)' % bad,
              fails[0][3] if fails else None)
        # lone low surrogate is not encoded as-is: append_utf8 is reached only with a non-surrogate code point
        au_calls = [i for i in ue.walk() if ue.nodes[i].get('callee') == JP + 'append_utf8']

        def not_low_surrogate(fact):
            h = holds(ue, fact)
            if not h:
                return False
            a, rel, b = h
            x = declref(ue, a, hi_d) is not None
            return x and ((rel == '<' and const_value(ue, b) == 0xDC00) or (rel == '<=' and const_value(ue, b) == 0xDBFF) or
                          (rel == '>' and const_value(ue, b) == 0xDFFF) or (rel == '>=' and const_value(ue, b) in (0xE000, 0x10000)))
        fails2, _ = gate_check(ue, [('append_utf8', i) for i in au_calls], [('not-lone-surrogate', not_low_surrogate)])
        # paths through the combination have replaced the code point: accept when the only witness paths pass the combine node
        ck.ob('C38.surrogate', 'C38.surrogate/lone-surrogate-rejected', not fails2 or all(any('0x10000' in str(w) or '65536' in str(w) for w in f_[3]) for f_ in fails2) or
              _only_via(ue, comb[0], au_calls, not_low_surrogate), ue.loc(), 'a lone surrogate code unit is never UTF-8 encoded as such')
    else:
        ck.ob('C38.surrogate', 'C38.surrogate/ranges', False, ue.loc(), 'no surrogate-pair combination found in the \\u decoder')
    # a second code unit is read, and a missing/invalid one throws
    two_reads = sum(1 for q in esc_fns for i in methods[q].walk() if methods[q].nodes[i].get('callee') == JP + 'parse_hex4') >= 2 or \
        sum(1 for i in ue.walk() if ue.nodes[i].get('callee', '').endswith('::substr')) >= 2
    ck.ob('C38.surrogate', 'C38.surrogate/second-unit', two_reads, ue.loc(), 'after a high surrogate the decoder reads a second \\uXXXX unit')
    # ---- append_utf8 table -----------------------------------------------------------------------
    au = methods.get(JP + 'append_utf8')
    if au is None:
        # renamed / replaced: the encoder is whatever the \u decoder hands the code point to
        cands = [methods[c_] for q in esc_fns for i in methods[q].walk()
                 for c_ in [methods[q].nodes[i].get('callee')] if c_ in methods and 'hex' not in c_ and not c_.split('::')[-1].startswith('parse') and
                 any('unsigned int' in (p_.get('t') or '') or 'char32_t' in (p_.get('t') or '') for p_ in methods[c_].params)]
        if not cands:
            raise AnalysisBroken('the UTF-8 encoder called by the \\u decoder was not found')
        au = cands[0]
    appends = [i for i in au.walk() if (au.nodes[i].get('callee') or '').endswith(('::push_back', '::append')) or au.nodes[i].get('op') == '+=']
    ck.ob('C38.utf8', 'C38.utf8/length-carrying-output', bool(appends) and not any('char *' == (p_.get('t') or '') for p_ in au.params), au.loc(),
          'the UTF-8 encoder appends its bytes to a std::string (length carried explicitly): a NUL-terminated char buffer would drop U+0000')
    lits = sorted({int(au.nodes[i]['v']) for i in au.walk() if au.nodes[i]['k'] == 'IntegerLiteral'})
    th = sorted(const_value(au, c[2]) for c in (comparison(au, i) for i in au.walk()) if c and c[0] == '<=')
    ck.ob('C38.utf8', 'C38.utf8/thresholds', th == [0x7F, 0x7FF, 0xFFFF], au.loc(), 'append_utf8 switches length at 0x7F / 0x7FF / 0xFFFF (found %s)' % [hex(x) for x in th])
    want = {0xC0, 0xE0, 0xF0, 0x80, 0x1F, 0x0F, 0x07, 0x3F, 6, 12, 18}
    ck.ob('C38.utf8', 'C38.utf8/lead-cont-masks', want <= set(lits), au.loc(),
          'append_utf8 uses lead bytes C0/E0/F0, continuation 80, masks 1F/0F/07/3F and shifts 6/12/18 (RFC 3629)')
    # structure per branch: number of push_back calls 1,2,3,4
    pbs = []
    for i in au.walk():
        if au.nodes[i]['k'] == 'IfStmt':
            then = au.nodes[i].get('then')
            pbs.append(sum(1 for j in au.walk(then) if au.nodes[j].get('callee', '').endswith('::push_back')))
            els = au.nodes[i].get('else')
            if els is not None and au.nodes[els]['k'] != 'IfStmt':
                pbs.append(sum(1 for j in au.walk(els) if au.nodes[j].get('callee', '').endswith('::push_back')))
    ck.ob('C38.utf8', 'C38.utf8/lengths', pbs == [1, 2, 3, 4], au.loc(), 'the four branches emit 1, 2, 3 and 4 bytes (found %s)' % pbs)

    # ---- R-FLOW fields ---------------------------------------------------------------------------
    # local `const auto* X = expect_string_field(obj, "key", …)` / `obj.find("key")`, then output.F = X->string_value
    key_of = {}
    for i in pm.walk():
        nd = pm.nodes[i]
        if nd['k'] == 'VarDecl' and 'init' in nd:
            init = pm.strip(nd['init'])
            c = pm.nodes[init].get('callee', '')
            if c.endswith('expect_string_field') or c.endswith('JsonValue::find'):
                lits = [pm.nodes[j].get('s') for j in pm.walk(init) if pm.nodes[j]['k'] == 'StringLiteral']
                if lits:
                    key_of[nd['d']] = lits[0]
    want_key = {'version': 'version', 'tag': 'tag', 'commit': 'commit', 'channel': 'channel', 'generated_at': 'generated_at',
                'notes_url': 'notes_url', 'url': 'url', 'arch': 'arch', 'format': 'format', 'sha256': 'sha256'}
    seen = {}
    for l, r, s in assignments(pm):
        ln = pm.nodes[pm.strip(l)]
        if ln['k'] != 'MemberExpr' or ln.get('n') not in want_key:
            continue
        src = None
        for j in pm.walk(r):
            nd = pm.nodes[j]
            if nd['k'] == 'MemberExpr' and nd.get('n') == 'string_value':
                base = pm.strip(pm.kids(j)[0])
                src = key_of.get(pm.nodes[base].get('d'))
        seen[ln['n']] = (src, s)
    ck.floor('C38.flow', 'reported string fields', len(seen), 10)
    for fld, (src, s) in sorted(seen.items()):
        ck.ob('C38.flow', 'C38.flow/' + fld, src == want_key[fld], pm.loc(s),
              'output field %s is the string_value of the JSON member "%s" (found "%s")' % (fld, want_key[fld], src))

    # ---- the parsed document is not modified while pointers into it are in use ------------------------------------------------------
    # (parse_update_metadata keeps `const JsonValue*` results of find()/expect_*_field(); appending a member to the object they
    # point into reallocates its vector and leaves them dangling)
    from sa.flow import field_accesses as _fa38
    roots = [pm.nodes[i] for i in pm.walk() if pm.nodes[i]['k'] == 'VarDecl' and pm.nodes[i].get('init') is not None and pm.nodes[i]['init'] >= 0 and
             any((pm.nodes[j].get('callee') or '').endswith('JsonParser::parse') for j in pm.walk(pm.nodes[i]['init']))]
    if len(roots) != 1:
        raise AnalysisBroken('parse_update_metadata: the local holding parser.parse() was not found')
    rd = roots[0]['d']
    is_const = (roots[0].get('t') or '').startswith('const ')
    muts = []
    if not is_const:
        for i, m_, w_ in _fa38(pm):
            if w_ and any(pm.nodes[j]['k'] == 'DeclRefExpr' and pm.nodes[j].get('d') == rd for j in pm.walk(i)):
                muts.append(i)
        from sa.paths import local_writes as _lw38
        muts += list(_lw38(pm, rd))
    ck.ob('C38.mem', 'C38.mem/document-immutable', is_const or not muts, pm.loc(muts[0]) if muts else pm.loc(),
          'the JsonValue returned by parser.parse() is const, or nothing in parse_update_metadata writes to it or to its members')

    # ---- member lookup is by exact name: JsonValue::find returns a member only past `<member key> == key` --------------------------------------
    from sa.match import holds as _h38
    jf = [f for f in P.fns if f.q.endswith('JsonValue::find')]
    if len(jf) != 1:
        raise AnalysisBroken('JsonValue::find not found')
    jf = jf[0]
    ck.touch(jf)
    key_d = jf.params[0]['d']
    hits = [i for i in jf.walk() if jf.nodes[i]['k'] == 'ReturnStmt' and jf.kids(i) and 'nullptr' not in jf.text(i) and jf.nodes[jf.strip(jf.kids(i)[0])]['k'] != 'CXXNullPtrLiteralExpr']

    def exact(fact):
        h = _h38(jf, fact)
        if h is None:
            return False
        a_, op_, b_ = h
        return op_ == '==' and (declref(jf, a_) == key_d or declref(jf, b_) == key_d) and jf.nodes[fact[1]]['k'] in ('CXXOperatorCallExpr', 'BinaryOperator')
    ck.floor('C38.field', 'member-returning exits of JsonValue::find', len(hits), 1)
    f38, _ = gate_check(jf, [('return member', i) for i in hits], [('member key == key', exact)])
    ck.ob('C38.field', 'C38.field/find-exact-name', not f38, jf.loc(f38[0][2]) if f38 else jf.loc(),
          'JsonValue::find returns a member only when its name equals the requested key (operator==, not a prefix or length test): "version_history" is not "version"',
          f38[0][3] if f38 else None)

    # ---- each reported download is built from its own JSON entry: the record pushed into output.downloads is declared inside the loop -------------
    from sa.paths import loops as _loops38
    pushes = [i for i in pm.walk() if (pm.nodes[i].get('callee') or '').endswith(('::push_back', '::emplace_back')) and
              any((pm.nodes[j].get('m') or '').endswith('Metadata::downloads') for j in pm.walk(i))]
    ck.floor('C38.field', 'appends to Metadata::downloads', len(pushes), 1)
    for i in pushes:
        arg_d = [pm.nodes[j]['d'] for j in pm.walk(pm.call_args(i)[0]) if pm.nodes[j]['k'] == 'DeclRefExpr' and pm.nodes[j].get('dk') == 'Var']
        lp_in = [l for l in _loops38(pm) if pm.is_in(i, l)]
        fresh38 = bool(arg_d) and bool(lp_in) and all(any(pm.nodes[v]['k'] == 'VarDecl' and pm.nodes[v].get('d') == d_ and pm.is_in(v, pm.nodes[lp_in[-1]]['body']) for v in pm.walk()) for d_ in arg_d)
        ck.ob('C38.field', 'C38.field/download-record-fresh-per-entry', fresh38, pm.loc(i),
              'the DownloadInfo appended for a platform is a local of the loop body, so every field not present in that entry has its default (nothing carries over from the previous platform)')

    # ---- single-character escapes decode per RFC 8259: parse_string switches over the escape code with the standard table -----------------------------
    from props.common import switch_table as _st38, literal_text as _lt38
    ps38 = methods[JP + 'parse_string']
    sws38 = [i for i in ps38.walk() if ps38.nodes[i]['k'] == 'SwitchStmt']
    WANT38 = {ord('"'): '"', ord('\\'): '\\', ord('/'): '/', ord('b'): '\b', ord('f'): '\f', ord('n'): '\n', ord('r'): '\r', ord('t'): '\t'}
    got38 = {}
    if len(sws38) == 1:
        for k_, stmts in _st38(ps38, sws38[0]).items():
            if k_ == 'default':
                continue
            pushed = []
            for st_ in stmts:
                for j in ps38.walk(st_):
                    if (ps38.nodes[j].get('callee') or '').endswith('::push_back'):
                        a_ = ps38.call_args(j)[0]
                        lit = _lt38(ps38, a_)
                        pushed.append(lit if lit is not None else ('<esc>' if any(ps38.nodes[x]['k'] == 'DeclRefExpr' for x in ps38.walk(a_)) else '?'))
            got38[k_] = pushed
    ok38 = len(sws38) == 1 and all((got38.get(k_) == [v_]) or (got38.get(k_) == ['<esc>'] and v_ == chr(k_)) for k_, v_ in WANT38.items())
    ck.ob('C38.field', 'C38.field/simple-escapes-table', ok38, ps38.loc(sws38[0]) if sws38 else ps38.loc(),
          'parse_string decodes \\\\" \\\\\\\\ \\\\/ \\\\b \\\\f \\\\n \\\\r \\\\t through one switch over the escape code whose cases push exactly the RFC 8259 characters')

    # ---- the parser copies text only through std::string / string_view operations: no raw memory copy into fixed buffers -------------------------------
    raw38 = [(f, i) for f in methods.values() for i in f.walk() if (f.nodes[i].get('callee') or '').lstrip(':').replace('std::', '') in
             ('memcpy', 'memmove', 'strcpy', 'strncpy', 'strcat', 'sprintf', 'snprintf', 'sscanf', 'gets')]
    cbuf38 = [(f, i) for f in methods.values() for i in f.walk() if f.nodes[i]['k'] == 'VarDecl' and re.match(r'(const )?(unsigned |signed )?char \[\d+\]', f.nodes[i].get('t') or '')]
    ck.ob('C38.mem', 'C38.mem/no-raw-buffers', not raw38 and not cbuf38, (raw38 or cbuf38)[0][0].loc((raw38 or cbuf38)[0][1]) if (raw38 or cbuf38) else pm.loc(),
          'JsonParser keeps text in std::string / string_view only: no fixed-size char array and no memcpy-family call (a literal longer than the array overflows the stack)')

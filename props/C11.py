"""C11 — stored content round-trips and tampered replicas are never accepted."""
from sa.paths import gate_check, Cfg
from sa.flow import origin_chain, field_accesses, all_defs, value_sources
from sa.match import holds, same_value
from sa.build import AnalysisBroken
from props.common import declref, member_on, field_assigns, share_copy_source, assignments

UNITS = ['src/core/Node.cpp', 'src/main.cpp', 'src/dht/KademliaTable.cpp']
LEVEL = 'other'
EXPLANATION = (
    'R-GATE/R-FLOW/R-SIB. receive_chunk and the CLI decrypt_chunk_with_manifest: every effect after decryption (manifest cache '
    'write, publish_shards, announce_chunk, chunk_store_.put, clear_pending_fetch, note_local_seed, broadcast_manifest, returning '
    'the plaintext) is unreachable unless decrypt_with_key(...).has_value() and Sha256::digest(*plaintext) == manifest.chunk_hash; '
    'the key is Shamir::combine over shares copied field by field from manifest.shards with manifest.threshold; id and nonce come '
    'from the manifest; the bytes stored are the verified ciphertext with the manifest nonce. store_chunk: the key given to '
    'encrypt_with_key is the one split by Shamir::split, manifest.chunk_hash is the digest of the plaintext argument, '
    'manifest.nonce / stored nonce come from the sealed result, the stored bytes are sealed.data, manifest.shards are exactly the '
    'split result. fetch_chunk reconstructs the same way from the shard record or cached manifest (shards and threshold taken '
    'from the same object).')
ASSUMPTIONS = ['equality of recovered and stored payload as a value depends on ChaCha20 (C09) and Shamir (C10) arithmetic, '
               'which is not computed here',
               'the content hash is the digest chosen by the publisher; collision resistance of SHA-256 is assumed']

N = 'ephemeralnet::Node::'
CM = 'ephemeralnet::crypto::CryptoManager::'
SH = 'ephemeralnet::crypto::Shamir::'
DIGEST = 'ephemeralnet::crypto::Sha256::digest'
MF = 'ephemeralnet::protocol::Manifest::'
SS = 'ephemeralnet::crypto::ShamirShare::'
KS = 'ephemeralnet::protocol::KeyShard::'
PAIRS = [(SS + 'index', KS + 'index'), (SS + 'value', KS + 'value')]


def chain_find(fn, node, pred):
    for i in origin_chain(fn, node):
        if pred(fn.nodes[i], i):
            return i
    return None


def key_from_combine(fn, key_arg):
    """The Key object passed as key has a single definition: <key>.bytes = Shamir::combine(shares, threshold)
    (directly or through a once-initialised local).  Returns the combine call node or None."""
    d = declref(fn, key_arg)
    if d is None:
        return None
    fa = field_assigns(fn, d)
    if list(fa) != ['ephemeralnet::crypto::Key::bytes'] or len(fa['ephemeralnet::crypto::Key::bytes']) != 1:
        return None
    rhs = fa['ephemeralnet::crypto::Key::bytes'][0][0]
    return chain_find(fn, rhs, lambda nd, i: nd.get('callee') == SH + 'combine')


def reconstruct(ck, fn, tag, floor=1):
    """All decrypt_with_key sites of fn with their resolved inputs."""
    out = []
    for c in fn.calls(CM + 'decrypt_with_key'):
        a = fn.call_args(c)
        comb = key_from_combine(fn, a[0])
        ck.ob('C11.recon', 'C11.recon/%s/key-is-combine' % tag, comb is not None, fn.loc(c),
              'the key given to decrypt_with_key is a Key whose bytes are assigned once, from Shamir::combine')
        src = thr = None
        if comb is not None:
            ca = fn.call_args(comb)
            sd = declref(fn, ca[0])
            src = share_copy_source(fn, sd, PAIRS) if sd is not None else None
            ck.ob('C11.recon', 'C11.recon/%s/shares-copied-verbatim' % tag, src is not None, fn.loc(comb),
                  'the share vector is filled by one range-for copying index and value of each manifest shard, nothing else')
            thr = ca[1]
        out.append({'call': c, 'combine': comb, 'src': src, 'thr': thr, 'id': a[1], 'cipher': a[2], 'nonce': a[3]})
    ck.floor('C11.recon', 'decrypt_with_key sites in ' + tag, len(out), floor)
    return out


def check_verified_decrypt(ck, P, fn, tag, manifest_pred, cipher_pred, effects_extra):
    """The receive_chunk / CLI pattern."""
    ck.touch(fn)
    recs = reconstruct(ck, fn, tag)
    r = recs[0]
    ok_src = r['src'] is not None and member_on(fn, r['src'], MF + 'shards') and manifest_pred(fn.kids(fn.strip(r['src']))[0])
    ok_thr = r['thr'] is not None and member_on(fn, r['thr'], MF + 'threshold') and manifest_pred(fn.kids(fn.strip(r['thr']))[0])
    ok_id = member_on(fn, r['id'], MF + 'chunk_id') and manifest_pred(fn.kids(fn.strip(r['id']))[0])
    ok_nonce = member_on(fn, r['nonce'], MF + 'nonce') and manifest_pred(fn.kids(fn.strip(r['nonce']))[0])
    ok_cipher = cipher_pred(r['cipher'])
    for lab, ok in (('shares=manifest.shards', ok_src), ('threshold=manifest.threshold', ok_thr), ('id=manifest.chunk_id', ok_id),
                    ('nonce=manifest.nonce', ok_nonce), ('ciphertext=received bytes', ok_cipher)):
        ck.ob('C11.flow', 'C11.flow/%s/%s' % (tag, lab), ok, fn.loc(r['call']), 'decrypt_with_key in %s: %s' % (tag, lab))
    # the optional holding the plaintext
    pt_d = None
    p = fn.parent(r['call'])
    while p is not None and fn.nodes[p]['k'] != 'VarDecl':
        p = fn.parent(p)
    if p is not None:
        pt_d = fn.nodes[p]['d']
    if pt_d is None:
        raise AnalysisBroken('C11: result of decrypt_with_key in %s is not bound to a local' % tag)

    def is_plain(n):
        return any(fn.nodes[i]['k'] == 'DeclRefExpr' and fn.nodes[i].get('d') == pt_d for i in origin_chain(fn, n))

    def is_digest_of_plain(n):
        dg = chain_find(fn, n, lambda nd, i: nd.get('callee') == DIGEST)
        if dg is None:
            return False
        arg = fn.call_args(dg)[0]
        return is_plain(arg) or any(fn.nodes[i]['k'] == 'DeclRefExpr' and fn.nodes[i].get('d') == pt_d for i in fn.walk(arg))

    def is_mhash(n):
        return member_on(fn, n, MF + 'chunk_hash') and manifest_pred(fn.kids(fn.strip(n))[0])

    def g_hash(fact):
        h = holds(fn, fact)
        if not h or h[1] != '==':
            return False
        return (is_digest_of_plain(h[0]) and is_mhash(h[2])) or (is_digest_of_plain(h[2]) and is_mhash(h[0]))

    def g_has(fact):
        kind, node, val = fact
        if kind != 'has' or val is not True:
            return False
        return node == fn.strip(r['call']) or declref(fn, node, pt_d) is not None

    effects = list(effects_extra)
    for i in fn.walk():
        nd = fn.nodes[i]
        if nd['k'] == 'ReturnStmt' and fn.kids(i) and not any('nullopt' in fn.nodes[j].get('n', '') for j in fn.walk(i)):
            effects.append(('return <plaintext>', i))
            ck.ob('C11.flow', 'C11.flow/%s/returns-verified-plaintext' % tag, is_plain(fn.kids(i)[0]), fn.loc(i),
                  'the value returned by %s is the decrypted buffer that was hashed' % tag)
    fails, _ = gate_check(fn, effects, [('hash-match', g_hash), ('decrypt-ok', g_has)])
    failed = {(e, g, n): p for e, g, n, p, _c in fails}
    for k, (lab, nid) in enumerate(effects):
        for g in ('hash-match', 'decrypt-ok'):
            ck.ob('C11.gate', 'C11.gate/%s/%s#%d/%s' % (tag, lab, k, g), (lab, g, nid) not in failed, fn.loc(nid),
                  '%s in %s only past %s' % (lab, tag, 'Sha256::digest(*plaintext) == manifest.chunk_hash' if g == 'hash-match'
                                             else 'decrypt_with_key(...).has_value()'), failed.get((lab, g, nid)))
    return r, len(effects)


def run(ck):
    P = ck.prog(['src/core/Node.cpp', 'src/crypto/CryptoManager.cpp'])
    # ---- receive_chunk ---------------------------------------------------------------------
    rc = P.fn(N + 'receive_chunk')
    mvar = None
    for l, r, s in assignments(rc):
        if rc.nodes[rc.strip(r)].get('callee') == 'ephemeralnet::protocol::decode_manifest' and declref(rc, rc.call_args(rc.strip(r))[0], rc.params[0]['d']) is not None:
            mvar = declref(rc, l)
    if mvar is None:
        raise AnalysisBroken('C11: receive_chunk no longer assigns decode_manifest(manifest_uri) to a local')
    is_m = lambda n: declref(rc, n, mvar) is not None
    cipher_d = rc.params[1]['d']
    is_c = lambda n: any(rc.nodes[i]['k'] == 'DeclRefExpr' and rc.nodes[i].get('d') == cipher_d for i in origin_chain(rc, n))
    effects = []
    for i in rc.walk():
        c = rc.nodes[i].get('callee', '')
        for pat, lab in (('KademliaTable::publish_shards', 'dht_.publish_shards'), ('Node::announce_chunk', 'announce_chunk'),
                         ('ChunkStore::put', 'chunk_store_.put'), ('Node::broadcast_manifest', 'broadcast_manifest'),
                         ('Node::note_local_seed', 'note_local_seed'), ('Node::clear_pending_fetch', 'clear_pending_fetch'),
                         ('Node::update_swarm_plan', 'update_swarm_plan')):
            if c.endswith(pat):
                effects.append((lab, i))
    for i, m, w in field_accesses(rc):
        if w and m == N + 'manifest_cache_':
            effects.append(('manifest_cache_ write', i))
    ck.floor('C11.gate', 'state effects in receive_chunk', len(effects), 7)
    r, _ = check_verified_decrypt(ck, P, rc, 'receive_chunk', is_m, is_c, effects)
    # what is stored is the verified ciphertext under the manifest's id and nonce, flagged encrypted
    puts = rc.calls('ephemeralnet::ChunkStore::put')
    ck.floor('C11.flow', 'chunk_store_.put in receive_chunk', len(puts), 1)
    for p in puts:
        a = rc.call_args(p)
        ok = member_on(rc, a[0], MF + 'chunk_id', mvar) and is_c(a[1]) and \
            any(rc.nodes[j].get('m') == MF + 'nonce' for j in rc.walk(a[3])) and rc.nodes[rc.strip(a[4])].get('cv') == '1'
        # the ciphertext parameter must not be modified between decryption and the store
        from sa.paths import local_writes
        ws = [w for w in local_writes(rc, cipher_d) if not rc.is_in(w, p)]
        ck.ob('C11.flow', 'C11.flow/receive_chunk/put-args', ok and not ws, rc.loc(p),
              'chunk_store_.put(manifest.chunk_id, <the bytes that were decrypted and verified>, ttl, manifest.nonce.bytes, true); '
              'the received buffer is not modified in between')

    # ---- CLI ---------------------------------------------------------------------------------
    PM = ck.prog(['src/main.cpp'])
    dc = PM.fn('(anonymous namespace)::decrypt_chunk_with_manifest', optional=True) or \
        [f for f in PM.fns if f.q.endswith('decrypt_chunk_with_manifest')][0]
    md, pd = dc.params[0]['d'], dc.params[1]['d']
    is_m2 = lambda n: declref(dc, n, md) is not None
    is_c2 = lambda n: any(dc.nodes[i].get('m', '').endswith('ChunkPayload::data') for i in dc.walk(n)) and \
        any(dc.nodes[i]['k'] == 'DeclRefExpr' and dc.nodes[i].get('d') == pd for i in dc.walk(n))
    check_verified_decrypt(ck, PM, dc, 'decrypt_chunk_with_manifest', is_m2, is_c2, [])

    # ---- store_chunk ---------------------------------------------------------------------------
    sc = P.fn(N + 'store_chunk')
    ck.touch(sc)
    data_d = sc.params[1]['d']
    enc = sc.calls(CM + 'encrypt_with_key')
    spl = sc.calls(SH + 'split')
    gen = sc.calls(CM + 'generate_key')
    ck.floor('C11.store', 'encrypt_with_key / Shamir::split / generate_key in store_chunk', min(len(enc), len(spl), len(gen)), 1)
    e, s = enc[0], spl[0]
    ea, sa_ = sc.call_args(e), sc.call_args(s)
    key_d = declref(sc, ea[0])
    key_ok = key_d is not None and any(sc.nodes[i].get('callee') == CM + 'generate_key' for i in origin_chain(sc, ea[0])) and \
        member_on(sc, sa_[0], 'ephemeralnet::crypto::Key::bytes', key_d)
    ck.ob('C11.store', 'C11.store/same-key', key_ok, sc.loc(e),
          'the fresh key passed to encrypt_with_key is the secret passed to Shamir::split')
    ck.ob('C11.store', 'C11.store/encrypt-args', declref(sc, ea[1], sc.params[0]['d']) is not None and
          any(sc.nodes[i]['k'] == 'DeclRefExpr' and sc.nodes[i].get('d') == data_d for i in sc.walk(ea[2])), sc.loc(e),
          'encrypt_with_key(key, chunk_id argument, data argument)')
    sealed_d = None
    p = sc.parent(e)
    while p is not None and sc.nodes[p]['k'] != 'VarDecl':
        p = sc.parent(p)
    sealed_d = sc.nodes[p]['d'] if p is not None else None
    # the manifest object
    mdecl = None
    for i in sc.walk():
        nd = sc.nodes[i]
        if nd['k'] == 'VarDecl' and nd.get('t') == 'ephemeralnet::protocol::Manifest':
            mdecl = nd['d']
    if mdecl is None or sealed_d is None:
        raise AnalysisBroken('C11: store_chunk lost its manifest / sealed locals')
    fa = field_assigns(sc, mdecl)

    def single(field):
        lst = fa.get(MF + field, [])
        return lst[0][0] if len(lst) == 1 else None
    # chunk_hash = digest(span{data}) taken before data can be moved/modified
    h = single('chunk_hash')
    dg = chain_find(sc, h, lambda nd, i: nd.get('callee') == DIGEST) if h is not None else None
    hash_ok = dg is not None and any(sc.nodes[i]['k'] == 'DeclRefExpr' and sc.nodes[i].get('d') == data_d for i in sc.walk(sc.call_args(dg)[0]))
    if hash_ok:
        from sa.paths import local_writes
        cfg = Cfg.of(sc)
        for w in local_writes(sc, data_d):
            if not cfg.dominates(cfg.locate(dg), cfg.locate(w)):
                hash_ok = False
        # std::move(data) before the digest would also empty it
        for mv in sc.calls('std::move'):
            if declref(sc, sc.call_args(mv)[0], data_d) is not None and not cfg.dominates(cfg.locate(dg), cfg.locate(mv)):
                hash_ok = False
    ck.ob('C11.store', 'C11.store/hash-of-plaintext', hash_ok, sc.loc(dg) if dg is not None else sc.loc(),
          'manifest.chunk_hash is Sha256::digest of the plaintext argument, computed before the argument is moved or modified')
    n_ = single('nonce')
    ck.ob('C11.store', 'C11.store/manifest-nonce', n_ is not None and member_on(sc, n_, 'SealedChunk::nonce') or
          (n_ is not None and any(sc.nodes[j].get('n') == 'nonce' and declref(sc, sc.kids(j)[0], sealed_d) is not None
                                  for j in sc.walk(n_) if sc.nodes[j]['k'] == 'MemberExpr' and sc.kids(j))), sc.loc(n_) if n_ is not None else sc.loc(),
          'manifest.nonce is the nonce of the sealed result')
    cid = single('chunk_id')
    ck.ob('C11.store', 'C11.store/manifest-id', cid is not None and declref(sc, cid, sc.params[0]['d']) is not None, sc.loc(),
          'manifest.chunk_id is the chunk_id argument')
    thr = single('threshold')
    ck.ob('C11.store', 'C11.store/manifest-threshold', thr is not None and same_value(sc, thr, sa_[1]), sc.loc(),
          'manifest.threshold is the threshold the key was split with')
    # shards: manifest.shards = protocol_shards, filled from `shares` = split(...)
    sh = single('shards')
    shards_ok = False
    if sh is not None:
        pd_ = declref(sc, sh)
        rev = [(KS + 'index', SS + 'index'), (KS + 'value', SS + 'value')]
        src = share_copy_source(sc, pd_, rev) if pd_ is not None else None
        shards_ok = src is not None and any(i == sc.strip(s) for i in origin_chain(sc, src))
    ck.ob('C11.store', 'C11.store/manifest-shards', shards_ok, sc.loc(s),
          'manifest.shards are exactly the shares returned by Shamir::split (index and value copied, nothing added or dropped)')
    puts = sc.calls('ephemeralnet::ChunkStore::put')
    ck.floor('C11.store', 'chunk_store_.put in store_chunk', len(puts), 1)
    for p in puts:
        a = sc.call_args(p)
        sealed_member = lambda n, name: any(sc.nodes[j]['k'] == 'MemberExpr' and sc.nodes[j].get('n') == name and sc.kids(j) and
                                            declref(sc, sc.kids(j)[0], sealed_d) is not None for j in sc.walk(n))
        ok = declref(sc, a[0], sc.params[0]['d']) is not None and sealed_member(a[1], 'data') and sealed_member(a[3], 'nonce') \
            and sealed_member(a[4], 'encrypted')
        ck.ob('C11.store', 'C11.store/put-args', ok, sc.loc(p),
              'chunk_store_.put(chunk_id, sealed.data, ttl, sealed.nonce.bytes, sealed.encrypted)')

    # ---- fetch_chunk (local reconstruction) ---------------------------------------------------
    fc = P.fn(N + 'fetch_chunk')
    ck.touch(fc)
    recs = reconstruct(ck, fc, 'fetch_chunk')
    r = recs[0]
    # shard_source and shard_threshold are assigned pairwise from the same object (shard record or manifest)
    src_d = declref(fc, r['src']) if r['src'] is not None else None
    thr_d = declref(fc, r['thr']) if r['thr'] is not None else None
    pair_ok = False
    if src_d is not None and thr_d is not None:
        sdefs = [x for x in all_defs(fc, src_d) if x[0] == 'assign']
        tdefs = [x for x in all_defs(fc, thr_d) if x[0] == 'assign']
        pair_ok = bool(sdefs) and len(sdefs) == len(tdefs)
        for (_k, srhs, ssite) in sdefs:
            base_txt = None
            sm = fc.strip(srhs)
            if fc.nodes[sm]['k'] == 'MemberExpr' and fc.nodes[sm].get('n') == 'shards':
                base_txt = fc.text(fc.kids(sm)[0])
            mate = [t for t in tdefs if fc.parent(t[2]) == fc.parent(ssite) or
                    fc.nodes[fc.parent(t[2])]['k'] in ('ExprWithCleanups',) and fc.parent(fc.parent(t[2])) == fc.parent(fc.parent(ssite)) or
                    fc.parent(fc.parent(t[2]) or -1) == fc.parent(ssite) or fc.parent(t[2]) == fc.parent(fc.parent(ssite) or -1)]
            good = False
            for t in mate:
                tm = fc.strip(t[1])
                if base_txt is not None and fc.nodes[tm]['k'] == 'MemberExpr' and fc.nodes[tm].get('n') == 'threshold' and \
                        fc.text(fc.kids(tm)[0]) == base_txt:
                    good = True
            pair_ok = pair_ok and good
    ck.ob('C11.recon', 'C11.recon/fetch_chunk/shards-threshold-same-object', pair_ok, fc.loc(r['call']),
          'in fetch_chunk the share source and the threshold are always taken together from the same shard record / manifest')
    rec_ok = declref(fc, r['id'], fc.params[0]['d']) is not None and \
        any(fc.nodes[j].get('n') == 'data' and fc.nodes[j]['k'] == 'MemberExpr' for i in origin_chain(fc, r['cipher']) for j in fc.walk(i)) and \
        any(fc.nodes[j].get('n') == 'nonce' and fc.nodes[j]['k'] == 'MemberExpr' for i in origin_chain(fc, r['nonce']) for j in fc.walk(i))
    ck.ob('C11.recon', 'C11.recon/fetch_chunk/record-inputs', rec_ok, fc.loc(r['call']),
          'fetch_chunk decrypts record->data with record->nonce under the requested chunk id')

    # ---- publish_shards: the shard record used by fetch_chunk is always the one just published ------------------
    PK = ck.prog(['src/dht/KademliaTable.cpp'])
    ps = PK.fn('ephemeralnet::KademliaTable::publish_shards')
    ck.touch(ps)
    from sa.paths import Cfg as _Cfg
    stores = [i for i in ps.walk() if ps.nodes[i]['k'] == 'CXXOperatorCallExpr' and ps.nodes[i].get('op') == '=' and
              any(ps.nodes[j].get('m') == 'ephemeralnet::KademliaTable::shard_table_' for j in ps.walk(ps.kids(i)[1]))]
    stores += [i for i in ps.walk() if ps.nodes[i].get('callee', '').endswith('::insert_or_assign') and
               ps.receiver(i) is not None and ps.nodes[ps.receiver(i)].get('m') == 'ephemeralnet::KademliaTable::shard_table_']
    ck.floor('C11.shards', 'shard_table_ stores in publish_shards', len(stores), 1)
    cfgp = _Cfg.of(ps)
    wit = cfgp.must_pass_from((cfgp.entry, -1), lambda e: any(e == s_ or ps.is_in(s_, e) and ps.nodes[e]['k'] == 'ExprWithCleanups' for s_ in stores))
    ck.ob('C11.shards', 'C11.shards/always-replaces', wit is None, ps.loc(),
          'every path through publish_shards stores the new record (a kept stale record would make fetch_chunk reconstruct another key)', wit)
    rec_d = None
    for i in ps.walk():
        if ps.nodes[i]['k'] == 'VarDecl' and 'KeyShardRecord' in ps.nodes[i].get('t', ''):
            rec_d = ps.nodes[i]['d']
    fa = field_assigns(ps, rec_d) if rec_d is not None else {}
    KR = 'ephemeralnet::KademliaTable::KeyShardRecord::'
    okf = all(len(fa.get(KR + f_, [])) == 1 and any(ps.nodes[j]['k'] == 'DeclRefExpr' and ps.nodes[j].get('d') == ps.params[k_]['d']
                                                    for j in ps.walk(fa[KR + f_][0][0]))
              for f_, k_ in (('shards', 1), ('threshold', 2), ('total_shares', 3)))
    ck.ob('C11.shards', 'C11.shards/record-from-arguments', okf, ps.loc(), 'the stored record takes shards, threshold and total_shares from the arguments')

    # ---- the cipher wrapper: encrypt and decrypt are the same keystream application on every path --------------------------
    APPLY11 = 'ephemeralnet::crypto::ChaCha20::apply'
    for nm in ('encrypt', 'decrypt'):
        f11 = P.fn(CM + nm)
        ck.touch(f11)
        ap = f11.calls(APPLY11)
        cfg11 = Cfg.of(f11)
        wit = cfg11.must_pass_from((cfg11.entry, -1), lambda e, s_=set(ap), f_=f11: e in s_ or any(f_.is_in(x, e) for x in s_) and f_.nodes[e]['k'] == 'ExprWithCleanups') if ap else ['no call']
        ck.ob('C11.cipher', 'C11.cipher/%s/always-applies-keystream' % nm, len(ap) == 1 and wit is None, f11.loc(ap[0]) if ap else f11.loc(),
              'CryptoManager::%s runs ChaCha20::apply on every path to a return, for every input length (an empty payload included): '
              'what encrypt accepts, decrypt gives back' % nm)
        if len(ap) != 1:
            continue
        a11 = f11.call_args(ap[0])
        cnt = [j for j in f11.walk(a11[4]) if (f11.nodes[j].get('callee') or '').endswith('derive_counter')]
        cnt_src = declref(f11, a11[4])
        cnt_ok = bool(cnt)
        if not cnt_ok and cnt_src is not None:
            defs_ = all_defs(f11, cnt_src)
            cnt_ok = len(defs_) == 1 and any((f11.nodes[j].get('callee') or '').endswith('derive_counter') and
                                             declref(f11, f11.call_args(j)[0], f11.params[0]['d']) is not None for j in f11.walk(defs_[0][1]))
        key_ok11 = any(f11.nodes[j]['k'] == 'MemberExpr' and (f11.nodes[j].get('m') or '').endswith('CryptoManager::key_') for j in f11.walk(a11[0]))
        ck.ob('C11.cipher', 'C11.cipher/%s/apply-args' % nm, cnt_ok and key_ok11, f11.loc(ap[0]),
              'CryptoManager::%s applies the keystream of (key_, nonce, derive_counter(chunk_id)) — the same triple on both sides' % nm)
        # decrypt has no refusing return: its result is the buffer the keystream was applied into
        if nm == 'decrypt':
            out_d = declref(f11, a11[3])
            rets = [i for i in f11.walk() if f11.nodes[i]['k'] == 'ReturnStmt']
            bad = [r_ for r_ in rets if not any(f11.nodes[j]['k'] == 'DeclRefExpr' and f11.nodes[j].get('d') == out_d for j in f11.walk(r_))]
            ck.ob('C11.cipher', 'C11.cipher/decrypt/returns-the-applied-buffer', out_d is not None and rets and not bad, f11.loc(bad[0]) if bad else f11.loc(),
                  'every return of CryptoManager::decrypt yields the buffer ChaCha20::apply wrote (no input is refused)')
    for nm, inner in (('encrypt_with_key', 'encrypt'), ('decrypt_with_key', 'decrypt')):
        f11 = P.fn(CM + nm)
        ck.touch(f11)
        ic = f11.calls(CM + inner)
        cfg11 = Cfg.of(f11)
        wit = cfg11.must_pass_from((cfg11.entry, -1), lambda e, s_=set(ic), f_=f11: e in s_ or any(f_.is_in(x, e) for x in s_)) if ic else ['no call']
        rets = [i for i in f11.walk() if f11.nodes[i]['k'] == 'ReturnStmt']
        ck.ob('C11.cipher', 'C11.cipher/%s/forwards' % nm, len(ic) == 1 and wit is None and len(rets) == 1 and f11.is_in(ic[0], rets[0]), f11.loc(),
              '%s is CryptoManager{key}.%s(...) on every path and returns its result' % (nm, inner))

"""C28 — STORE admission: size cap before the body is read, TTL window, PoW, unforgeable rate identity."""
from sa.paths import gate_check
from sa.flow import derives_from, is_member, is_call_to, all_defs, origin_chain, value_sources
from sa.match import le_gate, call_true, same_value, holds, const_value, comparison
from sa.build import AnalysisBroken

UNITS = ['src/daemon/ControlServer.cpp']
LEVEL = 'other'
EXPLANATION = (
    'R-GATE on clang CFGs of ControlServer: (len) every definition of the declared payload length from the '
    'PAYLOAD-LENGTH header is dominated by `value <= max_control_stream_bytes()` and only that variable sizes the '
    'body read; (ttl/rate/pow) Node::store_chunk is unreachable without min<=ttl<=max (bounds from Config), '
    'allow_store_request()==true and, when store_pow_difficulty>0, store_pow_valid(input built from '
    'derive_chunk_id(payload), size, sanitize_filename_hint(PATH))==true; (identity) every value that reaches a '
    'rate-limiter key is the peer address or is assigned on the authenticated edge of the token gate; '
    '(limiter) each limiter refuses on size()>=limit after pruning entries older than the window, with the '
    'constants 6/30 s and 12/30 s.')
ASSUMPTIONS = ['the sliding-window count over request sequences follows from the limiter guards; it is not computed',
               'peer address (remote_identity) is taken from accept(); spoofing at the IP layer is out of scope']

IMPL = 'ephemeralnet::daemon::ControlServer::Impl::'
ANON = 'ephemeralnet::daemon::(anonymous namespace)::'
CTE = ANON + 'constant_time_equal'
TOKEN_FIELD = 'ephemeralnet::Config::control_token'


def global_ints(P, q):
    g = P.global_(q)
    return [int(n['v']) for n in g['nodes'] if n['k'] == 'IntegerLiteral']


def run(ck):
    P = ck.prog(UNITS)

    # ---- (len) parse_request --------------------------------------------------------
    pr = P.fn(ANON + 'parse_request')
    ck.touch(pr)
    body_reads = pr.calls(ANON + 'recv_exact') + [i for i in pr.calls(lambda_re('::resize$'))]
    ck.floor('C28.len', 'body read / allocation sites in parse_request', len(body_reads), 2)
    # the variable that sizes the body
    size_vars = set()
    for c in body_reads:
        for a in pr.call_args(c):
            for i in origin_chain(pr, a):
                nd = pr.nodes[i]
                if nd['k'] == 'DeclRefExpr' and nd.get('dk') == 'Var' and 'optional<unsigned long>' in nd.get('t', ''):
                    size_vars.add(nd['d'])
    ck.ob('C28.len', 'C28.len/single-size-variable', len(size_vars) == 1, pr.loc(),
          'the body allocation and recv_exact are sized by one optional<size_t> local (the declared length)')
    header_defs = 0
    for d in size_vars:
        for kind, rhs, site in all_defs(pr, d):
            if rhs is None:
                ck.ob('C28.len', 'C28.len/def-opaque', False, pr.loc(site), 'declared length modified through an opaque write')
                continue
            if const_value(pr, rhs) is not None or pr.nodes[pr.strip(rhs)]['k'] in ('CXXConstructExpr',) and not pr.kids(pr.strip(rhs)):
                continue  # constant (0) or default
            header_defs += 1
            limit = lambda n: derives_from(pr, n, is_call_to('ephemeralnet::daemon::max_control_stream_bytes'))
            val = lambda n, rhs=rhs: same_value(pr, n, rhs)
            fails, _ = gate_check(pr, [('def', site)], [('cap', le_gate(pr, val, limit))])
            ck.ob('C28.len', 'C28.len/def-capped', not fails, pr.loc(site),
                  'declared payload length `%s` is assigned only past value <= max_control_stream_bytes()' % pr.text(rhs),
                  fails[0][3] if fails else None)
    ck.floor('C28.len', 'header-derived definitions of the declared length', header_defs, 1)
    # nothing else in parse_request takes bytes off the socket: the header lines (recv_line) and the one sized body read are the only
    # readers — an over-cap request is refused from its headers, not after "draining" what it announced
    from sa.callgraph import CallGraph as _CG28
    G28 = _CG28(P)
    readers = set()
    for i in pr.walk():
        c_ = pr.nodes[i].get('callee') or ''
        if c_ in P.by_q and pr.nodes[i]['k'] in ('CallExpr', 'CXXMemberCallExpr'):
            reach = G28.reachable([c_])
            direct_recv = any((g_.nodes[j].get('callee') or '') in ('recv', '::recv', 'read', '::read', 'recvfrom') for q_ in reach if q_ in P.by_q for g_ in P.by_q[q_] for j in g_.walk())
            if direct_recv:
                readers.add(c_.split('::')[-1])
    nrx = len(pr.calls(ANON + 'recv_exact'))
    ck.ob('C28.len', 'C28.len/only-sized-body-read', readers <= {'recv_line', 'recv_exact'} and nrx == 1, pr.loc(),
          'parse_request reads from the socket only through recv_line and a single recv_exact sized by the capped length (found readers %s, %d recv_exact call(s))'
          % (sorted(readers), nrx))

    # ---- handle_store gates ----------------------------------------------------------
    hs = P.fn(IMPL + 'handle_store')
    ck.touch(hs)
    stores = hs.calls('ephemeralnet::Node::store_chunk')
    ck.floor('C28.store', 'Node::store_chunk call sites in handle_store', len(stores), 1)
    for sc in stores:
        args = hs.call_args(sc)
        ttl_arg = args[2]
        is_ttl = lambda n: same_value(hs, n, ttl_arg)
        is_min = lambda n: derives_from(hs, n, is_member('ephemeralnet::Config::min_manifest_ttl'))
        is_max = lambda n: derives_from(hs, n, is_member('ephemeralnet::Config::max_manifest_ttl'))
        diff = lambda n: derives_from(hs, n, is_member('ephemeralnet::Config::store_pow_difficulty'))

        def pow_pass(fact, hs=hs, diff=diff):
            kind, node, val = fact
            h = holds(hs, fact)
            if h is not None:
                a, rel, b = h
                # difficulty <= 0  (false edge of difficulty > 0)
                if rel in ('<=', '==') and diff(a) and const_value(hs, b) == 0:
                    return True
            if kind == 'bool' and val is True and hs.nodes[node].get('callee') == 'ephemeralnet::security::store_pow_valid':
                a = hs.call_args(node)
                return len(a) == 3 and diff(a[2])
            return False

        gates = [
            ('ttl>=min', le_gate(hs, is_min, is_ttl)),
            ('ttl<=max', le_gate(hs, is_ttl, is_max)),
            ('rate', call_true(hs, IMPL + 'allow_store_request')),
            ('pow', pow_pass),
        ]
        fails, _ = gate_check(hs, [('store_chunk', sc)], gates)
        failed = {g: p for _e, g, _n, p, _c in fails}
        for g, _ in gates:
            ck.ob('C28.store', 'C28.store/%s' % g, g not in failed, hs.loc(sc),
                  'node_.store_chunk is reached only past the %s check' % g, failed.get(g))
        # R-FLOW: the PoW input binds payload hash, size and the sanitised filename
        pv = hs.calls('ephemeralnet::security::store_pow_valid')
        ck.floor('C28.pow', 'store_pow_valid call sites', len(pv), 1)
        for c in pv:
            inp = hs.call_args(c)[0]
            srcs = set()
            for k in value_sources(hs, inp):
                cal = hs.nodes[k].get('callee', '')
                if cal.endswith('derive_chunk_id'):
                    srcs.add('chunk_id')
                if cal.endswith('sanitize_filename_hint'):
                    srcs.add('filename')
                if cal.endswith('::size') and 'vector' in cal:
                    srcs.add('size')
            ck.ob('C28.pow', 'C28.pow/input-fields', srcs >= {'chunk_id', 'filename', 'size'}, hs.loc(c),
                  'StoreWorkInput given to store_pow_valid is built from derive_chunk_id(payload), payload size and '
                  'sanitize_filename_hint(PATH) (found: %s)' % sorted(srcs))

    # ---- (identity) unforgeable rate-limit key ---------------------------------------
    n_ident = 0
    for hname, limiter_names in (('handle_store', ('allow_store_request', 'note_store_pow_failure', 'clear_store_pow_failures')),
                                 ('handle_fetch', ('allow_stream_fetch',))):
        fn = P.fn(IMPL + hname)
        ck.touch(fn)
        ident_vars = {}
        for ln in limiter_names:
            for c in fn.calls(IMPL + ln):
                a = fn.strip(fn.call_args(c)[0])
                nd = fn.nodes[a]
                if nd['k'] == 'DeclRefExpr':
                    ident_vars[nd['d']] = nd['n']
                else:
                    ck.ob('C28.identity', 'C28.identity/%s/%s-arg' % (hname, ln), False, fn.loc(c),
                          'rate-limiter key is not a plain variable: %s' % fn.text(a))
        for d, name in ident_vars.items():
            for kind, rhs, site in all_defs(fn, d):
                n_ident += 1
                if rhs is not None and fn.nodes[fn.strip(rhs)]['k'] == 'DeclRefExpr' and \
                        fn.nodes[fn.strip(rhs)].get('dk') == 'ParmVar' and fn.nodes[fn.strip(rhs)]['n'] == 'remote_identity':
                    ck.ob('C28.identity', 'C28.identity/%s/%s=peer-address' % (hname, name), True, fn.loc(site),
                          'rate identity initialised from the peer address')
                    continue

                def auth_edge(fact, fn=fn):
                    kind, node, val = fact
                    if kind == 'bool' and val is True and fn.nodes[node].get('callee') == CTE:
                        a = fn.call_args(node)
                        return derives_from(fn, a[0], is_member(TOKEN_FIELD))
                    return False
                fails, _ = gate_check(fn, [('def', site)], [('authenticated', auth_edge)])
                ck.ob('C28.identity', 'C28.identity/%s/%s=%s' % (hname, name, fn.text(rhs) if rhs is not None else '?'),
                      not fails, fn.loc(site),
                      'rate identity derived from a request header must be assigned on the authenticated edge of the token gate',
                      fails[0][3] if fails else None)
    ck.floor('C28.identity', 'definitions of rate-limiter keys', n_ident, 4)

    # ---- (limiter) shape and constants -----------------------------------------------
    for lname, lim_q, win_q, lim_v, win_v in (('allow_store_request', 'kStoreRateBurstLimit', 'kStoreRateWindow', 6, 30),
                                              ('allow_stream_fetch', 'kFetchStreamBurstLimit', 'kFetchStreamRateWindow', 12, 30)):
        fn = P.fn(IMPL + lname)
        ck.touch(fn)
        ck.ob('C28.limiter', 'C28.limiter/%s/limit' % lname, P.global_const(ANON + lim_q) == lim_v, fn.loc(),
              '%s == %d' % (lim_q, lim_v))
        ck.ob('C28.limiter', 'C28.limiter/%s/window' % lname, global_ints(P, ANON + win_q) == [win_v], fn.loc(),
              '%s == %d s' % (win_q, win_v))
        pushes = fn.calls(lambda_re('::push_back$'))
        rets = [i for i in fn.walk() if fn.nodes[i]['k'] == 'ReturnStmt' and const_value(fn, fn.kids(i)[0]) == 1]
        ck.floor('C28.limiter', 'accepting effects in %s' % lname, len(pushes) + len(rets), 2)

        def below_limit(fact, fn=fn, lim_q=lim_q):
            h = holds(fn, fact)
            if h is None:
                return False
            a, rel, b = h
            lim = lambda n: any(fn.nodes[i].get('q') == ANON + lim_q for i in origin_chain(fn, n))
            size = lambda n: fn.nodes[fn.strip(n)].get('callee', '').endswith('::size')
            return (rel == '<' and size(a) and lim(b)) or (rel == '>' and size(b) and lim(a))
        fails, _ = gate_check(fn, [('push_back', p) for p in pushes] + [('return true', r) for r in rets],
                              [('size<limit', below_limit)])
        ck.ob('C28.limiter', 'C28.limiter/%s/refuse-at-limit' % lname, not fails, fn.loc(),
              '%s records and accepts a request only while history.size() < %s' % (lname, lim_q),
              fails[0][3] if fails else None)
        # prune predicate: now - timestamp > window
        lams = P.lambdas_of(fn.q)
        okp = False
        for lam in lams:
            for i in lam.walk():
                c = comparison(lam, i)
                if c and c[0] == '>' and any(lam.nodes[j].get('q') == ANON + win_q for j in lam.walk(c[2])) \
                        and any(lam.nodes[j].get('op') == '-' for j in lam.walk(c[1])):
                    okp = True
        erase = fn.calls(lambda_re('::erase$'))
        ck.ob('C28.limiter', 'C28.limiter/%s/prune' % lname, okp and len(erase) >= 1, fn.loc(),
              '%s prunes exactly the entries with now - t > %s before counting' % (lname, win_q))

    # ---- (limiter) the histories belong to their limiter: nothing else adds, removes or hands back an entry -------------------------
    # (an entry leaves a history only by ageing out of the window inside the limiter; a "refund" on refusal lets a client keep
    # its slots free with cheap refused requests and exceed the burst limit with accepted ones)
    from sa.flow import field_accesses as _fa28
    for hist, owner in (('store_history_', 'allow_store_request'), ('fetch_history_', 'allow_stream_fetch')):
        users = {}
        for f in P.fns:
            for i, m_, w_ in _fa28(f):
                if m_ == IMPL + hist:
                    users.setdefault(f.q, f.loc(i))
        if not users:
            if hist == 'store_history_':
                raise AnalysisBroken('no function uses %s' % hist)
            continue
        allowed = {IMPL + owner}
        others = sorted(q for q in users if q not in allowed and not q.startswith(IMPL + owner + '::$') and P.fn(q).kind not in ('ctor', 'dtor'))
        ck.ob('C28.limiter', 'C28.limiter/%s/sole-owner' % hist, not others, users[others[0]] if others else P.fn(IMPL + owner).loc(),
              '%s is touched only by %s (found also: %s)' % (hist, owner, ', '.join(q.replace(IMPL, '') for q in others) or 'nothing'))

    # ... and a history is never emptied wholesale: entries leave only by ageing out (the prune in the limiter) — no clear() on a
    # per-identity table, whoever holds the reference
    wipes = []
    for f in P.fns:
        for i in f.walk():
            nd_ = f.nodes[i]
            if nd_['k'] == 'CXXMemberCallExpr' and (nd_.get('callee') or '').split('::')[-1] in ('clear', 'swap') and f.receiver(i) is not None:
                rt = (f.nodes[f.strip(f.receiver(i))].get('t') or '')
                if 'unordered_map<std::basic_string<char>, std::vector<std::chrono::time_point' in rt:
                    wipes.append((f, i))
    ck.ob('C28.limiter', 'C28.limiter/no-wholesale-reset', not wipes, wipes[0][0].loc(wipes[0][1]) if wipes else '',
          'no per-identity rate table is cleared or swapped out (a bounded table that is wiped when full hands every throttled identity a fresh budget)')

    # ---- numeric headers are parsed without wrap-around: a PAYLOAD-LENGTH / TTL of 2^64 + k must be refused, not read as k -----------
    from sa.absint2 import Analyzer, summarize, report
    pu = [f for f in P.fns if f.q.endswith('::parse_uint64')]
    if not pu:
        raise AnalysisBroken('parse_uint64 not found')
    pu = pu[0]
    ck.touch(pu)
    an = Analyzer(P, inline=lambda q: False)
    an.wrap_fns = lambda q: q == pu.q
    an.run(pu)
    sites = summarize(an)
    nwrap = len([1 for e in sites.values() if e['kind'] == 'wrap'])
    report(ck, 'C28', sites, kinds=('wrap', 'bound', 'loop'))
    uses_from_chars = any((pu.nodes[i].get('callee') or '') == 'std::from_chars' for i in pu.walk())
    ck.ob('C28.parse', 'C28.parse/overflow-refused', uses_from_chars or nwrap > 0, pu.loc(),
          'parse_uint64 either delegates to std::from_chars (which reports out-of-range) or its own arithmetic is proved not to wrap '
          '(%s; %d arithmetic site(s) analysed)' % ('std::from_chars' if uses_from_chars else 'hand-written', nwrap))
    _late_rules(ck, P, hs)

def lambda_re(pat):
    import re
    return re.compile(pat)


def _late_rules(ck, P, hs):
    # ---- the cap applied is the cap configured: set_max_control_stream_bytes stores its argument (or "unlimited" for 0) without arithmetic ------
    PCP = ck.prog(['src/daemon/ControlPlane.cpp'])
    smx = PCP.fn('ephemeralnet::daemon::set_max_control_stream_bytes')
    ck.touch(smx)
    arith = [i for i in smx.walk() if smx.nodes[i]['k'] in ('BinaryOperator', 'CompoundAssignOperator') and smx.nodes[i].get('op') in ('+', '-', '*', '/', '%', '<<', '>>', '&', '|', '+=', '-=', '*=', '/=')]
    ck.ob('C28.len', 'C28.len/cap-stored-as-configured', not arith, smx.loc(arith[0]) if arith else smx.loc(),
          'set_max_control_stream_bytes stores the configured byte count itself (0 = unlimited): no rounding or alignment widens the cap beyond --max-store-bytes')

    # ---- streamed FETCH answers are budgeted: a payload goes back to the client only past allow_stream_fetch(...) == true -------------------------
    hf = P.fn(IMPL + 'handle_fetch')
    ck.touch(hf)
    pay_sends = [i for i in hf.walk() if hf.nodes[i].get('callee') == IMPL + 'send_response' and len([a for a in hf.call_args(i) if hf.nodes[a]['k'] != 'CXXDefaultArgExpr']) >= 4]

    def budget(fact):
        kind, node, val = fact
        return kind == 'bool' and val is True and hf.nodes[node].get('callee') == IMPL + 'allow_stream_fetch'
    ck.floor('C28.limiter', 'payload-carrying responses in handle_fetch', len(pay_sends), 1)
    f28, _ = gate_check(hf, [('streamed payload', i) for i in pay_sends], [('allow_stream_fetch', budget)])
    ck.ob('C28.limiter', 'C28.limiter/streamed-fetch-budgeted', not f28, hf.loc(f28[0][2]) if f28 else hf.loc(),
          'handle_fetch sends chunk bytes over the control socket only after allow_stream_fetch(identity) accepted the request', f28[0][3] if f28 else None)

    # ---- the proof of work is checked over the whole sanitised filename: the work input is built from the string, not from a C string ------------
    cstr = []
    for i in hs.walk():
        nd_ = hs.nodes[i]
        if nd_['k'] in ('InitListExpr', 'CXXConstructExpr', 'CXXTemporaryObjectExpr') and 'StoreWorkInput' in (nd_.get('t') or ''):
            for j in hs.walk(i):
                if (hs.nodes[j].get('callee') or '').endswith(('::c_str', '::data')) and 'basic_string' in (hs.nodes[j].get('callee') or ''):
                    cstr.append(j)
        if nd_['k'] == 'VarDecl' and 'StoreWorkInput' in (nd_.get('t') or '') and nd_.get('init') is not None and nd_['init'] >= 0:
            from sa.flow import value_sources as _vs28
            for j in _vs28(hs, nd_['init']):
                if (hs.nodes[j].get('callee') or '').endswith(('::c_str', '::data')) and 'basic_string' in (hs.nodes[j].get('callee') or ''):
                    cstr.append(j)
    ck.ob('C28.pow', 'C28.pow/whole-filename', not cstr, hs.loc(cstr[0]) if cstr else hs.loc(),
          'the StoreWorkInput checked by store_pow_valid takes the filename as the std::string / string_view itself (a C-string view stops at the first NUL: '
          'a nonce mined for "a.txt" would cover "a.txt\\\\0anything")')

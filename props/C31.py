"""C31 — fetch output stays inside the chosen directory (structural clauses)."""
from sa.paths import Cfg, loops, local_writes
from sa.flow import all_defs, origin_chain, value_sources
from sa.match import comparison, const_value
from sa.build import AnalysisBroken
from props.common import declref, literal_text, assignments

UNITS = ['src/main.cpp', 'src/core/Node.cpp', 'src/security/StoreProof.cpp']
LEVEL = 'other'
EXPLANATION = (
    'R-FLOW provenance: at `resolved_output /= inferred_name` every definition of inferred_name is the CLI sanitizer applied to '
    'the manifest metadata, the hex chunk id, or "chunk_" + a number; no other operator/= or operator/ extends resolved_output '
    'afterwards; in Node::store_chunk the only value stored under metadata["filename"] is the node sanitizer applied to '
    'path(original_name).filename().string(). Sanitizer shape (both lambdas, sibling agreement): start from '
    'std::filesystem::path(x).filename(); erase(remove_if(iscntrl)) over the whole string; replace every character of a set '
    'containing / \\ : * ? " < > | by \'_\'; then (after both steps) map "", "." and ".." to the empty string; truncate to 255. '
    'The two replacement sets are equal. sanitize_filename_hint (PoW hint) takes filename() and rejects "", "." and "..".')
ASSUMPTIONS = ['the string-level claim "for every byte string the result has no separator" follows from the shape but is not enumerated',
               'std::filesystem::path::filename() returns the last path component (no separators for the native format)']

REQUIRED = set('/\\:*?"<>|')


def replaced_chars(fn):
    """Characters compared with the loop variable in the replacement loop, and whether '_' is assigned."""
    out = set()
    assigns_us = False
    for l in loops(fn):
        ln = fn.nodes[l]
        if ln['k'] != 'CXXForRangeStmt':
            continue
        var = fn.nodes[ln['var']]
        if not var.get('t', '').endswith('&') or var.get('t', '').startswith('const'):
            continue
        for i in fn.walk(ln['body']):
            c = comparison(fn, i)
            if c and c[0] == '==' and declref(fn, c[1], var['d']) is not None:
                v = const_value(fn, c[2])
                if v is not None:
                    out.add(chr(v))
        for l_, r_, s_ in assignments(fn):
            if fn.is_in(s_, ln['body']) and declref(fn, l_, var['d']) is not None and const_value(fn, r_) == ord('_'):
                assigns_us = True
        return out, assigns_us, l
    return out, assigns_us, None


def sanitizer_shape(ck, P, fn, tag, start_in_lambda):
    ck.touch(fn)
    cfg = Cfg.of(fn)
    # (b) erase(remove_if(..., iscntrl))
    er = [i for i in fn.walk() if fn.nodes[i].get('callee', '').endswith('basic_string<char>::erase')]
    rm = [i for i in fn.walk() if fn.nodes[i].get('callee') == 'std::remove_if']
    pred = [f for f in P.lambdas_of(fn.q)]
    cntrl = any(any(g.nodes[j].get('callee') in ('iscntrl', 'std::iscntrl') for j in g.walk()) for g in pred)
    whole = False
    if rm:
        a = fn.call_args(rm[0])
        whole = fn.nodes[fn.strip(a[0])].get('callee', '').endswith('::begin') and fn.nodes[fn.strip(a[1])].get('callee', '').endswith('::end')
    ck.ob('C31.shape', 'C31.shape/%s/control-chars-removed' % tag, len(er) >= 1 and len(rm) == 1 and cntrl and whole, fn.loc(),
          '%s erases every control character (erase(remove_if(begin, end, iscntrl)))' % tag)
    # (c) replacement set
    chars, us, rl = replaced_chars(fn)
    ck.ob('C31.shape', 'C31.shape/%s/reserved-replaced' % tag, REQUIRED <= chars and us, fn.loc(rl) if rl else fn.loc(),
          '%s replaces each of / \\ : * ? " < > | by _ (found set %s)' % (tag, ''.join(sorted(chars))))
    # (d) dot check after both rewriting steps
    dots = []
    for i in fn.walk():
        nd = fn.nodes[i]
        if nd['k'] == 'CXXOperatorCallExpr' and nd.get('op') == '==':
            for x in fn.kids(i)[1:]:
                lit = literal_text(fn, x)
                if lit in ('.', '..'):
                    dots.append((lit, i))
    have = {d for d, _ in dots}
    after = bool(rm) and rl is not None and all(cfg.dominates(cfg.locate(rm[0]), cfg.locate(i)) and
                                                 cfg.dominates(cfg.locate(fn.nodes[rl]['range']), cfg.locate(i)) and not fn.is_in(i, rl) for _d, i in dots)
    ck.ob('C31.shape', 'C31.shape/%s/dots-rejected-last' % tag, have == {'.', '..'} and after, fn.loc(),
          '%s maps "." and ".." to the empty name, testing the string after control characters were removed and separators replaced' % tag)
    # (a) filename()
    if start_in_lambda:
        fnm = [i for i in fn.walk() if fn.nodes[i].get('callee') == 'std::filesystem::path::filename']
        ok = len(fnm) == 1 and any(fn.nodes[j]['k'] == 'DeclRefExpr' and fn.nodes[j].get('d') == fn.params[0]['d']
                                   for j in value_sources(fn, fn.receiver(fnm[0]) if fn.receiver(fnm[0]) is not None else fnm[0]))
        ck.ob('C31.shape', 'C31.shape/%s/filename-component' % tag, ok, fn.loc(), '%s starts from std::filesystem::path(candidate).filename()' % tag)
    return chars


def run(ck):
    PM = ck.prog(['src/main.cpp'])
    PN = ck.prog(['src/core/Node.cpp'])
    main = PM.fn('main')
    ck.touch(main)
    cs = PM.fn('main::$sanitize_filename')
    ns = PN.fn('ephemeralnet::Node::store_chunk::$sanitize_filename')
    c1 = sanitizer_shape(ck, PM, cs, 'cli sanitize_filename', True)
    c2 = sanitizer_shape(ck, PN, ns, 'node sanitize_filename', False)
    ck.ob('C31.sib', 'C31.sib/same-replacement-set', c1 == c2, cs.loc(), 'the CLI and node sanitizers replace the same characters (%s vs %s)'
          % (''.join(sorted(c1)), ''.join(sorted(c2))))
    # truncation 255 on both sides
    for fn, tag in ((cs, 'cli'), (PN.fn('ephemeralnet::Node::store_chunk'), 'node')):
        rz = [i for i in fn.walk() if fn.nodes[i].get('callee', '').endswith('basic_string<char>::resize')]
        ok = any(const_value(fn, fn.call_args(i)[0]) == 255 for i in rz)
        # ... decided by the length of the very string that is shortened (not of the path it came from)
        for i in rz:
            if const_value(fn, fn.call_args(i)[0]) != 255:
                continue
            rv = declref(fn, fn.receiver(i))
            guard = next((fn.nodes[a]['cond'] for a in fn.ancestors(i) if fn.nodes[a]['k'] == 'IfStmt'), None)
            if guard is not None:
                sz = [j for j in fn.walk(guard) if (fn.nodes[j].get('callee') or '').endswith('::size')]
                ok = ok and bool(sz) and all(declref(fn, fn.receiver(j)) == rv for j in sz)
        ck.ob('C31.shape', 'C31.shape/%s/truncate-255' % tag, ok, fn.loc(), '%s truncates the suggested name to 255 bytes' % tag)
    # nothing is added to a sanitised name: the string a sanitizer works on grows from no other text
    GROW = ('operator+=', 'append', 'push_back', 'insert', 'assign', 'replace', 'operator=', 'swap', 'emplace_back')
    for fn, tag, names in ((cs, 'cli', None), (PN.fn('ephemeralnet::Node::store_chunk'), 'node', ('base',))):
        grow = []
        for i in fn.walk():
            nd = fn.nodes[i]
            c = nd.get('callee') or ''
            if not c.startswith('std::basic_string<char>::') or c.split('::')[-1] not in GROW:
                continue
            recv = fn.receiver(i) if nd['k'] == 'CXXMemberCallExpr' else (fn.kids(i)[1] if len(fn.kids(i)) > 1 else None)
            if recv is None:
                continue
            rn = fn.nodes[fn.strip(recv)]
            if rn['k'] != 'DeclRefExpr' or rn.get('dk') != 'Var':
                continue
            if names is not None and rn.get('n') not in names:
                continue
            grow.append((i, rn.get('n'), c.split('::')[-1]))
        ck.ob('C31.shape', 'C31.shape/%s/no-text-added' % tag, not grow, fn.loc(grow[0][0]) if grow else fn.loc(),
              'the %s sanitizer only removes, replaces and truncates: nothing is appended or assigned to the name after it was taken from the '
              'filename component%s' % (tag, (' — found %s on `%s`' % (grow[0][2], grow[0][1])) if grow else ''))
    # CLI: empty result for "", ".", ".."
    emp = any(cs.nodes[i].get('callee', '').endswith('::empty') for i in cs.walk())
    ck.ob('C31.shape', 'C31.shape/cli/empty-rejected', emp, cs.loc(), 'the CLI sanitizer returns the empty name for an empty component')

    # ---- CLI provenance ------------------------------------------------------------------------------------
    joins = [i for i in main.walk() if main.nodes[i]['k'] == 'CXXOperatorCallExpr' and main.nodes[i].get('op') in ('/=', '/') and
             any(main.nodes[j]['k'] == 'DeclRefExpr' and main.nodes[j].get('n') == 'resolved_output' for j in main.walk(main.kids(i)[1]))]
    for g in PM.with_lambdas(main):
        if g is main:
            continue
        joins += [('lambda', g, i) for i in g.walk() if g.nodes[i]['k'] == 'CXXOperatorCallExpr' and g.nodes[i].get('op') in ('/=', '/') and
                  any(g.nodes[j]['k'] == 'DeclRefExpr' and g.nodes[j].get('n') == 'resolved_output' for j in g.walk(g.kids(i)[1]))]
    ck.floor('C31.flow', 'path extensions of resolved_output', len(joins), 1)
    ck.ob('C31.own', 'C31.own/single-extension', len(joins) == 1 and not isinstance(joins[0], tuple), main.loc(),
          'resolved_output is extended by exactly one operator/= (found %d)' % len(joins))
    if joins and not isinstance(joins[0], tuple):
        j = joins[0]
        nm = declref(main, main.kids(j)[2])
        defs = all_defs(main, nm) if nm is not None else []
        kinds = []
        for kind, rhs, site in defs:
            if rhs is None:
                kinds.append('other:' + main.text(site)[:40])
                continue
            if kind == 'init' and not main.kids(main.strip(rhs)):
                continue          # std::string inferred_name; (empty)
            top = main.strip(rhs)
            tn = main.nodes[top]
            if tn.get('callee') == 'main::$sanitize_filename':
                kinds.append('sanitized')
            elif tn.get('callee', '').endswith('chunk_id_to_string'):
                kinds.append('hex-id')
            elif tn['k'] == 'CXXOperatorCallExpr' and tn.get('op') == '+' and literal_text(main, main.kids(top)[1]) == 'chunk_' and \
                    main.nodes[main.strip(main.kids(top)[2])].get('callee') == 'std::to_string':
                kinds.append('chunk_<number>')
            else:
                kinds.append('UNSANITIZED:' + main.text(rhs)[:50])
        ck.floor('C31.flow', 'definitions of inferred_name', len(kinds), 3)
        ck.ob('C31.flow', 'C31.flow/inferred_name-sources', all(k in ('sanitized', 'hex-id', 'chunk_<number>') for k in kinds), main.loc(j),
              'every definition of the name appended to the target directory is sanitised, a hex id or chunk_<number> (found %s)' % kinds)
    # ---- node provenance -----------------------------------------------------------------------------------------
    sc = PN.fn('ephemeralnet::Node::store_chunk')
    ck.touch(sc)
    stores = [(l, r, s) for l, r, s in assignments(sc) if any(sc.nodes[x].get('s') == 'filename' for x in sc.walk(l) if sc.nodes[x]['k'] == 'StringLiteral')]
    ck.floor('C31.flow', 'writes of metadata["filename"] in store_chunk', len(stores), 1)
    for l, r, s in stores:
        bd = declref(sc, r)
        defs = all_defs(sc, bd) if bd is not None else []
        inits = [x for x in defs if x[0] == 'init']
        ok = len(inits) == 1 and sc.nodes[sc.strip(inits[0][1])].get('callee') == ns.q
        arg_ok = False
        if ok:
            a = sc.call_args(sc.strip(inits[0][1]))[-1]
            arg_ok = any(sc.nodes[x].get('callee') == 'std::filesystem::path::filename' for x in sc.walk(a))
        others = [x for x in defs if x[0] != 'init' and not sc.nodes[x[2]].get('callee', '').endswith('::resize')]
        ck.ob('C31.flow', 'C31.flow/node-filename', ok and arg_ok and not others, sc.loc(s),
              'metadata["filename"] is sanitize_filename(path(original_name).filename().string()), only shortened afterwards')
        # stored only when non-empty
        from sa.paths import gate_check
        def g(fact, bd=bd):
            kind, node, val = fact
            return kind == 'bool' and val is False and sc.nodes[node].get('callee', '').endswith('::empty') and declref(sc, sc.receiver(node), bd) is not None
        fails, _ = gate_check(sc, [('store filename', s)], [('non-empty', g)])
        ck.ob('C31.flow', 'C31.flow/node-filename-nonempty', not fails, sc.loc(s), 'an empty sanitised name is not recorded', fails[0][3] if fails else None)
    # ---- sanitize_filename_hint -------------------------------------------------------------------------------------
    PS = ck.prog(['src/security/StoreProof.cpp'])
    sh = PS.fn('ephemeralnet::security::sanitize_filename_hint')
    ck.touch(sh)
    lits = {literal_text(sh, x) for i in sh.walk() if sh.nodes[i]['k'] == 'CXXOperatorCallExpr' and sh.nodes[i].get('op') == '==' for x in sh.kids(i)[1:]}
    ok = any(sh.nodes[i].get('callee') == 'std::filesystem::path::filename' for i in sh.walk()) and {'.', '..'} <= lits
    ck.ob('C31.shape', 'C31.shape/hint', ok, sh.loc(), 'sanitize_filename_hint takes the filename component and rejects "." and ".."')

    # ---- the recorded name has one writer: metadata["filename"] is assigned in Node::store_chunk only ------------------------------------------
    PD = ck.prog(['src/daemon/ControlServer.cpp'])
    elsewhere = []
    for Pq in (PN, PD, PM):
        for f in Pq.fns:
            if f.q == 'ephemeralnet::Node::store_chunk' or f.q.startswith('ephemeralnet::Node::store_chunk::$'):
                continue
            for l, r, s in assignments(f):
                if any(f.nodes[x]['k'] == 'StringLiteral' and f.nodes[x].get('s') == 'filename' for x in f.walk(l)) and \
                        any(f.nodes[x]['k'] == 'MemberExpr' and (f.nodes[x].get('m') or '').endswith('Manifest::metadata') for x in f.walk(l)):
                    elsewhere.append((f, s))
    ck.ob('C31.own', 'C31.own/filename-metadata-single-writer', not elsewhere, elsewhere[0][0].loc(elsewhere[0][1]) if elsewhere else sc.loc(),
          'manifest.metadata["filename"] is written only by Node::store_chunk, from its sanitised name (the control server does not put the raw '
          'proof-of-work hint back)' + ('' if not elsewhere else ' — also written in %s' % elsewhere[0][0].name))

    # ---- the only character a sanitizer ever writes into a name is the replacement '_' -------------------------------------------------------
    for fn, tag in ((cs, 'cli'), (ns, 'node')):
        odd = []
        for l, r, s in assignments(fn):
            ln = fn.nodes[fn.strip(l, casts=False)]
            is_elem = ln['k'] in ('CXXOperatorCallExpr', 'ArraySubscriptExpr') and ln.get('op', '[]') == '[]' or ln['k'] == 'DeclRefExpr' and (ln.get('t') or '').replace('const ', '') in ('char &', 'char')
            lit = [fn.nodes[x] for x in fn.walk(r) if fn.nodes[x]['k'] in ('CharacterLiteral', 'IntegerLiteral')]
            if is_elem and lit and any(int(x.get('v', 95)) != 95 for x in lit):
                odd.append(s)
        ck.ob('C31.shape', 'C31.shape/%s/only-underscore-written' % tag, not odd, fn.loc(odd[0]) if odd else fn.loc(),
              'the %s sanitizer writes no character other than \'_\' into the name (a substitute such as \'?\' is itself one of the reserved characters)' % tag)

"""C01 — a stored chunk is retrievable exactly while it is live."""
from sa.paths import gate_check, Cfg
from sa.flow import origin_chain, all_defs, field_accesses, value_sources
from sa.match import const_value
from sa.build import AnalysisBroken
from props.common import expiry_comparisons, expired_fact, live_fact, is_now, rx, assignments

UNITS = ['src/core/ChunkStore.cpp', 'src/core/Node.cpp', 'src/dht/KademliaTable.cpp',
         'src/core/SwarmCoordinator.cpp', 'src/daemon/ControlServer.cpp']
LEVEL = 'other'
EXPLANATION = (
    'Structural decision of the serving discipline: (own) ChunkStore::chunks_ is touched only by ChunkStore '
    'members and Node reads ChunkRecord::data only from a record returned by ChunkStore::get_record; (live) '
    'get_record returns a record only on the edge now < expires_at; every serving entry of Node reaches its '
    'data-bearing effect only past get_record(...).has_value(); (boundary) every comparison of a clock reading '
    'with an expiry deadline in ChunkStore, KademliaTable, Node, SwarmCoordinator and ControlServer is of the form '
    'expired <=> now >= deadline (a flipped > / <= is reported); (erase) chunks_ entries are erased only on the '
    'expired edge, inside sweep_expired; (put) the inserted record takes data, nonce, encrypted from the call '
    'arguments and expires_at from compute_expiry(max(ttl>0 ? ttl : default, 1 s)) and replaces the old record '
    'whole (insert_or_assign); (list) Node::stored_chunks filters the snapshot by now >= expires_at.')
ASSUMPTIONS = ['byte-for-byte equality of what is read back is not computed; it follows from the provenance rule on put '
               '(no transformation between put and get_record)',
               'behaviour at every instant under clock advance is represented by the >= boundary rule, not simulated']

CS = 'ephemeralnet::ChunkStore::'
N = 'ephemeralnet::Node::'
REC = 'ephemeralnet::ChunkRecord::'


def run(ck):
    P = ck.prog(UNITS)
    # ---- (own) -----------------------------------------------------------------------------
    users = {}
    for f in P.fns:
        for i, m, w in field_accesses(f):
            if m == CS + 'chunks_':
                users.setdefault(f.q, 0)
                users[f.q] += 1
    ck.floor('C01.own', 'functions touching ChunkStore::chunks_', len(users), 5)
    for q in sorted(users):
        ck.ob('C01.own', 'C01.own/chunks_/' + q, q.startswith(CS), P.fn(q).loc() if len(P.fns_named(q)) == 1 else q,
              'ChunkStore::chunks_ is accessed only from ChunkStore members')
    # Node reads chunk bytes only from get_record results
    n_data = 0
    for f in P.fns:
        if not f.q.startswith(N) or f.unit != 'src/core/Node.cpp':
            continue
        for i in f.walk():
            nd = f.nodes[i]
            if nd['k'] == 'MemberExpr' and nd.get('m') == REC + 'data':
                n_data += 1
                base = f.kids(i)[0]
                ok = any(f.nodes[j].get('callee') == CS + 'get_record' for j in value_sources(f, base))
                ck.touch(f)
                ck.ob('C01.own', 'C01.own/record.data/%s#%d' % (f.name, n_data), ok, f.loc(i),
                      'ChunkRecord::data read in Node comes from a record returned by ChunkStore::get_record')
    ck.floor('C01.own', 'ChunkRecord::data reads in Node', n_data, 4)

    # ---- (live) get_record -----------------------------------------------------------------
    gr = P.fn(CS + 'get_record')
    ck.touch(gr)
    rets = [i for i in gr.walk() if gr.nodes[i]['k'] == 'ReturnStmt' and
            not any('nullopt' in gr.nodes[j].get('n', '') for j in gr.walk(i))]
    ck.floor('C01.live', 'record-bearing returns of get_record', len(rets), 1)
    fails, _ = gate_check(gr, [('return record', r) for r in rets], [('now<expires_at', live_fact(gr))])
    ck.ob('C01.live', 'C01.live/get_record', not fails, gr.loc(),
          'get_record returns a record only on the edge now < record.expires_at', fails[0][3] if fails else None)
    # ChunkStore::get goes through get_record
    g = P.fn(CS + 'get')
    ck.ob('C01.live', 'C01.live/get-via-get_record', len(g.calls(CS + 'get_record')) == 1 and
          not any(m == CS + 'chunks_' for _i, m, _w in field_accesses(g)), g.loc(), 'ChunkStore::get is get_record(...)->data')

    # serving entries of Node: effect only past get_record(...).has_value()
    serving = {
        N + 'dispatch_upload': [rx(r'Node::send_secure$'), rx(r'Node::note_upload_start$')],
        N + 'handle_request': [rx(r'Node::enqueue_upload_request$')],
        N + 'fetch_chunk': ['<return-value>'],
    }
    n_serv = 0
    for q, effpats in serving.items():
        f = P.fn(q)
        ck.touch(f)
        effs = []
        for pat in effpats:
            if pat == '<return-value>':
                for i in f.walk():
                    if f.nodes[i]['k'] == 'ReturnStmt' and not any('nullopt' in f.nodes[j].get('n', '') for j in f.walk(i)):
                        effs.append(('return data', i))
            else:
                effs += [(f.nodes[c]['callee'].split('::')[-1], c) for c in f.calls(pat)]
        n_serv += len(effs)

        def has_rec(fact, f=f):
            kind, node, val = fact
            if kind == 'has' and val is True:
                return any(f.nodes[j].get('callee') == CS + 'get_record' for j in value_sources(f, node))
            return False
        fails, _ = gate_check(f, effs, [('get_record.has_value', has_rec)])
        failed = {n for _e, _g, n, _p, _c in fails}
        wit = {n: p for _e, _g, n, p, _c in fails}
        for k_, (lab, nid) in enumerate(effs):
            ck.ob('C01.live', 'C01.live/%s/%s#%d' % (f.name, lab, k_), nid not in failed, f.loc(nid),
                  '%s in %s is reached only when chunk_store_.get_record() returned a live record' % (lab, f.name), wit.get(nid))
    ck.floor('C01.live', 'serving effects in Node', n_serv, 4)
    # export_chunk_record returns get_record directly
    ex = P.fn(N + 'export_chunk_record')
    ok = all(ex.nodes[ex.strip(ex.kids(r)[0])].get('callee') == CS + 'get_record'
             for r in ex.walk() if ex.nodes[r]['k'] == 'ReturnStmt')
    ck.ob('C01.live', 'C01.live/export_chunk_record', ok, ex.loc(), 'export_chunk_record returns get_record(chunk_id) unchanged')

    # ---- (boundary) R-CMP ------------------------------------------------------------------
    ncmp = 0
    for f in P.fns:
        for i, op in expiry_comparisons(f, names=('expires_at', 'manifest_expires')):
            ncmp += 1
            ck.touch(f)
            ck.ob('C01.boundary', 'C01.boundary/%s/%s' % (f.name, f.text(i)[:60]), op in ('>=', '<'), f.loc(i),
                  'expiry boundary is `now >= deadline` (expired) / `now < deadline` (live); found now %s deadline' % op)
    ck.floor('C01.boundary', 'clock-vs-deadline comparisons', ncmp, 14)

    # ---- (erase) ---------------------------------------------------------------------------
    n_er = 0
    for f in P.fns:
        if not f.q.startswith(CS):
            continue
        for c in f.calls(rx(r'unordered_map<.*ChunkRecord.*::erase$')):
            n_er += 1
            fails, _ = gate_check(f, [('erase', c)], [('expired', expired_fact(f))])
            ck.ob('C01.erase', 'C01.erase/%s#%d' % (f.name, n_er), not fails and f.q == CS + 'sweep_expired', f.loc(c),
                  'a chunk record is erased only on the edge now >= expires_at, and only by sweep_expired',
                  fails[0][3] if fails else None)
    ck.floor('C01.erase', 'chunks_.erase sites', n_er, 1)

    # ---- (put) provenance ---------------------------------------------------------------------
    put = P.fn(CS + 'put')
    ck.touch(put)
    ins = put.calls(rx(r'unordered_map<.*ChunkRecord.*::insert_or_assign$'))
    ck.ob('C01.put', 'C01.put/insert_or_assign', len(ins) == 1 and not put.calls(rx(r'unordered_map<.*::(emplace|try_emplace|insert)$')),
          put.loc(), 'put replaces the whole record with insert_or_assign (bytes and deadline together)')
    # every normal return of put has performed the replacement (no early exit keeps an old record or deadline)
    if len(ins) == 1:
        from sa.paths import Cfg
        cfgp = Cfg.of(put)
        wit = cfgp.must_pass_from((cfgp.entry, -1), lambda e: e == ins[0] or put.is_in(ins[0], e) and put.nodes[e]['k'] in ('ExprWithCleanups',))
        ck.ob('C01.put', 'C01.put/always-replaces', wit is None, put.loc(),
              'every path through put reaches the insert_or_assign: an overwrite always replaces bytes and deadline', wit)
    pidx = {p['n']: p['d'] for p in put.params}
    want = {'data': 'data', 'nonce': 'nonce', 'encrypted': 'encrypted'}
    assigns = {}
    for i in put.walk():
        nd = put.nodes[i]
        if (nd['k'] == 'BinaryOperator' and nd.get('op') == '=') or (nd['k'] == 'CXXOperatorCallExpr' and nd.get('op') == '='):
            ks = put.kids(i)
            lhs, rhs = (ks[0], ks[1]) if nd['k'] == 'BinaryOperator' else (ks[1], ks[2])
            m = put.nodes[put.strip(lhs)].get('m', '')
            if m.startswith(REC):
                assigns.setdefault(m[len(REC):], []).append(rhs)
    for fld, par in want.items():
        rs = assigns.get(fld, [])
        ok = len(rs) == 1 and any(put.nodes[j]['k'] == 'DeclRefExpr' and put.nodes[j].get('d') == pidx.get(par)
                                  for j in origin_chain(put, rs[0]))
        ck.ob('C01.put', 'C01.put/record.%s' % fld, ok, put.loc(), 'record.%s is assigned once, from the argument %s' % (fld, par))
    rs = assigns.get('expires_at', [])
    ok = False
    if len(rs) == 1:
        srcs = value_sources(put, rs[0])
        has_ce = any(put.nodes[j].get('callee') == CS + 'compute_expiry' for j in srcs)
        has_max = any(put.nodes[j].get('callee') == 'std::max' for j in srcs)
        has_ttl = any(put.nodes[j]['k'] == 'DeclRefExpr' and put.nodes[j].get('d') == pidx.get('ttl') for j in srcs)
        has_def = any(put.nodes[j].get('m') == 'ephemeralnet::Config::default_chunk_ttl' for j in srcs)
        has_min = any(put.nodes[j].get('q', '').endswith('kMinimumTtl') for j in srcs)
        ok = has_ce and has_max and has_ttl and has_def and has_min
    ck.ob('C01.put', 'C01.put/record.expires_at', ok, put.loc(),
          'record.expires_at = compute_expiry(max(ttl > 0 ? ttl : default_chunk_ttl, kMinimumTtl))')
    ce = P.fn(CS + 'compute_expiry')
    r = [i for i in ce.walk() if ce.nodes[i]['k'] == 'ReturnStmt']
    ok = len(r) == 1 and any(ce.nodes[j].get('op') == '+' for j in ce.walk(r[0])) and \
        any(ce.nodes[j].get('callee') == 'std::chrono::steady_clock::now' for j in ce.walk(r[0])) and \
        any(ce.nodes[j]['k'] == 'DeclRefExpr' and ce.nodes[j].get('d') == ce.params[0]['d'] for j in ce.walk(r[0]))
    ck.ob('C01.put', 'C01.put/compute_expiry', ok, ce.loc(), 'compute_expiry(ttl) = steady_clock::now() + ttl')
    ck.ob('C01.put', 'C01.put/kMinimumTtl', [int(n['v']) for n in P.global_('ephemeralnet::(anonymous namespace)::kMinimumTtl')['nodes']
                                            if n['k'] == 'IntegerLiteral'] == [1], put.loc(), 'kMinimumTtl == 1 s')

    # ---- (list) ------------------------------------------------------------------------------
    sc = P.fn(N + 'stored_chunks')
    ck.touch(sc)
    lam_ok = False
    for lam in P.lambdas_of(sc.q):
        for i, op in expiry_comparisons(lam):
            r = [x for x in lam.walk() if lam.nodes[x]['k'] == 'ReturnStmt']
            if op == '>=' and r and all(lam.is_in(i, x) for x in r):
                lam_ok = True
    er = sc.calls(rx(r'^std::erase_if$|::erase$|^std::remove_if$'))
    snap = sc.calls(CS + 'snapshot')
    rets = [i for i in sc.walk() if sc.nodes[i]['k'] == 'ReturnStmt']
    direct = any(sc.nodes[sc.strip(sc.kids(r)[0])].get('callee') == CS + 'snapshot' for r in rets)
    ck.ob('C01.list', 'C01.list/stored_chunks-filter', bool(snap) and bool(er) and lam_ok and not direct, sc.loc(),
          'Node::stored_chunks (source of LIST/STATUS) removes rows with now >= expires_at from the snapshot before returning it')

    # the shard record of an id is replaced as a whole by every publish: the latest store's key shares are the ones a fetch combines
    PK = ck.prog(['src/dht/KademliaTable.cpp'])
    ps = PK.fn('ephemeralnet::KademliaTable::publish_shards')
    ck.touch(ps)
    from sa.paths import Cfg as _Cfg
    from sa.flow import value_sources as _vs
    installs = []
    for i in ps.walk():
        nd = ps.nodes[i]
        if nd['k'] == 'CXXOperatorCallExpr' and nd.get('op') == '=' and len(ps.kids(i)) == 3:
            l = ps.strip(ps.kids(i)[1])
            ln = ps.nodes[l]
            if ln['k'] == 'CXXOperatorCallExpr' and ln.get('op') == '[]' and ps.nodes[ps.strip(ps.kids(l)[1])].get('m', '').endswith('KademliaTable::shard_table_'):
                installs.append(i)
        if nd['k'] == 'CXXMemberCallExpr' and (nd.get('callee') or '').endswith('::insert_or_assign') and ps.nodes[ps.strip(ps.receiver(i))].get('m', '').endswith('KademliaTable::shard_table_'):
            installs.append(i)
    cfg_ps = _Cfg.of(ps)
    wit = cfg_ps.must_pass_from((cfg_ps.entry, -1), lambda e, s_=set(installs): e in s_ or any(ps.is_in(x, e) for x in s_) and ps.nodes[e]['k'] == 'ExprWithCleanups') \
        if installs else ['no assignment to shard_table_[id]']
    shards_d = ps.params[1]['d']
    from_param = False
    for l_, r_, s_ in assignments(ps):
        ln = ps.nodes[ps.strip(l_)]
        if ln['k'] == 'MemberExpr' and ln.get('n') == 'shards':
            from_param = any(ps.nodes[j]['k'] == 'DeclRefExpr' and ps.nodes[j].get('d') == shards_d for j in ps.walk(r_))
    ck.ob('C01.put', 'C01.put/shards-always-replaced', wit is None and from_param, ps.loc(),
          'every path through publish_shards stores a record built from the shards it was given (an overwrite of a live id replaces the key shares too)', wit)

    # chunks are keyed by chunk_id_to_string(id): the rendering must be injective — every byte is written as exactly two hex digits
    # (std::setw is not sticky: it has to be in the same insertion chain as each number)
    PT = ck.prog(['src/core/Types.cpp'])
    nnum = 0
    badw = []
    for f in PT.fns:
        if not f.file.endswith('Types.cpp'):
            continue
        pm = f.parent_map()
        for i in f.walk():
            nd = f.nodes[i]
            if nd['k'] != 'CXXOperatorCallExpr' or nd.get('op') != '<<':
                continue
            par = pm.get(i)
            while par is not None and f.nodes[par]['k'] in ('ImplicitCastExpr', 'ParenExpr', 'MaterializeTemporaryExpr'):
                par = pm.get(par)
            if par is not None and f.nodes[par]['k'] == 'CXXOperatorCallExpr' and f.nodes[par].get('op') == '<<':
                continue          # not the top of the chain
            ops = []
            j = i
            while f.nodes[j]['k'] == 'CXXOperatorCallExpr' and f.nodes[j].get('op') == '<<' and len(f.kids(j)) == 3:
                ops.append(f.kids(j)[2])
                j = f.strip(f.kids(j)[1], casts=False)
            nums = [o for o in ops if (f.nodes[f.strip(o, casts=False)].get('t') or '') in ('int', 'unsigned int', 'unsigned char', 'unsigned short')]
            has_w2 = any((f.nodes[x].get('callee') or '') == 'std::setw' and any(f.nodes[y].get('cv') == '2' for y in f.walk(x)) for o in ops for x in f.walk(o))
            for o in nums:
                nnum += 1
                if not has_w2:
                    badw.append((f, o))
    ck.floor('C01.key', 'numeric insertions in the id formatters', nnum, 1)
    ck.ob('C01.key', 'C01.key/fixed-width-hex', not badw, badw[0][0].loc(badw[0][1]) if badw else '',
          'every byte of an id is inserted with std::setw(2) in the same chain: distinct ids render to distinct keys')

    # the listing is taken from chunks_ itself on every call: snapshot() keeps no copy that an overwrite could leave stale
    sn = P.fn(CS + 'snapshot') if 'CS' in dir() else None
    if sn is None:
        sn = [f for f in P.fns if f.q == 'ephemeralnet::ChunkStore::snapshot'][0]
    ck.touch(sn)
    from sa.flow import field_accesses as _fa
    other = sorted({m.split('::')[-1] for _i, m, _w in _fa(sn) if m.rsplit('::', 1)[0] == 'ephemeralnet::ChunkStore' and m.split('::')[-1] not in ('chunks_', 'chunks_mutex_')})
    ck.ob('C01.list', 'C01.list/snapshot-uncached', not other, sn.loc(),
          'ChunkStore::snapshot reads chunks_ (under chunks_mutex_) and no other member: there is no cached listing (other members touched: %s)' % (other or 'none'))

    # ---- a live local record is always handed out: the local branch of fetch_chunk refuses only when no key material is known ---------
    from props.common import refusal_reasons
    from sa.canon import norm as _norm, V as _V, C as _C
    fc = P.fn(N + 'fetch_chunk')
    ck.touch(fc)
    local_if = [i for i in fc.walk() if fc.nodes[i]['k'] == 'IfStmt' and
                any((fc.nodes[j].get('callee') or '').endswith('::has_value') and any(fc.nodes[x]['k'] == 'DeclRefExpr' and fc.nodes[x].get('n') == 'record' for x in fc.walk(j))
                    for j in fc.walk(fc.nodes[i]['cond'])) and fc.nodes[fc.strip(fc.nodes[i]['cond'])].get('op') != '!']
    if len(local_if) != 1:
        raise AnalysisBroken('fetch_chunk: the `if (record.has_value())` branch serving the local record was not found')
    branch = fc.nodes[local_if[0]]['then']
    rr = [(r_, c_) for r_, c_ in refusal_reasons(fc, lambda r: fc.is_in(r, branch) and 'nullopt' in fc.text(r))]
    extra = [(r_, c_) for r_, conds in rr for c_ in (conds or [('unconditional',)]) if c_ != _norm(('==', _V('shard_threshold'), _C(0)))]
    ck.floor('C01.get', 'refusing exits in the local branch of fetch_chunk', len(rr), 1)
    ck.ob('C01.get', 'C01.get/local-refusals-closed', not extra, fc.loc(extra[0][0]) if extra else fc.loc(branch),
          'once get_record returned a (live) record, fetch_chunk returns nothing only if no usable key shares are known (shard_threshold == 0)'
          + ('' if not extra else ' — other cause: %r' % (extra[0][1],)))

"""C02 — every lifetime the node creates lies inside the sanitised TTL window (numeric abstract interpretation + ownership + gate)."""
from sa.absint2 import Analyzer, summarize
from sa.absint import State, Frame, Opt, Ptr
from sa.lin import Lin, as_lin
from sa.paths import gate_check
from sa.match import le_gate
from sa.flow import all_defs
from sa.build import AnalysisBroken
from props.common import declref
from sa.prog import short

UNITS = ['src/core/Node.cpp', 'src/core/ChunkStore.cpp', 'src/daemon/ControlServer.cpp', 'src/libephemeralnet.cpp', 'src/main.cpp']
LEVEL = 'other'          # the N1 clauses are discharged for all inputs, but two ownership obligations are known findings: not a complete proof
EXPLANATION = (
    'R-POST (N1: abstract interpretation over linear forms; the sanitizers only compare and assign, so the domain is exact): '
    'sanitize_config is analysed with every Config field unconstrained (durations range over all 64-bit counts) and its helpers '
    'inlined; in EVERY return state the final field values must entail 1 <= min_manifest_ttl <= max_manifest_ttl <= 86400, '
    'min <= default_chunk_ttl <= max, 5 <= key_rotation_interval <= 3600, announce_min_interval >= 1, announce_burst_window >= '
    'announce_min_interval, announce_burst_limit >= 1 and the three PoW difficulties <= 24 (constants evaluated from the '
    'std::chrono initialisers, hours converted). clamp_chunk_ttl(t, min, max) with 1 <= min <= max returns a value in [min, max] for '
    'every t. Node::store_chunk is analysed with config_ constrained only by that postcondition and an unconstrained requested '
    'TTL: at every call of ChunkStore::put, KademliaTable::publish_shards, Node::announce_chunk and at the system_clock::now() + ttl '
    'that forms manifest.expires_at, the TTL operand must entail min <= ttl <= max. ChunkStore::put: the duration handed to '
    'compute_expiry is >= 1 s and equals the requested TTL whenever that is >= 1 s. R-OWN: Node::config_ is initialised from '
    'sanitize_config(config) and no Node method writes its TTL / rotation / PoW fields; product call sites of the mutable '
    'Node::config() accessor only read. R-GATE: in the control STORE handler node_.store_chunk is reached only past ttl >= min_ttl '
    'and ttl <= max_ttl with min_ttl / max_ttl read from node_.config().')
ASSUMPTIONS = ['wall-clock drift between system_clock and steady_clock deadlines is not modelled',
               'the [min, max] window is the one held in Node::config_ at the time of the store']

NA = 'ephemeralnet::(anonymous namespace)::'
WINDOW_FIELDS = ('min_manifest_ttl', 'max_manifest_ttl', 'default_chunk_ttl', 'key_rotation_interval', 'announce_min_interval',
                 'announce_burst_window', 'announce_burst_limit', 'announce_pow_difficulty', 'handshake_pow_difficulty', 'store_pow_difficulty')


def field_val(st, base_key, name):
    return st.env.get(base_key + ('.' + name,))


def run(ck):
    P = ck.prog(['src/core/Node.cpp'])
    # ---- A: sanitize_config postcondition ------------------------------------------------------------------------
    sc = P.fn(NA + 'sanitize_config')
    ck.touch(sc)
    an = Analyzer(P, inline=lambda q: q.startswith(NA + 'sanitize_'))
    an.max_states = 6          # the fields are sanitised independently: merge paths early (bounds and pairwise orderings are kept exactly)
    rets = an.run(sc)
    ck.floor('C02.post', 'return states of sanitize_config (paths through the sanitizers)', len(rets), 1)
    base = ('v', 1, sc.params[0]['d'])
    # frame ids are global counters: find the key prefix of the parameter from the first state
    for k in rets[0][0].env:
        if k[0] == 'v' and len(k) == 4 and k[2] == sc.params[0]['d']:
            base = k[:3]
    POST = [
        ('min>=1', lambda g: [Lin.const(1) - g('min_manifest_ttl')], '1 s <= min_manifest_ttl'),
        ('min<=max', lambda g: [g('min_manifest_ttl') - g('max_manifest_ttl')], 'min_manifest_ttl <= max_manifest_ttl'),
        ('max<=24h', lambda g: [g('max_manifest_ttl') - 86400], 'max_manifest_ttl <= 24 h'),
        ('default-in-window', lambda g: [g('min_manifest_ttl') - g('default_chunk_ttl'), g('default_chunk_ttl') - g('max_manifest_ttl')], 'min <= default_chunk_ttl <= max'),
        ('rotation', lambda g: [Lin.const(5) - g('key_rotation_interval'), g('key_rotation_interval') - 3600], '5 s <= key_rotation_interval <= 1 h'),
        ('announce-interval', lambda g: [Lin.const(1) - g('announce_min_interval')], 'announce_min_interval >= 1 s'),
        ('announce-window', lambda g: [g('announce_min_interval') - g('announce_burst_window')], 'announce_burst_window >= announce_min_interval'),
        ('announce-burst', lambda g: [Lin.const(1) - g('announce_burst_limit')], 'announce_burst_limit >= 1'),
        ('pow-announce', lambda g: [g('announce_pow_difficulty') - 24], 'announce_pow_difficulty <= 24'),
        ('pow-handshake', lambda g: [g('handshake_pow_difficulty') - 24], 'handshake_pow_difficulty <= 24'),
        ('pow-store', lambda g: [g('store_pow_difficulty') - 24], 'store_pow_difficulty <= 24'),
    ]
    for name, f, text in POST:
        bad = None
        for st, _v in rets:
            def g(field):
                v = field_val(st, base, field)
                if not isinstance(v, Lin):
                    raise KeyError(field)
                return v
            try:
                es = f(g)
                ok = all(st.cons.entails_le(e) for e in es)
                why = 'need %s' % ['%r <= 0' % e for e in es]
            except KeyError as e:
                ok, why = False, 'field %s is never constrained on this path' % e
            if not ok:
                bad = (st, why)
                break
        wit = None
        if bad:
            st, why = bad
            wit = ['return at %s' % sc.loc(getattr(st, 'ret_site', None)), why,
                   'final fields: ' + ', '.join('%s=%r' % (k[-1][1:], v) for k, v in st.env.items() if k[:3] == base and len(k) == 4),
                   'path constraints: ' + '; '.join('%r <= 0' % c for c in st.cons.cs if not any(abs(x) > 10 ** 15 for x in [c.c]))[:900]]
        ck.ob('C02.post', 'C02.post/sanitize_config/' + name, bad is None, sc.loc(), 'for every input configuration, after sanitize_config: %s (%d return states)' % (text, len(rets)), wit)

    # ---- B: clamp_chunk_ttl -------------------------------------------------------------------------------------------
    cl = P.fn(NA + 'clamp_chunk_ttl')
    ck.touch(cl)

    def pre_clamp(an_, st, fr, pv):
        t, mn, mx = (pv[p['n']] for p in cl.params)
        st.cons.add_le(Lin.const(1) - mn)
        st.cons.add_le(mn - mx)
    an2 = Analyzer(P)
    rets2 = an2.run(cl, pre=pre_clamp)
    mn, mx = an2.param_values[1], an2.param_values[2]
    bad = [st for st, v in rets2 if not (isinstance(v, Lin) and st.cons.entails_le(mn - v) and st.cons.entails_le(v - mx))]
    ck.ob('C02.post', 'C02.post/clamp_chunk_ttl', not bad and rets2, cl.loc(getattr(bad[0], 'ret_site', None)) if bad else cl.loc(),
          'clamp_chunk_ttl(t, min, max) with 1 <= min <= max returns a value in [min, max] for every t (%d return states)' % len(rets2))

    # ---- C: Node::store_chunk under the sanitised window ------------------------------------------------------------------
    store = P.fn('ephemeralnet::Node::store_chunk')
    ck.touch(store)
    sym = {}

    def pre_store(an_, st, fr, pv):
        cfgk = ('this', fr.id, '.config_')
        for fld, t in (('min_manifest_ttl', 'long'), ('max_manifest_ttl', 'long'), ('default_chunk_ttl', 'long')):
            sym[fld] = an_.fresh(st, fld, t)
            st.env[cfgk + ('.' + fld,)] = sym[fld]
        st.cons.add_le(Lin.const(1) - sym['min_manifest_ttl'])
        st.cons.add_le(sym['min_manifest_ttl'] - sym['max_manifest_ttl'])
        st.cons.add_le(sym['max_manifest_ttl'] - 86400)
        st.cons.add_le(sym['min_manifest_ttl'] - sym['default_chunk_ttl'])
        st.cons.add_le(sym['default_chunk_ttl'] - sym['max_manifest_ttl'])
    an3 = Analyzer(P, inline=lambda q: q == NA + 'clamp_chunk_ttl')
    an3.max_states = 8
    SINKS = {'ephemeralnet::ChunkStore::put': ('chunk record', 2), 'ephemeralnet::KademliaTable::publish_shards': ('shard records', 4),
             'ephemeralnet::Node::announce_chunk': ('self-announcement', 1)}
    an3.watch = lambda c: c in SINKS or (c.startswith('std::chrono::operator+') or 'time_point' in c and c.endswith('operator+'))
    an3.run(store, pre=pre_store)
    seen = {}
    for c in an3.calls:
        if c['fn'] is not store:
            continue
        if c['callee'] in SINKS:
            what, idx = SINKS[c['callee']]
            arg = c['args'][idx] if idx < len(c['args']) else None
        else:
            what = 'manifest expiry'
            tps = store.nodes[c['node']].get('t') or ''
            if 'time_point' not in tps:
                continue
            arg = [a for a in c['args'] if isinstance(a, Lin)]
            arg = arg[0] if arg else None
        st = c['state']
        ok = isinstance(arg, Lin) and st.cons.entails_le(sym['min_manifest_ttl'] - arg) and st.cons.entails_le(arg - sym['max_manifest_ttl'])
        cur = seen.setdefault((what, c['node']), [True, 0, None])
        cur[1] += 1
        if not ok and cur[0]:
            cur[0] = False
            cur[2] = ['TTL operand %r' % (arg,), 'window [%r, %r]' % (sym['min_manifest_ttl'], sym['max_manifest_ttl']),
                      'path constraints: ' + '; '.join('%r <= 0' % x for x in st.cons.cs if x.syms() & (arg.syms() if isinstance(arg, Lin) else set()))[:600]]
    kinds = {}
    for (what, node), (ok, cnt, wit) in sorted(seen.items(), key=lambda kv: kv[0][1]):
        idx = kinds.setdefault(what, 0) + 1
        kinds[what] = idx
        ck.ob('C02.flow', 'C02.flow/store_chunk/%s#%d' % (what.replace(' ', '-'), idx), ok, store.loc(node),
              'the lifetime of the %s created by store_chunk lies in [min TTL, max TTL] for every requested TTL (%d abstract states at this site)' % (what, cnt), wit)
    for what in ('chunk record', 'shard records', 'self-announcement', 'manifest expiry'):
        ck.ob('C02.flow', 'C02.flow/store_chunk/%s/present' % what.replace(' ', '-'), what in kinds, store.loc(), 'store_chunk records a lifetime for the %s' % what)
    # the self-announcement publishes the lifetime it was given: announce_chunk hands its ttl parameter to add_contact unchanged
    ac_ = P.fn('ephemeralnet::Node::announce_chunk')
    ck.touch(ac_)
    adds = [i for i in ac_.walk() if (ac_.nodes[i].get('callee') or '') == 'ephemeralnet::KademliaTable::add_contact']
    ok_ac = len(adds) == 1 and declref(ac_, ac_.call_args(adds[0])[2], ac_.params[1]['d']) is not None
    ck.ob('C02.flow', 'C02.flow/announce_chunk/ttl-verbatim', ok_ac, ac_.loc(adds[0]) if adds else ac_.loc(),
          'announce_chunk passes its ttl parameter itself to dht_.add_contact (the value store_chunk proved to lie in the window is the one published)')
    # the manifest's expiry is written once, from the window-checked `now + ttl` above, and nothing else overwrites it
    exp_sites = [node for (what, node) in seen if what == 'manifest expiry']
    exp_writes = [i for i in store.walk() if store.nodes[i]['k'] in ('CXXOperatorCallExpr', 'BinaryOperator') and store.nodes[i].get('op') == '=' and
                  (store.nodes[store.strip(store.kids(i)[1 if store.nodes[i]['k'] == 'CXXOperatorCallExpr' else 0])].get('m') or '').endswith('Manifest::expires_at')]
    from sa.flow import value_sources as _vs
    ok_exp = len(exp_writes) == 1 and any(x in exp_sites or store.strip(x) in exp_sites for x in _vs(store, store.kids(exp_writes[0])[-1]))
    ck.ob('C02.flow', 'C02.flow/store_chunk/manifest-expiry-single-write', ok_exp, store.loc(exp_writes[1] if len(exp_writes) > 1 else (exp_writes[0] if exp_writes else None)),
          'manifest.expires_at is assigned exactly once in store_chunk, from the window-checked system_clock::now() + ttl (found %d assignment(s))' % len(exp_writes))
    ck.extra['n1'] = {'sanitize_config_return_states': len(rets), 'store_chunk_sink_states': len(an3.calls), 'loops': an3.loop_notes[:6]}

    # ---- B2: ChunkStore::put ------------------------------------------------------------------------------------------------
    PC = ck.prog(['src/core/ChunkStore.cpp'])
    put = PC.fn('ephemeralnet::ChunkStore::put')
    ck.touch(put)
    an4 = Analyzer(PC, inline=lambda q: False)
    an4.watch = lambda c: c.endswith('::compute_expiry')
    an4.run(put)
    ttl = an4.param_values[2]
    ok_all, n_ce = True, 0
    wit = None
    for c in an4.calls:
        n_ce += 1
        arg = c['args'][0] if c['args'] else None
        st = c['state']
        ok = isinstance(arg, Lin) and st.cons.entails_le(Lin.const(1) - arg)
        if ok:
            # requested ttl >= 1  =>  arg == ttl
            s2 = st.copy()
            s2.cons.add_le(Lin.const(1) - ttl)
            ok = s2.cons.is_unsat() or s2.cons.entails_eq(arg - ttl)
        if not ok and ok_all:
            ok_all = False
            wit = ['compute_expiry(%r) with requested ttl %r' % (arg, ttl)]
    ck.floor('C02.post', 'compute_expiry calls in ChunkStore::put', n_ce, 1)
    ck.ob('C02.post', 'C02.post/ChunkStore::put', ok_all, put.loc(), 'ChunkStore::put records a lifetime >= 1 s that equals the requested TTL whenever that is >= 1 s (%d states)' % n_ce, wit)

    # ---- D: ownership of config_ ----------------------------------------------------------------------------------------------
    ctor = [f for f in P.fns if f.kind == 'ctor' and f.cls == 'ephemeralnet::Node']
    init_ok = False
    for f in ctor:
        for r in f.d.get('inits', []):
            for i in f.walk(r):
                if (f.nodes[i].get('callee') or '') == NA + 'sanitize_config':
                    init_ok = True
    ck.ob('C02.own', 'C02.own/config_-init', init_ok, ctor[0].loc() if ctor else '', 'Node::config_ is initialised from sanitize_config(config)')
    # ... and nothing else in the constructor reads the raw (unsanitised) parameter: every member built from configuration is
    # built from config_ (the key manager's rotation interval, the store, the DHT, NAT, ...)
    raw_uses = []
    n_cfg_params = 0
    for f in ctor:
        for p_ in f.params:
            if 'Config' not in (p_.get('t') or ''):
                continue
            n_cfg_params += 1
            roots = list(f.d.get('inits', [])) + ([f.d['body']] if isinstance(f.d.get('body'), int) else [])
            for i in f.walk():
                nd = f.nodes[i]
                if nd['k'] == 'DeclRefExpr' and nd.get('d') == p_['d']:
                    inside = any((f.nodes[a].get('callee') or '') == NA + 'sanitize_config' for a in f.ancestors(i))
                    if not inside:
                        raw_uses.append((f, i))
    ck.floor('C02.own', 'Config parameters of Node constructors', n_cfg_params, 1)
    ck.ob('C02.own', 'C02.own/raw-config-only-sanitised', not raw_uses, raw_uses[0][0].loc(raw_uses[0][1]) if raw_uses else (ctor[0].loc() if ctor else ''),
          'the constructor\'s raw Config parameter is read only as the argument of sanitize_config: every component is configured from the sanitised config_')
    writers = []
    allP = ck.prog(UNITS)
    nacc = 0
    for f in allP.fns:
        for i in f.walk():
            nd = f.nodes[i]
            if nd['k'] == 'MemberExpr' and nd.get('n') in WINDOW_FIELDS and (nd.get('m') or '').startswith('ephemeralnet::Config::'):
                base_ = f.kids(i)[0] if f.kids(i) else None
                if base_ is None:
                    continue
                b = f.strip(base_, casts=False)
                bn = f.nodes[b]
                via = None
                if bn['k'] == 'MemberExpr' and bn.get('n') == 'config_' and (bn.get('m') or '') == 'ephemeralnet::Node::config_':
                    via = 'config_'
                elif bn['k'] == 'CXXMemberCallExpr' and (bn.get('callee') or '') in ('ephemeralnet::Node::config', 'ephemeralnet::EphemeralNet::config'):
                    via = 'config()'
                elif bn['k'] == 'DeclRefExpr' and bn.get('dk') == 'Var' and (bn.get('t') or '').replace('const ', '') == 'ephemeralnet::Config':
                    # alias `auto& cfg = node.config()`
                    from sa.paths import unique_init
                    ini = unique_init(f, bn['d'], b)
                    if ini is not None and (f.nodes[f.strip(ini)].get('callee') or '') in ('ephemeralnet::Node::config', 'ephemeralnet::EphemeralNet::config') and not bn.get('t', '').startswith('const '):
                        via = 'alias of config()'
                if via is None:
                    continue
                nacc += 1
                if is_written(f, i):
                    writers.append((f, i, via, nd['n']))
    ck.floor('C02.own', 'accesses to window fields of Node::config_ / Node::config()', nacc, 10)
    ck.ob('C02.own', 'C02.own/no-writer', not writers, writers[0][0].loc(writers[0][1]) if writers else '',
          'no product code writes the TTL / rotation / PoW fields of the sanitised configuration (%d accesses examined)%s'
          % (nacc, (' — %s.%s written in %s' % (writers[0][2], writers[0][3], short(writers[0][0].q))) if writers else ''))
    # accessors that hand out a mutable reference to the sanitised configuration
    for f in allP.fns:
        rt = (f.d.get('ret') or '').replace(' ', '')
        if rt == 'ephemeralnet::Config&' and f.q.split('::')[-1] == 'config':
            ck.ob('C02.own', 'C02.own/mutable-accessor/' + short(f.q), False, f.loc(),
                  '%s returns a mutable reference to the sanitised configuration: a caller can move the TTL limits outside the window '
                  'after construction' % short(f.q))

    # ---- E: control-plane STORE gate ----------------------------------------------------------------------------------------------
    PS = ck.prog(['src/daemon/ControlServer.cpp'])
    sites = []
    for f in PS.fns:
        for i in f.walk():
            if (f.nodes[i].get('callee') or '') == 'ephemeralnet::Node::store_chunk':
                sites.append((f, i))
    ck.floor('C02.gate', 'node_.store_chunk call sites in the control server', len(sites), 1)
    for f, i in sites:
        ck.touch(f)
        args = f.call_args(i)
        tn = f.nodes[f.strip(args[2])] if len(args) > 2 else {}
        td = tn.get('d') if tn.get('k') == 'DeclRefExpr' else None

        def is_ttl(n_):
            x = f.nodes[f.strip(n_)]
            return x['k'] == 'DeclRefExpr' and x.get('d') == td and td is not None

        def from_cfg(field):
            def pred(n_):
                x = f.nodes[f.strip(n_)]
                if x['k'] != 'DeclRefExpr' or x.get('dk') != 'Var':
                    return False
                defs = [d_ for d_ in all_defs(f, x['d']) if not (d_[0] == 'init' and is_empty_init(f, d_[1]))]
                if not defs:
                    return False
                for kind, rhs, _site in defs:
                    if rhs is None:
                        return False
                    r = f.nodes[f.strip(rhs)]
                    if not (r['k'] == 'MemberExpr' and r.get('n') == field and (r.get('m') or '').startswith('ephemeralnet::Config::')):
                        return False
                return True
            return pred
        # the value checked and stored is the value the client sent: no conversion on the way narrows it below 64 bits
        from sa.prog import int_type as _it
        narrow = []
        if td is not None:
            for kind_, rhs_, site_ in all_defs(f, td):
                if rhs_ is None:
                    continue
                for j in f.walk(rhs_):
                    jn = f.nodes[j]
                    if jn['k'] in ('CXXStaticCastExpr', 'CStyleCastExpr', 'CXXFunctionalCastExpr', 'ImplicitCastExpr') and jn.get('ck') in ('IntegralCast', None):
                        it_ = _it((jn.get('t') or '').replace('const ', ''))
                        src_ = f.kids(j)[0] if f.kids(j) else None
                        st_ = _it((f.nodes[src_].get('t') or '').replace('const ', '')) if src_ is not None else None
                        if it_ is not None and st_ is not None and it_[0] < st_[0] and it_[0] < 64 and 'cv' not in jn:
                            narrow.append(j)
        ck.ob('C02.gate', 'C02.gate/STORE/ttl-not-narrowed', not narrow, f.loc(narrow[0]) if narrow else f.loc(i),
              'the TTL the STORE handler range-checks is the header value itself: no cast narrows it on the way (a 2^32 + 60 s request must be refused, not read as 60 s)')
        # a TTL header that is present always becomes the checked value: no header value (0 included) falls back to the default
        from sa.paths import must_precede as _mp
        from sa.match import holds as _holds
        finds = [j for j in f.walk() if f.nodes[j]['k'] == 'VarDecl' and f.nodes[j].get('init') is not None and f.nodes[j]['init'] >= 0 and
                 any((f.nodes[k_].get('callee') or '').endswith('::find') and any(f.nodes[x]['k'] == 'StringLiteral' and f.nodes[x].get('s') == 'TTL' for x in f.walk(k_))
                     for k_ in f.walk(f.nodes[j]['init']))]
        hdr_ok = False
        wit_h = None
        if len(finds) == 1 and td is not None:
            it_d = f.nodes[finds[0]]['d']
            parsed = [j for j in f.walk() if f.nodes[j]['k'] == 'VarDecl' and f.nodes[j].get('init') is not None and f.nodes[j]['init'] >= 0 and
                      any((f.nodes[k_].get('callee') or '').endswith('parse_uint64') and
                          any(f.nodes[x]['k'] == 'DeclRefExpr' and f.nodes[x].get('d') == it_d for x in f.walk(k_)) for k_ in f.walk(f.nodes[j]['init']))]
            if len(parsed) == 1:
                p_d = f.nodes[parsed[0]]['d']
                takes = {site_ for kind_, rhs_, site_ in all_defs(f, td) if kind_ == 'assign' and rhs_ is not None and
                         any(f.nodes[x]['k'] == 'DeclRefExpr' and f.nodes[x].get('d') == p_d for x in f.walk(rhs_))}

                def absent(fact):
                    h = _holds(f, fact)
                    if h is None:
                        return False
                    a_, op_, b_ = h
                    return op_ == '==' and (declref(f, a_) == it_d or declref(f, b_) == it_d) and \
                        any((f.nodes[x].get('callee') or '').endswith('::end') for y in (a_, b_) for x in f.walk(y))
                fl = _mp(f, [i], lambda e: e in takes or any(f.is_in(t_, e) for t_ in takes) and f.nodes[e]['k'] == 'ExprWithCleanups', bypass=absent) if takes else [(i, ['no assignment of the parsed header value to the checked TTL'])]
                hdr_ok = not fl
                wit_h = fl[0][1] if fl else None
        ck.ob('C02.gate', 'C02.gate/STORE/header-value-is-checked', hdr_ok, f.loc(i),
              'whenever the request carries a TTL header, the value range-checked (and stored) is that header\'s parsed value: no header value is replaced by the default', wit_h)
        gates = [('ttl >= min_manifest_ttl', le_gate(f, from_cfg('min_manifest_ttl'), is_ttl)),
                 ('ttl <= max_manifest_ttl', le_gate(f, is_ttl, from_cfg('max_manifest_ttl')))]
        fails, checked = gate_check(f, [('store_chunk', i)], gates)
        failed = {g for _e, g, _n, _p, _c in fails}
        for g, _p in gates:
            w = [x for x in fails if x[1] == g]
            ck.ob('C02.gate', 'C02.gate/STORE/' + g.replace(' ', ''), g not in failed, f.loc(i),
                  'the control STORE handler reaches node_.store_chunk only when %s (limits read from node_.config())' % g, w[0][3] if w else None)


def is_empty_init(f, n):
    """`std::chrono::seconds x{}` — value-initialisation, overwritten before use."""
    s = f.strip(n)
    nd = f.nodes[s]
    return nd['k'] in ('InitListExpr', 'CXXConstructExpr', 'CXXTemporaryObjectExpr', 'ImplicitValueInitExpr') and not f.kids(s)


def is_written(f, i):
    """The member expression i is the target of an assignment / compound assignment / increment, has its address taken, or
    is bound to a non-const reference parameter."""
    p = f.parent(i)
    child = i
    while p is not None and f.nodes[p]['k'] in ('ParenExpr',):
        child, p = p, f.parent(p)
    if p is None:
        return False
    pn = f.nodes[p]
    if pn['k'] in ('BinaryOperator', 'CompoundAssignOperator') and (pn.get('op') == '=' or pn['k'] == 'CompoundAssignOperator') and f.kids(p)[0] == child:
        return True
    if pn['k'] == 'CXXOperatorCallExpr' and pn.get('op') in ('=', '+=', '-=', '*=', '/=', '++', '--') and len(f.kids(p)) >= 2 and f.kids(p)[1] == child:
        return True
    if pn['k'] == 'UnaryOperator' and pn.get('op') in ('++', '--', '&'):
        return True
    if pn['k'] in ('CallExpr', 'CXXMemberCallExpr', 'CXXConstructExpr'):
        pts = pn.get('pt') or []
        args = f.call_args(p) if pn['k'] != 'CXXConstructExpr' else f.kids(p)
        for a, t in zip(args, pts):
            if a == child and t.endswith('&') and not t.startswith('const '):
                return True
    return False

"""C17 — manifests round-trip, and unrepresentable manifests are refused."""
import re

from sa.paths import Cfg, loops
from sa.match import comparison, const_value
from sa.build import AnalysisBroken
from sa.prog import int_type

UNITS = ['src/protocol/Manifest.cpp']
LEVEL = 'other'
EXPLANATION = (
    'R-NARROW: every conversion of a container size to uint8_t/uint16_t in encode_manifest (explicit or implicit) is dominated '
    'by a guard `<same container>.size() > limit -> throw` with limit <= max of the target type; guards inside a checking loop '
    'count only if that loop has no exit other than throw and precedes the conversion. R-SCHEMA: the encoder\'s append '
    'sequence (widths 1/2/8, fixed arrays, length-prefixed strings, loops, optional digest) equals the decoder\'s read sequence '
    'for the current manifest version, token by token, with matching field names. R-ESC typed: encode_manifest throws only '
    'std::length_error. R-FIELDS: every field of Manifest / KeyShard / DiscoveryHint / FallbackHint / SecurityAssessment is read by '
    'the encoder and written by the decoder.')
ASSUMPTIONS = ['value equality of the round trip is not computed; it follows from schema agreement plus verbatim copies',
               'expiry is stored in whole seconds (duration_cast<seconds>) — visible in the types, not computed']

NS = 'ephemeralnet::protocol::'


def lastname(fn, n):
    n = fn.strip(n)
    nd = fn.nodes[n]
    if nd['k'] in ('MemberExpr', 'DeclRefExpr'):
        return nd.get('n', '')
    if nd['k'] == 'CXXMemberCallExpr' and nd.get('callee', '').endswith('::size'):
        return lastname(fn, fn.receiver(n)) + '.size'
    if nd['k'] == 'ConditionalOperator':
        return lastname(fn, nd['cond'])
    if nd['k'] == 'BinaryOperator' and nd.get('op') in ('!=', '=='):
        return lastname(fn, fn.kids(n)[0])
    return ''


def access_path(fn, n, depth=0):
    """Normalised rendering of a container expression: loop variables become <range>[*], const reference locals
    are replaced by their initialiser."""
    n = fn.strip(n)
    nd = fn.nodes[n]
    if depth > 8:
        return '?'
    if nd['k'] == 'DeclRefExpr':
        if nd.get('dk') == 'ParmVar':
            return nd['n']
        # loop variable?
        for lp in loops(fn):
            ln = fn.nodes[lp]
            if ln['k'] == 'CXXForRangeStmt' and ln.get('var') is not None and fn.nodes[ln['var']]['d'] == nd.get('d'):
                return access_path(fn, ln['range'], depth + 1) + '[*]'
        from sa.paths import var_decl
        vd = var_decl(fn, nd.get('d'))
        if vd is not None and 'init' in fn.nodes[vd]:
            return access_path(fn, fn.nodes[vd]['init'], depth + 1)
        return nd['n']
    if nd['k'] == 'MemberExpr':
        ks = fn.kids(n)
        return (access_path(fn, ks[0], depth + 1) if ks else 'this') + '.' + nd['n']
    if nd['k'] == 'ConditionalOperator':
        return '(%s?%s:%s)' % (access_path(fn, nd['cond'], depth + 1), access_path(fn, nd['then'], depth + 1), access_path(fn, nd['else'], depth + 1))
    if nd['k'] == 'CXXMemberCallExpr':
        return access_path(fn, fn.receiver(n), depth + 1) + '.' + nd.get('callee', '').split('::')[-1] + '()'
    return fn.text(n)


def arr_len(t):
    m = re.search(r'std::array<[^,]+, (\d+)>', t or '')
    return int(m.group(1)) if m else None


def enc_tokens(fn):
    out = []

    def rec(i):
        nd = fn.nodes[i]
        k = nd['k']
        c = nd.get('callee', '')
        if k == 'CXXMemberCallExpr' and c == 'std::vector<unsigned char>::push_back':
            out.append(('1', lastname(fn, fn.call_args(i)[0]), i))
            return
        if k == 'CallExpr' and c.endswith('::append_u16'):
            out.append(('2', lastname(fn, fn.call_args(i)[1]), i))
            return
        if k == 'CallExpr' and c.endswith('::append_u64'):
            out.append(('8', lastname(fn, fn.call_args(i)[1]), i))
            return
        if k == 'CXXMemberCallExpr' and c == 'std::vector<unsigned char>::insert':
            a = fn.call_args(i)
            src = fn.strip(a[1])
            recv = fn.receiver(src) if fn.nodes[src]['k'] == 'CXXMemberCallExpr' else None
            t = fn.nodes[recv].get('t', '') if recv is not None else ''
            n_ = arr_len(t)
            out.append(('R%d' % n_ if n_ else 'V', lastname(fn, recv) if recv is not None else '', i))
            return
        if k in ('ForStmt', 'CXXForRangeStmt', 'WhileStmt'):
            mark = len(out)
            out.append(('[', '', i))
            rec(nd['body'])
            if len(out) == mark + 1:
                out.pop()
            else:
                out.append((']', '', i))
            return
        if k == 'IfStmt':
            for br in ('then', 'else'):
                if nd.get(br) is not None and nd[br] >= 0:
                    mark = len(out)
                    out.append(('?(', '', i))
                    rec(nd[br])
                    if len(out) == mark + 1:
                        out.pop()
                    else:
                        out.append((')', '', i))
            return
        if k == 'LambdaExpr':
            return
        for ch in fn.kids(i):
            rec(ch)
    rec(fn.body)
    return out


def dec_tokens(fn, payload_name='payload', current_version=4):
    out = []

    def ctx_label(i):
        for a in fn.ancestors(i):
            nd = fn.nodes[a]
            if nd['k'] == 'VarDecl':
                return nd['n']
            if nd['k'] == 'BinaryOperator' and nd.get('op') == '=':
                return lastname(fn, fn.kids(a)[0])
            if nd['k'] == 'CXXOperatorCallExpr' and nd.get('op') == '=':
                return lastname(fn, fn.kids(a)[1])
            if nd['k'] in ('CompoundStmt', 'IfStmt', 'ForStmt'):
                return ''
        return ''

    def from_payload(n):
        return any(fn.nodes[j]['k'] == 'DeclRefExpr' and fn.nodes[j].get('n') == payload_name for j in fn.walk(n))

    def version_cond(cond):
        """None if the condition does not test `version`; else whether it holds for the current version."""
        c = comparison(fn, cond)
        if c is None:
            return None
        op, a, b = c
        an = fn.nodes[fn.strip(a)]
        if an['k'] == 'DeclRefExpr' and an.get('n') == 'version':
            v = const_value(fn, b)
            if v is None:
                return None
            return {'>=': current_version >= v, '>': current_version > v, '==': current_version == v, '!=': current_version != v,
                    '<': current_version < v, '<=': current_version <= v}[op]
        return None

    def rec(i):
        nd = fn.nodes[i]
        k = nd['k']
        c = nd.get('callee', '')
        if k == 'CXXOperatorCallExpr' and nd.get('op') == '[]' and len(fn.kids(i)) == 3:
            base, idx = fn.kids(i)[1], fn.strip(fn.kids(i)[2])
            if from_payload(base) and fn.nodes[idx]['k'] == 'UnaryOperator' and fn.nodes[idx].get('op') == '++':
                out.append(('1', ctx_label(i), i))
                return
        if k == 'CallExpr' and c.endswith('::read_u16'):
            out.append(('2', ctx_label(i), i))
            return
        if k == 'CallExpr' and c.endswith('::read_u64'):
            out.append(('8', ctx_label(i), i))
            return
        if k == 'CallExpr' and c == 'std::copy_n' and from_payload(fn.call_args(i)[0]):
            dst = fn.strip(fn.call_args(i)[2])
            recv = fn.receiver(dst) if fn.nodes[dst]['k'] == 'CXXMemberCallExpr' else None
            n_ = arr_len(fn.nodes[recv].get('t', '')) if recv is not None else None
            out.append(('R%d' % n_ if n_ else 'R?', lastname(fn, recv) if recv is not None else '', i))
            return
        if k in ('CXXConstructExpr', 'CXXTemporaryObjectExpr') and c.startswith('std::basic_string<char>::basic_string') and \
                len(fn.kids(i)) >= 2 and from_payload(fn.kids(i)[0]):
            out.append(('V', ctx_label(i), i))
            return
        if k == 'CXXMemberCallExpr' and c.startswith('std::basic_string<char>::assign') and fn.call_args(i) and from_payload(fn.call_args(i)[0]):
            out.append(('V', lastname(fn, fn.receiver(i)), i))
            return
        if k in ('ForStmt', 'CXXForRangeStmt', 'WhileStmt'):
            mark = len(out)
            out.append(('[', '', i))
            rec(nd['body'])
            if len(out) == mark + 1:
                out.pop()
            else:
                out.append((']', '', i))
            return
        if k == 'IfStmt':
            vc = version_cond(nd['cond'])
            for br, want in (('then', True), ('else', False)):
                if nd.get(br) is None or nd[br] < 0:
                    continue
                if vc is not None:
                    if vc == want:
                        rec(nd[br])       # taken for the current version: transparent
                    continue
                mark = len(out)
                out.append(('?(', '', i))
                rec(nd[br])
                if len(out) == mark + 1:
                    out.pop()
                else:
                    out.append((')', '', i))
            return
        if k == 'LambdaExpr':
            return
        for ch in fn.kids(i):
            rec(ch)
    rec(fn.body)
    return out


def labels_agree(a, b):
    if len(a) > 1 and a[0] == 'k' and a[1].isupper():
        a = a[1:]
    a, b = a.lower(), b.lower()
    if not a or not b:
        return True
    if a.endswith('.size'):
        stem = a[:-5]
        if b.endswith(('_count', '_length')):
            bs = b.rsplit('_', 1)[0]
            return stem.startswith(bs) or bs.startswith(stem)
        return False
    return a in b or b in a


def run(ck):
    P = ck.prog(UNITS)
    enc = P.fn(NS + 'encode_manifest')
    dec = P.fn(NS + 'decode_manifest')
    ck.touch(enc)
    ck.touch(dec)
    cfg = Cfg.of(enc)

    # ---- R-NARROW -----------------------------------------------------------------------------
    guards = []        # (path, limit, node, loop or None)
    for i in enc.walk():
        nd = enc.nodes[i]
        if nd['k'] != 'IfStmt':
            continue
        c = comparison(enc, nd['cond'])
        if c is None:
            continue
        op, a, b = c
        if op in ('<', '<='):
            op, a, b = {'<': '>', '<=': '>='}[op], b, a
        if op not in ('>', '>='):
            continue
        an = enc.nodes[enc.strip(a)]
        if not (an['k'] == 'CXXMemberCallExpr' and an.get('callee', '').endswith('::size')):
            continue
        lim = const_value(enc, b)
        if lim is None:
            continue
        if op == '>=':
            lim -= 1
        then = nd.get('then')
        throws = [j for j in enc.walk(then) if enc.nodes[j]['k'] == 'CXXThrowExpr']
        others = [j for j in enc.walk(then) if enc.nodes[j]['k'] in ('ReturnStmt', 'BreakStmt', 'ContinueStmt')]
        if not throws or others:
            continue
        lp = None
        for anc in enc.ancestors(i):
            if enc.nodes[anc]['k'] in ('ForStmt', 'CXXForRangeStmt', 'WhileStmt'):
                lp = anc
                break
        guards.append((access_path(enc, enc.receiver(enc.strip(a))), lim, i, lp))
    sites = []
    for i in enc.walk():
        nd = enc.nodes[i]
        if nd['k'] in ('CXXStaticCastExpr', 'CStyleCastExpr', 'CXXFunctionalCastExpr', 'ImplicitCastExpr') and nd.get('ck', 'IntegralCast') == 'IntegralCast':
            it = int_type(nd.get('t'))
            if it is None or it[0] >= 64:
                continue
            inner = enc.strip(enc.kids(i)[0]) if enc.kids(i) else None
            if inner is None:
                continue
            ind = enc.nodes[inner]
            if ind['k'] == 'CXXMemberCallExpr' and ind.get('callee', '').endswith('::size'):
                if any(enc.strip(enc.kids(s_[0])[0]) == inner for s_ in sites):
                    continue          # explicit cast wrapping the implicit conversion of the same operand
                sites.append((i, access_path(enc, enc.receiver(inner)), (1 << it[0]) - 1 if not it[1] else (1 << (it[0] - 1)) - 1))
    ck.floor('C17.narrow', 'narrowing conversions of container sizes in encode_manifest', len(sites), 11)
    for i, path, tmax in sites:
        ok = False
        for gpath, lim, gnode, lp in guards:
            if gpath != path or lim > tmax:
                continue
            if lp is None or enc.is_in(i, lp):
                if cfg.dominates(cfg.locate(enc.nodes[gnode]['cond']), cfg.locate(i)):
                    ok = True
            else:
                # guard inside a checking loop: the loop must have no exit but throw, and its header must dominate the site
                exits = [j for j in enc.walk(enc.nodes[lp]['body']) if enc.nodes[j]['k'] in ('ReturnStmt', 'BreakStmt', 'ContinueStmt', 'GotoStmt')]
                hdr = [b for b in cfg.blocks.values() if b.get('term') == lp]
                loc = cfg.locate(i)
                if not exits and hdr and loc and hdr[0]['id'] in cfg.dominators().get(loc[0], set()):
                    # and the guard is unconditional inside the loop body
                    inner_ifs = [a for a in enc.ancestors(gnode) if enc.is_in(a, lp) and a != lp and enc.nodes[a]['k'] == 'IfStmt']
                    if not inner_ifs:
                        ok = True
        ck.ob('C17.narrow', 'C17.narrow/%s' % path, ok, enc.loc(i),
              'the size of %s is converted to a type with maximum %d only after a dominating `%s.size() > limit -> throw` with limit <= %d'
              % (path, tmax, path, tmax))

    # ---- R-ESC typed --------------------------------------------------------------------------
    nthrow = 0
    for i in enc.walk():
        if enc.nodes[i]['k'] == 'CXXThrowExpr':
            nthrow += 1
            ck.ob('C17.esc', 'C17.esc/encode#%d' % nthrow, enc.nodes[i].get('thrown') == 'std::length_error', enc.loc(i),
                  'encode_manifest refuses unrepresentable manifests with std::length_error (found %s)' % enc.nodes[i].get('thrown'))
    ck.floor('C17.esc', 'throw sites in encode_manifest', nthrow, 11)

    # ---- R-SCHEMA -----------------------------------------------------------------------------
    kver = P.global_const(NS + '(anonymous namespace)::kManifestVersion')
    et = enc_tokens(enc)
    dt = dec_tokens(dec, current_version=kver)
    ck.floor('C17.schema', 'encoder tokens', len(et), 40)
    ck.floor('C17.schema', 'decoder tokens', len(dt), 40)
    es = ' '.join(t for t, _l, _n in et)
    ds = ' '.join(t for t, _l, _n in dt)
    ck.extra['schema'] = {'encoder': es, 'decoder': ds}
    same = es == ds
    first_bad = None
    if not same:
        for k in range(min(len(et), len(dt))):
            if et[k][0] != dt[k][0]:
                first_bad = k
                break
        if first_bad is None:
            first_bad = min(len(et), len(dt)) - 1
    ck.ob('C17.schema', 'C17.schema/sequence', same, enc.loc(et[first_bad][2]) if first_bad is not None else enc.loc(),
          'the append sequence of encode_manifest equals the read sequence of decode_manifest for version %d' % kver +
          ('' if same else ' — first difference at token %d: encoder %s (%s) vs decoder %s (%s) at %s' %
           (first_bad, et[first_bad][0], et[first_bad][1], dt[first_bad][0], dt[first_bad][1], dec.loc(dt[first_bad][2]))))
    if same:
        for k, ((t, le, ne), (_t, ld, nd_)) in enumerate(zip(et, dt)):
            if t in ('[', ']', '?(', ')'):
                continue
            ck.ob('C17.schema', 'C17.schema/field#%d/%s' % (k, le or ld or t), labels_agree(le, ld), dec.loc(nd_),
                  'token %d (%s): encoder writes %s, decoder reads it into %s' % (k, t, le or '<expr>', ld or '<expr>'))

    # ---- R-FIELDS -----------------------------------------------------------------------------
    recs = ['Manifest', 'KeyShard', 'DiscoveryHint', 'FallbackHint', 'SecurityAssessment']
    nfields = 0
    for r in recs:
        rq = NS + r
        if rq not in P.records:
            cands = [q for q in P.records if q.endswith('::' + r)]
            if not cands:
                raise AnalysisBroken('record %s not found' % r)
            rq = cands[0]
        for fld in P.records[rq].get('fields', []):
            fq = rq + '::' + fld['n']
            nfields += 1
            in_enc = any(enc.nodes[j].get('m') == fq for j in enc.walk())
            in_dec = any(dec.nodes[j].get('m') == fq for j in dec.walk())
            ck.ob('C17.fields', 'C17.fields/%s.%s' % (r, fld['n']), in_enc and in_dec, enc.loc(),
                  '%s::%s is serialised by encode_manifest and restored by decode_manifest' % (r, fld['n']))
    ck.floor('C17.fields', 'fields of the manifest records', nfields, 20)

    # ---- the base64 body handed to the decoder is the URI minus the scheme, unmodified -----------------------------
    from sa.paths import local_writes
    from sa.flow import origin_chain
    b64 = [i for i in dec.walk() if dec.nodes[i].get('callee', '').endswith('::base64_decode')]
    ck.floor('C17.uri', 'base64_decode calls in decode_manifest', len(b64), 1)
    arg = dec.call_args(b64[0])[0]
    chain = list(origin_chain(dec, arg))
    sub = [j for j in chain if dec.nodes[j].get('callee', '').endswith('::substr')]
    ok = False
    if sub:
        r = dec.receiver(sub[0])
        explicit = [a for a in dec.call_args(sub[0]) if dec.nodes[a]['k'] != 'CXXDefaultArgExpr']
        ok = r is not None and dec.nodes[r].get('d') == dec.params[0]['d'] and len(explicit) == 1
        an = dec.nodes[dec.strip(arg)]
        if ok and an['k'] == 'DeclRefExpr' and an.get('dk') == 'Var':
            ok = not local_writes(dec, an['d'])
    ck.ob('C17.uri', 'C17.uri/body-unmodified', ok, dec.loc(b64[0]),
          'base64_decode receives uri.substr(strlen(scheme)) as is — no trimming or rewriting of characters that belong to the base64 alphabet')

    # ---- the decoder restores scalar fields once, from the wire: nothing re-interprets a decoded flag or count afterwards ------
    from props.common import assignments as _assignments
    from sa.prog import int_type as _int_type
    per_field = {}
    for l_, r_, s_ in _assignments(dec):
        ln = dec.nodes[dec.strip(l_, casts=False)]
        if ln['k'] != 'MemberExpr' or ln.get('mk') != 'Field':
            continue
        t_ = (ln.get('ft') or ln.get('t') or '').replace('const ', '')
        if _int_type(t_) is None and 'time_point' not in t_:
            continue
        per_field.setdefault(ln.get('m'), []).append(s_)
    ck.floor('C17.decode', 'scalar fields restored by decode_manifest', len(per_field), 6)
    for m, sites in sorted(per_field.items()):
        ck.ob('C17.decode', 'C17.decode/once/' + m.replace('ephemeralnet::protocol::', ''), len(sites) == 1, dec.loc(sites[-1]),
              '%s is assigned exactly once in decode_manifest, from the bytes read (%d assignment(s))' % (m.replace('ephemeralnet::protocol::', ''), len(sites)))

    # ---- the decoder refuses no expiry the encoder can emit (N1) ----------------------------------------------------------------
    # encode_manifest writes duration_cast<seconds>(expires_at.time_since_epoch()).count() as a 64-bit word: any value in
    # [-K, K], K = floor((2^63-1)/10^9) (system_clock counts nanoseconds here), negative ones (before 1970) in two's complement.
    # Every throw of decode_manifest that is guarded by the decoded expiry must be impossible for such a value.
    from sa.absint2 import Analyzer as _An
    from sa.lin import Lin as _Lin
    K = (2 ** 63 - 1) // 10 ** 9
    exp_sites = per_field.get('ephemeralnet::protocol::Manifest::expires_at') or []
    if not exp_sites:
        raise AnalysisBroken('decode_manifest no longer assigns Manifest::expires_at')
    cand = {}
    for j in dec.walk(exp_sites[0]):
        nd_ = dec.nodes[j]
        if nd_['k'] == 'DeclRefExpr' and nd_.get('dk') == 'Var' and not nd_.get('g'):
            for v_ in dec.walk():
                if dec.nodes[v_]['k'] == 'VarDecl' and dec.nodes[v_].get('d') == nd_['d']:
                    cand[nd_['d']] = dec.nodes[v_]
    hits = []

    def _throw_hook(fn_, n_, s_, fr_):
        if fn_ is not dec:
            return
        guard = None
        for a_ in fn_.ancestors(n_):
            if fn_.nodes[a_]['k'] == 'IfStmt':
                guard = fn_.nodes[a_]['cond']
                break
        if guard is None:
            return
        ds_ = {fn_.nodes[j]['d'] for j in fn_.walk(guard) if fn_.nodes[j]['k'] == 'DeclRefExpr' and fn_.nodes[j].get('d') in cand}
        for d_ in ds_:
            hits.append((n_, d_, s_.env.get(('v', fr_.id, d_)), s_.cons.copy()))
    an17 = _An(P, inline=lambda q: q.startswith('ephemeralnet::protocol::'))
    an17.throw_hook = _throw_hook
    an17.run(dec)
    refused = None
    for n_, d_, x_, cons_ in hits:
        it_ = int_type((cand[d_].get('t') or '').replace('const ', ''))
        if not isinstance(x_, _Lin) or it_ is None:
            refused = (n_, 'the decoded expiry is not tracked as a number at this throw')
            break
        signed = it_[1] if len(it_) > 1 else True
        ranges = [(-K, K)] if signed else [(0, K), (2 ** 64 - K, 2 ** 64 - 1)]
        for lo, hi in ranges:
            c2 = cons_.copy()
            c2.add_le(_Lin.const(lo) - x_)
            c2.add_le(x_ - hi)
            if not c2.is_unsat():
                refused = (n_, 'a value in [%d, %d] of the %s expiry word reaches this throw' % (lo, hi, 'signed' if signed else 'unsigned'))
                break
        if refused:
            break
    ck.ob('C17.decode', 'C17.decode/expiry-accepts-every-emitted-value', refused is None, dec.loc(refused[0]) if refused else dec.loc(exp_sites[0]),
          'no expiry that encode_manifest can emit (|seconds| <= %d, dates before 1970 included) is refused by decode_manifest '
          '(%d guarded throw state(s) examined)%s' % (K, len(hits), '' if refused is None else ' — ' + refused[1]))

    # ---- decoded sequences keep wire order: nothing reorders, de-duplicates or trims a decoded list afterwards ------------------------
    REORDER = ('std::sort', 'std::stable_sort', 'std::partial_sort', 'std::reverse', 'std::rotate', 'std::unique', 'std::remove', 'std::remove_if',
               'std::partition', 'std::stable_partition', 'std::shuffle', 'std::swap', 'std::iter_swap', 'std::erase', 'std::erase_if', 'std::nth_element')
    shuf = []
    for i in dec.walk():
        nd_ = dec.nodes[i]
        c_ = nd_.get('callee') or ''
        hit = c_ in REORDER or (nd_['k'] == 'CXXMemberCallExpr' and c_.split('::')[-1] in ('erase', 'pop_back', 'resize', 'clear', 'insert') and 'vector' in c_)
        if not hit:
            continue
        if nd_['k'] == 'CXXMemberCallExpr' and c_.split('::')[-1] == 'clear':
            # emptying a list before it is filled is not a change of decoded content: only a clear() that a push_back can reach counts
            from sa.paths import reaches as _reaches17
            mem = {dec.nodes[j].get('m') for j in dec.walk(i) if dec.nodes[j]['k'] == 'MemberExpr'}
            pushes = [p_ for p_ in dec.walk() if (dec.nodes[p_].get('callee') or '').endswith(('::push_back', '::emplace_back')) and
                      mem & {dec.nodes[j].get('m') for j in dec.walk(p_) if dec.nodes[j]['k'] == 'MemberExpr'}]
            if not any(_reaches17(dec, p_, i) for p_ in pushes):
                continue
        if any(dec.nodes[j]['k'] == 'MemberExpr' and (dec.nodes[j].get('m') or '').startswith('ephemeralnet::protocol::Manifest') for j in dec.walk(i)) or \
                any(dec.nodes[j]['k'] == 'DeclRefExpr' and dec.nodes[j].get('n') == 'manifest' for j in dec.walk(i)):
            shuf.append(i)
    ck.ob('C17.decode', 'C17.decode/sequences-keep-wire-order', not shuf, dec.loc(shuf[0]) if shuf else dec.loc(),
          'decode_manifest only appends to the manifest\'s lists (shards, metadata, hints): it never sorts, reverses, de-duplicates, erases from or resizes them'
          + ('' if not shuf else ' — %s' % (dec.nodes[shuf[0]].get('callee') or '').split('<')[0]))

    # ---- encode_manifest serialises the manifest's own lists, whole and in place: every loop is a range-for directly over a member of the
    # `manifest` parameter (never over a filtered / de-duplicated / sorted copy), each of the four list members has a loop that appends to the
    # output, and no loop skips or stops early (an element left out is a manifest that does not round-trip, and a shortened count slips past
    # the 255 limit) ----
    from sa.paths import loops as _loops17
    lp17 = _loops17(enc)
    ck.floor('C17.encode', 'loops in encode_manifest', len(lp17), 7)
    mparam = enc.params[0]['d']
    bad17 = None
    written = set()
    for l_ in lp17:
        nd_ = enc.nodes[l_]
        if nd_['k'] != 'CXXForRangeStmt':
            bad17 = bad17 or (l_, 'a %s (not a range-for over a manifest list)' % nd_['k'])
            continue
        r_ = enc.strip(nd_['range'])
        rn = enc.nodes[r_]
        base_ok = rn['k'] == 'MemberExpr' and (rn.get('m') or '').startswith(NS + 'Manifest::') and \
            enc.nodes[enc.strip(enc.kids(r_)[0])]['k'] == 'DeclRefExpr' and enc.nodes[enc.strip(enc.kids(r_)[0])].get('d') == mparam
        if not base_ok:
            bad17 = bad17 or (l_, 'ranges over something other than a list member of the manifest parameter')
            continue
        skip_ = [i for i in enc.walk(nd_['body']) if enc.nodes[i]['k'] in ('ContinueStmt', 'BreakStmt', 'ReturnStmt', 'GotoStmt')]
        if skip_:
            bad17 = bad17 or (skip_[0], 'leaves the iteration early')
        if any((enc.nodes[i].get('callee') or '').endswith(('::push_back', '::insert')) for i in enc.walk(nd_['body'])):
            written.add((rn.get('m') or '').split('::')[-1])
    ck.ob('C17.encode', 'C17.encode/lists-serialised-whole-in-place', bad17 is None, enc.loc(bad17[0]) if bad17 else enc.loc(),
          'every loop of encode_manifest is a range-for directly over a list member of the manifest parameter, with no continue/break/return'
          + ('' if not bad17 else ' — ' + bad17[1]))
    need17 = {'shards', 'metadata', 'discovery_hints', 'fallback_hints'}
    ck.ob('C17.encode', 'C17.encode/every-list-has-a-writing-loop', need17 <= written, enc.loc(),
          'shards, metadata, discovery_hints and fallback_hints are each appended to the output by a loop over the member itself (found: %s)' % sorted(written))

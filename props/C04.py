"""C04 — persisted chunk files do not outlive the chunk."""
from sa.paths import _result_written, must_precede, Cfg, loops
from sa.flow import origin_chain, field_accesses, value_sources
from sa.match import holds, const_value
from sa.build import AnalysisBroken
from props.common import rx

UNITS = ['src/core/ChunkStore.cpp']
LEVEL = 'other'
EXPLANATION = (
    'R-PAIR/R-OWN on ChunkStore: (wipe) every removal or replacement of a record in chunks_ (erase, '
    'insert_or_assign) is preceded on every path by wipe_persisted_chunk(record), the only accepted bypass being '
    'the record not being persisted / wipe-on-expiry disabled / no previous record; (wipe-shape) secure_wipe_file '
    'overwrites (>= 1 pass, wipe_passes_ initialised with max(cfg,1)) before the single remove; persist writes '
    'exactly record.data; (own) files under the storage root are created/removed only by persist_chunk_to_disk and '
    'secure_wipe_file; (restart) some function reachable from the constructor enumerates the storage directory '
    '(structural necessary condition for wiping files left by an earlier instance).')
ASSUMPTIONS = ['crash points inside put / secure_wipe_file (interrupted write or wipe) are not decided: that needs fault injection, '
               'a different technique family']

CS = 'ephemeralnet::ChunkStore::'
REC = 'ephemeralnet::ChunkRecord::'


def run(ck):
    P = ck.prog(UNITS)
    n_sites = 0
    for f in P.fns:
        if not f.q.startswith(CS):
            continue
        sites = f.calls(rx(r'unordered_map<.*ChunkRecord.*::(erase|insert_or_assign|clear|extract)$'))
        # operator[] / emplace overwrite forms
        sites += [i for i in f.calls(rx(r'unordered_map<.*ChunkRecord.*::operator\[\]$'))]
        # in-place mutation of a stored record (through an iterator / reference into chunks_): it->second = …,
        # it->second.persisted = …, it->second.file_path.clear()
        pm = f.parent_map()
        for i, nd in enumerate(f.nodes):
            if nd['k'] == 'MemberExpr' and nd.get('n') == 'second' and 'ChunkRecord' in nd.get('t', '') and _result_written(f, i, pm):
                if f.q == CS + 'wipe_persisted_chunk':
                    continue
                sites.append(i)
        if not sites:
            continue
        ck.touch(f)

        def is_wipe(n, f=f):
            return f.nodes[n].get('callee') == CS + 'wipe_persisted_chunk'

        def bypass(fact, f=f):
            kind, node, val = fact
            nd = f.nodes[node]
            if kind == 'bool' and val is False and nd.get('m') in (REC + 'persisted', CS + 'wipe_on_expiry_'):
                return True
            # `existing == chunks_.end()` : nothing to replace
            h = holds(f, fact)
            if h and h[1] == '==':
                a, _r, b = h
                if any(f.nodes[f.strip(x)].get('callee', '').endswith('::end') for x in (a, b)):
                    return True
            return False
        mp = dict(must_precede(f, sites, is_wipe, bypass))
        for s in sites:
            n_sites += 1
            what = f.nodes[s].get('callee', 'in-place write of a stored record').split('::')[-1]
            ck.ob('C04.wipe', 'C04.wipe/%s/%s' % (f.name, what), s not in mp, f.loc(s),
                  'a record leaves chunks_ or is overwritten in place (%s) only after wipe_persisted_chunk, unless it is not '
                  'persisted / wiping is disabled' % what, mp.get(s))
    ck.floor('C04.wipe', 'record removal/replacement sites', n_sites, 2)

    # wipe_persisted_chunk -> secure_wipe_file(record.file_path)
    wp = P.fn(CS + 'wipe_persisted_chunk')
    sw_calls = wp.calls(CS + 'secure_wipe_file')
    ok = len(sw_calls) == 1 and wp.nodes[wp.strip(wp.call_args(sw_calls[0])[0])].get('m') == REC + 'file_path'
    ck.ob('C04.wipe', 'C04.wipe/wipe_persisted_chunk', ok, wp.loc(), 'wipe_persisted_chunk wipes record.file_path')

    # ---- secure_wipe_file shape ----------------------------------------------------------
    sw = P.fn(CS + 'secure_wipe_file')
    ck.touch(sw)
    removes = sw.calls(rx(r'^std::filesystem::remove(_all)?$'))
    writes = sw.calls(rx(r'basic_ostream<char>::write$|fstream.*::write$'))
    lps = loops(sw)
    ok = len(removes) == 1 and bool(writes) and bool(lps)
    if ok:
        outer = [l for l in lps if sw.nodes[l]['k'] == 'ForStmt']
        ok = bool(outer) and all(sw.is_in(w, outer[0]) for w in writes)
        cfg = Cfg.of(sw)
        # the remove comes after the loop: loop head dominates it and it is not inside the loop
        ok = ok and not sw.is_in(removes[0], outer[0]) and cfg.dominates(cfg.locate(sw.nodes[outer[0]]['cond']), cfg.locate(removes[0]))
        # the pass loop is bounded by wipe_passes_
        ok = ok and any(sw.nodes[j].get('m') == CS + 'wipe_passes_' for j in sw.walk(sw.nodes[outer[0]]['cond']))
        # inner loop writes until `remaining` (initialised from file_size) is exhausted
        ok = ok and any(sw.nodes[j].get('callee') == 'std::filesystem::file_size' for j in sw.walk())
    ck.ob('C04.shape', 'C04.shape/overwrite-then-remove', ok, sw.loc(),
          'secure_wipe_file overwrites the whole file in a loop bounded by wipe_passes_ and only then removes it (single remove)')
    # success of a wipe means the file is gone: `true` is returned only when the file did not exist, or after the remove
    cfg_sw = Cfg.of(sw)
    bad_ret = []
    for r in [i for i in sw.walk() if sw.nodes[i]['k'] == 'ReturnStmt' and sw.kids(i)]:
        e = sw.strip(sw.kids(r)[0])
        if sw.nodes[e].get('cv') == '0':
            continue
        after_remove = bool(removes) and cfg_sw.dominates(cfg_sw.locate(removes[0]), cfg_sw.locate(r))
        absent = False
        for a in sw.ancestors(r):
            an = sw.nodes[a]
            if an['k'] == 'IfStmt' and sw.is_in(r, an['then']):
                c = sw.strip(an['cond'])
                cn = sw.nodes[c]
                if cn['k'] == 'UnaryOperator' and cn.get('op') == '!' and (sw.nodes[sw.strip(sw.kids(c)[0])].get('callee') or '') == 'std::filesystem::exists':
                    absent = True
        if not (after_remove or absent):
            bad_ret.append(r)
    ck.ob('C04.shape', 'C04.shape/wipe-success-means-gone', not bad_ret, sw.loc(bad_ret[0]) if bad_ret else sw.loc(),
          'secure_wipe_file reports success only when the file did not exist or after it was removed (no early `return true`)')
    # once the overwrite has started, every way out goes through the remove (a failed pass must not leave the file behind)
    wit_ = None
    for w_ in writes:
        wit_ = wit_ or cfg_sw.must_pass(w_, lambda e: e in removes or any(sw.is_in(x, e) for x in removes) and sw.nodes[e]['k'] in ('ExprWithCleanups',))
    ck.ob('C04.shape', 'C04.shape/remove-after-any-overwrite', bool(writes) and wit_ is None, sw.loc(writes[0]) if writes else sw.loc(),
          'after secure_wipe_file has started overwriting, every path to a return passes std::filesystem::remove', wit_)
    ctor = P.fn(CS + 'ChunkStore')
    ck.touch(ctor)
    ok = False
    for i in ctor.walk():
        nd = ctor.nodes[i]
        if nd['k'] == 'CtorInit' and nd.get('m') == CS + 'wipe_passes_':
            mx = [j for j in ctor.walk(i) if ctor.nodes[j].get('callee') == 'std::max']
            ok = bool(mx) and any(const_value(ctor, a) == 1 for a in ctor.call_args(mx[0]))
    ck.ob('C04.shape', 'C04.shape/at-least-one-pass', ok, ctor.loc(), 'wipe_passes_ is initialised with max(configured, 1)')
    pd = P.fn(CS + 'persist_chunk_to_disk')
    ck.touch(pd)
    w = pd.calls(rx(r'basic_ostream<char>::write$|ofstream.*::write$'))
    ok = len(w) == 1
    if ok:
        a = pd.call_args(w[0])
        srcs0 = value_sources(pd, a[0])
        srcs1 = value_sources(pd, a[1])
        ok = any(pd.nodes[j].get('m') == REC + 'data' for j in srcs0) and any(pd.nodes[j].get('callee', '').endswith('::data') for j in srcs0) \
            and any(pd.nodes[j].get('m') == REC + 'data' for j in srcs1) and any(pd.nodes[j].get('callee', '').endswith('::size') for j in srcs1)
    ck.ob('C04.shape', 'C04.shape/persist-exact-bytes', ok, pd.loc(), 'persist_chunk_to_disk writes exactly record.data (data(), size())')
    # the file of a persisted record holds the bytes of THIS store: success is reported only after they were written
    cfg_pd = Cfg.of(pd)
    bad_ret = []
    for r in [i for i in pd.walk() if pd.nodes[i]['k'] == 'ReturnStmt' and pd.kids(i)]:
        e = pd.strip(pd.kids(r)[0])
        if pd.nodes[e].get('cv') == '0':
            continue
        if not (len(w) == 1 and cfg_pd.dominates(cfg_pd.locate(w[0]), cfg_pd.locate(r))):
            bad_ret.append(r)
    ck.ob('C04.shape', 'C04.shape/persist-success-after-write', not bad_ret, pd.loc(bad_ret[0]) if bad_ret else pd.loc(),
          'persist_chunk_to_disk reports success only after writing the record (a pre-existing file is never taken for the chunk)')
    # interrupted store: once bytes may have been written, every failing return removes the file itself
    # (not through wipe_persisted_chunk, whose `persisted` guard is still false at that point)
    opens = [i for i in pd.walk() if pd.nodes[i]['k'] in ('CXXConstructExpr', 'CXXTemporaryObjectExpr') and
             pd.nodes[i].get('callee', '').startswith('std::basic_ofstream') and pd.kids(i)]
    ck.floor('C04.crash', 'ofstream constructions in persist_chunk_to_disk', len(opens), 1)
    path_d = None
    if opens:
        pn = pd.nodes[pd.strip(pd.call_args(opens[0])[0])]
        path_d = pn.get('d') if pn['k'] == 'DeclRefExpr' else None

    def removes_file(e):
        nd = pd.nodes[e]
        if nd.get('callee') in (CS + 'secure_wipe_file', 'std::filesystem::remove'):
            a = pd.call_args(e)
            an = pd.nodes[pd.strip(a[0])] if a else {}
            return path_d is not None and an.get('k') == 'DeclRefExpr' and an.get('d') == path_d
        return False

    def returns_true(e):
        nd = pd.nodes[e]
        return nd['k'] == 'ReturnStmt' and pd.kids(e) and pd.nodes[pd.strip(pd.kids(e)[0])].get('cv') == '1'
    cfgd = Cfg.of(pd)
    for wcall in w:
        wit = cfgd.must_pass(wcall, removes_file, stop_at=returns_true)
        ck.ob('C04.crash', 'C04.crash/failed-write-removes-file', wit is None, pd.loc(wcall),
              'after stream.write, every return other than `return true` first calls secure_wipe_file(path) / remove(path) on the '
              'file just opened, so an interrupted store leaves no file behind', wit)

    # ---- (own) who creates/removes files ---------------------------------------------------
    owners = {CS + 'persist_chunk_to_disk', CS + 'secure_wipe_file'}
    n_io = 0
    for f in P.fns:
        for i in f.walk():
            nd = f.nodes[i]
            c = nd.get('callee', '')
            io = (c.startswith('std::basic_ofstream') or c.startswith('std::basic_fstream')) and nd['k'] in ('CXXConstructExpr', 'CXXTemporaryObjectExpr') \
                or c in ('std::filesystem::remove', 'std::filesystem::remove_all', 'std::filesystem::rename', 'std::filesystem::resize_file')
            if io and f.unit == 'src/core/ChunkStore.cpp':
                n_io += 1
                ck.ob('C04.own', 'C04.own/%s/%s' % (f.name, c.split('::')[-1]), f.q in owners, f.loc(i),
                      'chunk files are written/removed only by persist_chunk_to_disk and secure_wipe_file')
    ck.floor('C04.own', 'file creation/removal sites in ChunkStore.cpp', n_io, 3)

    # ---- (restart) ---------------------------------------------------------------------------
    reach = {ctor.q}
    work = [ctor]
    while work:
        f = work.pop()
        for i in f.walk():
            c = f.nodes[i].get('callee')
            if c and c.startswith(CS) and c not in reach:
                reach.add(c)
                g = P.fn(c, optional=True)
                if g is not None:
                    work.append(g)
    scans = False
    for q in reach:
        for g in P.fns_named(q):
            if any('directory_iterator' in g.nodes[i].get('callee', '') or 'directory_iterator' in g.nodes[i].get('t', '')
                   for i in g.walk()):
                scans = True
    ck.ob('C04.restart', 'C04.restart/ctor-scans-storage-root', scans, ctor.loc(),
          'some function reachable from the ChunkStore constructor enumerates the storage directory, so files left by an '
          'earlier daemon instance can be wiped (reachable: %s)' % sorted(x.split('::')[-1] for x in reach))

    # ---- the sweep always looks at every record: no summary ("nothing can have expired yet") lets it return before the scan --------
    from props.common import always_scans
    sw = P.fn(CS + 'sweep_expired')
    ck.touch(sw)
    lps_, wit_ = always_scans(sw, CS + 'chunks_')
    ck.ob('C04.sweep', 'C04.sweep/always-scans', bool(lps_) and wit_ is None, sw.loc(),
          'every call of ChunkStore::sweep_expired walks chunks_ (an overwrite can shorten a deadline that a cached "earliest expiry" does not see)', wit_)

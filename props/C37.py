"""C37 — structured log records are single, faithful JSON lines (structural clauses)."""
from sa.paths import loops, Cfg
from sa.match import comparison, const_value
from sa.build import AnalysisBroken
from props.common import declref, stream_insertions, literal_text, switch_table

UNITS = ['src/daemon/StructuredLogger.cpp']
LEVEL = 'other'
EXPLANATION = (
    'R-SINK: in StructuredLogger::log every non-literal string inserted into the record stream is escape_json(...) of the '
    'timestamp, the level name, the event, each key and each value; the literals form the fixed skeleton '
    '{"ts":"…","level":"…","event":"…"[,"fields":{"k":"v",…}]}\\n with exactly one line break, at the end; the record is '
    'written to std::clog in one insertion while mutex_ is held. Escaper decided by region enumeration over the byte domain '
    '(the function only compares the byte with constants): the quote and the backslash have two-character escapes, \\b \\f \\n \\r '
    '\\t have their RFC 8259 short forms, every other byte below 0x20 takes the \\u00XX branch (hex, width 4, fill 0, value of '
    'an unsigned char), every byte >= 0x20 is copied unchanged, so valid UTF-8 passes through verbatim.')
ASSUMPTIONS = ['that a JSON parser decodes the line back to the logged strings is the value round trip and is not executed',
               'duplicate keys in one record are not excluded']

D = 'ephemeralnet::daemon::'
SL = D + 'StructuredLogger::'


def run(ck):
    P = ck.prog(UNITS)
    lg = P.fn(SL + 'log')
    ck.touch(lg)
    oss = [lg.nodes[i]['d'] for i in lg.walk() if lg.nodes[i]['k'] == 'VarDecl' and 'ostringstream' in lg.nodes[i].get('t', '')]
    ck.ob('C37.sink', 'C37.sink/assembled-then-written-once', len(oss) == 1, lg.loc(),
          'StructuredLogger::log assembles the whole record in a local ostringstream before anything reaches the log stream: an exception '
          'while a value is being escaped cannot leave half a record (an invalid line) in the output')
    if len(oss) != 1:
        ck.note('the remaining rules of C37 are stated over the local record buffer and were not evaluated')
        return
    # ... and the shared stream receives exactly that buffer, in one insertion
    clog_ins = [i for i in lg.walk() if lg.nodes[i]['k'] == 'CXXOperatorCallExpr' and lg.nodes[i].get('op') == '<<' and
                any(lg.nodes[j]['k'] == 'DeclRefExpr' and lg.nodes[j].get('q') in ('std::clog', 'std::cerr', 'std::cout') for j in lg.walk(lg.kids(i)[1])) ]
    whole = [i for i in clog_ins if any((lg.nodes[j].get('callee') or '').endswith('::str') and any(lg.nodes[x]['k'] == 'DeclRefExpr' and lg.nodes[x].get('d') == oss[0] for x in lg.walk(j))
                                        for j in lg.walk(lg.kids(i)[2]))]
    ck.ob('C37.sink', 'C37.sink/single-write', len(clog_ins) == 1 and len(whole) == 1, lg.loc(clog_ins[0]) if clog_ins else lg.loc(),
          'the log stream receives the record in exactly one insertion, of the assembled buffer (found %d insertion(s))' % len(clog_ins))
    ins = stream_insertions(lg, oss[0])
    ck.floor('C37.sink', 'stream insertions in StructuredLogger::log', len(ins), 15)
    shape = []
    esc_args = []
    for n in ins:
        lit = literal_text(lg, n)
        m = lg.strip(n)
        nd = lg.nodes[m]
        if lit is not None:
            shape.append(lit)
        elif nd.get('callee') == SL + 'escape_json':
            shape.append('<E>')
            esc_args.append(lg.text(lg.call_args(m)[0]))
        else:
            shape.append('<RAW:%s>' % lg.text(m)[:40])
    want = ['{', '"ts":"', '<E>', '",', '"level":"', '<E>', '",', '"event":"', '<E>', '"', ',"fields":{', '"', '<E>', '":"', '<E>', '"', ',', '}', '}\n']
    ck.ob('C37.sink', 'C37.sink/skeleton', shape == want, lg.loc(),
          'the record is the fixed JSON skeleton with escape_json(...) at every string position (found %s)' % shape)
    ck.ob('C37.sink', 'C37.sink/no-raw-insertions', not any(s.startswith('<RAW') for s in shape), lg.loc(),
          'no string reaches the record without passing escape_json')
    lits = ''.join(s for s in shape if not s.startswith('<'))
    ck.ob('C37.sink', 'C37.sink/one-line', lits.count('\n') == 1 and lits.endswith('\n') and '\r' not in lits, lg.loc(),
          'the literals contain exactly one line break, at the very end')
    # what is escaped: timestamp, level name, event, key, value
    ev_d = lg.params[1]['d']
    base = [x.split('.operator')[0] for x in esc_args]
    ok_args = len(base) == 5 and base[0] == 'timestamp' and 'level_to_string(level)' in base[1] and base[2] == lg.params[1]['n'] \
        and base[3] == 'key' and base[4] == 'value'
    ck.ob('C37.sink', 'C37.sink/escaped-operands', ok_args, lg.loc(), 'escape_json is applied to timestamp, level name, event, key and value (found %s)' % esc_args)
    # key/value are the bindings of fields[i], i over the whole list; the separating comma only between entries
    fl = [l for l in loops(lg) if lg.nodes[l]['k'] == 'ForStmt']
    okl = False
    if len(fl) == 1:
        c = comparison(lg, lg.nodes[fl[0]]['cond'])
        okl = bool(c) and c[0] == '<' and lg.nodes[lg.strip(c[2])].get('callee', '').endswith('::size') and \
            declref(lg, lg.receiver(lg.strip(c[2])), lg.params[2]['d']) is not None and \
            not [j for j in lg.walk(lg.nodes[fl[0]]['body']) if lg.nodes[j]['k'] in ('BreakStmt', 'ContinueStmt', 'ReturnStmt')]
        commas = [j for j in lg.walk(lg.nodes[fl[0]]['body']) if lg.nodes[j]['k'] == 'IfStmt']
        if okl and len(commas) == 1:
            cc = comparison(lg, lg.nodes[commas[0]]['cond'])
            okl = bool(cc) and cc[0] == '<' and lg.nodes[lg.strip(cc[1])].get('op') == '+' and const_value(lg, lg.kids(lg.strip(cc[1]))[1]) == 1
        else:
            okl = False
    ck.ob('C37.sink', 'C37.sink/all-fields', okl, lg.loc(), 'every field of the list is emitted, separated by commas only between entries (i + 1 < size)')
    # one write to clog, under the mutex
    locks = [i for i in lg.walk() if lg.nodes[i]['k'] == 'VarDecl' and 'scoped_lock' in lg.nodes[i].get('t', '') or
             lg.nodes[i]['k'] == 'VarDecl' and 'lock_guard' in lg.nodes[i].get('t', '')]
    clog = [i for i in lg.walk() if lg.nodes[i]['k'] == 'CXXOperatorCallExpr' and lg.nodes[i].get('op') == '<<' and
            any(lg.nodes[j].get('n') == 'clog' for j in lg.walk(lg.kids(i)[1]))]
    cfg = Cfg.of(lg)
    ok_w = len(locks) == 1 and len(clog) == 1 and cfg.dominates(cfg.locate(locks[0]), cfg.locate(clog[0])) and \
        any(lg.nodes[j].get('callee', '').endswith('::str') and declref(lg, lg.receiver(j), oss[0]) is not None for j in lg.walk(lg.kids(clog[0])[2]))
    ck.ob('C37.sink', 'C37.sink/single-write-under-lock', ok_w, lg.loc(), 'the finished record is written to std::clog in one insertion while mutex_ is held')
    ej = P.fn(SL + 'escape_json')
    ok_d = any(ej.nodes[i].get('callee', '').endswith('escape_control_characters') and declref(ej, ej.call_args(i)[0], ej.params[0]['d']) is not None for i in ej.walk())
    ck.ob('C37.sink', 'C37.sink/escape_json-delegates', ok_d, ej.loc(), 'escape_json(v) is escape_control_characters(v)')

    # ---- escaper ------------------------------------------------------------------------------------------
    ef = [f for f in P.fns if f.q.endswith('::escape_control_characters')][0]
    ck.touch(ef)
    sws = [i for i in ef.walk() if ef.nodes[i]['k'] == 'SwitchStmt']
    if len(sws) != 1:
        raise AnalysisBroken('escape_control_characters is no longer a switch over the byte')
    fr = [l for l in loops(ef) if ef.nodes[l]['k'] == 'CXXForRangeStmt' and declref(ef, ef.nodes[l]['range'], ef.params[0]['d']) is not None]
    var_t = ef.nodes[ef.nodes[fr[0]]['var']].get('t', '') if fr else ''
    ck.ob('C37.escape', 'C37.escape/whole-value-unsigned', len(fr) == 1 and ef.is_in(sws[0], fr[0]) and 'unsigned char' in var_t and
          not [j for j in ef.walk(fr[0]) if ef.nodes[j]['k'] in ('ContinueStmt', 'ReturnStmt', 'GotoStmt')], ef.loc(),
          'the escaper visits every byte of the value as an unsigned char')
    tab = switch_table(ef, sws[0])
    esc = {}
    for k, stmts in tab.items():
        if k == 'default':
            continue
        texts = [ef.nodes[j].get('s', '') for st in stmts for j in ef.walk(st) if ef.nodes[j]['k'] == 'StringLiteral']
        esc[k] = ''.join(texts)
    want_tab = {34: '\\"', 92: '\\\\', 8: '\\b', 12: '\\f', 10: '\\n', 13: '\\r', 9: '\\t'}
    ck.extra['escape_table'] = {str(k): v for k, v in esc.items()}
    for k, v in sorted(want_tab.items()):
        if k in (34, 92):
            ck.ob('C37.escape', 'C37.escape/byte-%d' % k, esc.get(k) == v, ef.loc(), 'byte %d is written as %s (found %r)' % (k, v, esc.get(k)))
        else:
            # short form or the generic \u00XX branch are both valid JSON
            ck.ob('C37.escape', 'C37.escape/byte-%d' % k, esc.get(k, v) == v, ef.loc(), 'byte %d is written as %s or \\u00XX (found %r)' % (k, v, esc.get(k)))
    extra = {k: v for k, v in esc.items() if k not in want_tab}
    ck.ob('C37.escape', 'C37.escape/no-other-rewrites', all(isinstance(k, int) and k < 0x20 and v.startswith('\\') for k, v in extra.items()), ef.loc(),
          'no byte >= 0x20 other than the quote and the backslash is rewritten (extra cases: %s)' % extra)
    # default branch
    dstm = tab.get('default', [])
    ifs = [j for st in dstm for j in ef.walk(st) if ef.nodes[j]['k'] == 'IfStmt']
    okd = False
    if len(ifs) == 1:
        c = comparison(ef, ef.nodes[ifs[0]]['cond'])
        then, els = ef.nodes[ifs[0]].get('then'), ef.nodes[ifs[0]].get('else')
        if c and c[0] == '<' and const_value(ef, c[2]) == 0x20 and els is not None:
            tl = [ef.nodes[j].get('s') for j in ef.walk(then) if ef.nodes[j]['k'] == 'StringLiteral']
            manip = {ef.nodes[j].get('n') or ef.nodes[j].get('callee', '').split('::')[-1] for j in ef.walk(then)}
            w4 = any(ef.nodes[j].get('callee') == 'std::setw' and const_value(ef, ef.call_args(j)[0]) == 4 for j in ef.walk(then))
            f0 = any(ef.nodes[j].get('callee', '').startswith('std::setfill') and const_value(ef, ef.call_args(j)[0]) == 48 for j in ef.walk(then))
            hexm = any(ef.nodes[j]['k'] == 'DeclRefExpr' and ef.nodes[j].get('n') == 'hex' for j in ef.walk(then))
            asint = any(ef.nodes[j]['k'] in ('CXXStaticCastExpr', 'CStyleCastExpr') and ef.nodes[j].get('t') in ('int', 'unsigned int') for j in ef.walk(then))
            copies = [j for j in ef.walk(els) if ef.nodes[j].get('callee', '').endswith('::push_back')]
            okd = tl == ['\\u'] and w4 and f0 and hexm and asint and len(copies) == 1 and \
                not [j for j in ef.walk(els) if ef.nodes[j]['k'] == 'StringLiteral']
    ck.ob('C37.escape', 'C37.escape/default', okd, ef.loc(),
          'every other byte below 0x20 is written as \\u + 4 hex digits (setw 4, fill 0) and every byte >= 0x20 is copied unchanged')

"""C30 — `eph fetch` only writes bytes that match the manifest."""
import re

from sa.paths import gate_check, returns_true_only_if
from sa.flow import origin_chain
from sa.match import holds, const_value
from sa.build import AnalysisBroken
from props.common import declref

UNITS = ['src/main.cpp']
LEVEL = 'other'
EXPLANATION = (
    'R-OWN + R-GATE on the CLI. Every construction of an output file stream (std::ofstream / std::fstream / fopen) and every '
    'call of write_payload_to_file in src/main.cpp is enumerated; each one inside the fetch command (main and its nested '
    'lambdas) must (a) write exactly <response>.payload.data()/size() of the enclosing function\'s response parameter and '
    '(b) be unreachable unless <response>.has_payload is true and the digest predicate evaluated true for that same response; '
    'the predicate returns true only on !has_payload or Sha256::digest(span(payload.data(), payload.size())) == '
    'decoded_manifest->chunk_hash, where decoded_manifest is the manifest decoded from the URI given on the command line. '
    'All delivery paths (transport hint, relay, control hint, control:// fallback, local daemon) end in that one writer.')
ASSUMPTIONS = ['SHA-256 correctness is C08; the digest is over the exact bytes written (same data()/size() pair)',
               'files written on the daemon host by the daemon itself (FETCH with OUT) are governed by C27/C11, not by the CLI']

DIGEST = 'ephemeralnet::crypto::Sha256::digest'
STREAM_CTOR = re.compile(r'^std::basic_(o|)fstream<.*>::basic_(o|)fstream$')
CR = 'ephemeralnet::daemon::ControlResponse::'


def only_payload_bytes(fn, node, resp_d):
    """The expression is built solely from <resp>.payload.data() / .size() (plus casts / span construction)."""
    seen_payload = False
    for i in fn.walk(node):
        nd = fn.nodes[i]
        k = nd['k']
        if k == 'MemberExpr' and nd.get('mk') == 'Field':
            if nd.get('m') != CR + 'payload' or declref(fn, fn.kids(i)[0], resp_d) is None:
                return False
            seen_payload = True
        elif k == 'DeclRefExpr' and nd.get('dk') in ('Var', 'ParmVar', 'Binding'):
            if nd.get('d') != resp_d:
                return False
        elif k == 'CXXMemberCallExpr':
            if nd.get('callee', '').split('::')[-1] not in ('data', 'size'):
                return False
        elif k in ('BinaryOperator', 'UnaryOperator', 'IntegerLiteral', 'ConditionalOperator', 'CallExpr', 'CXXOperatorCallExpr'):
            return False
    return seen_payload


class Verifier:
    """Recognises the accepted forms of 'these bytes hash to the manifest content hash'."""

    def __init__(self, ck, P, scope):
        self.ck, self.P, self.scope = ck, P, scope
        self.preds = {}

    def has_payload(self, f, is_resp):
        def g(fact):
            kind_, node, val = fact
            nd = f.nodes[node]
            return kind_ == 'bool' and val is True and nd['k'] == 'MemberExpr' and nd.get('m') == CR + 'has_payload' and \
                is_resp(f.kids(node)[0])
        return g

    def is_manifest_hash(self, f, n):
        m = f.strip(n)
        nd = f.nodes[m]
        if nd['k'] != 'MemberExpr' or nd.get('m') != 'ephemeralnet::protocol::Manifest::chunk_hash':
            return False
        return any(f.nodes[j]['k'] == 'DeclRefExpr' and f.nodes[j].get('n') == 'decoded_manifest' for j in f.walk(m))

    def is_digest_of_payload(self, f, n, is_resp):
        for i in origin_chain(f, n):
            if f.nodes[i].get('callee') == DIGEST:
                arg = f.call_args(i)[0]
                resp = [j for j in f.walk(arg) if f.nodes[j]['k'] == 'DeclRefExpr' and f.nodes[j].get('dk') in ('Var', 'ParmVar')]
                if not resp or not all(is_resp(j) for j in resp):
                    return False
                d = f.nodes[resp[0]]['d']
                return only_payload_bytes(f, arg, d) and \
                    {f.nodes[j].get('callee', '').split('::')[-1] for j in f.walk(arg) if f.nodes[j]['k'] == 'CXXMemberCallExpr'} == {'data', 'size'}
        return False

    def digest_gate(self, f, is_resp):
        """Pass facts: predicate-lambda(resp) == true, or digest(resp.payload) == decoded_manifest->chunk_hash."""
        def g(fact):
            kind_, node, val = fact
            nd = f.nodes[node]
            if kind_ == 'bool' and val is True and nd['k'] == 'CXXOperatorCallExpr' and nd.get('op') == '()' and len(f.kids(node)) == 3:
                obj = f.nodes[f.strip(f.kids(node)[1])]
                if obj['k'] == 'DeclRefExpr' and is_resp(f.kids(node)[2]):
                    pl = self.predicate(obj.get('n'))
                    if pl is not None:
                        return True
            h = holds(f, fact)
            if h and h[1] == '==':
                return (self.is_digest_of_payload(f, h[0], is_resp) and self.is_manifest_hash(f, h[2])) or \
                       (self.is_digest_of_payload(f, h[2], is_resp) and self.is_manifest_hash(f, h[0]))
            return False
        return g

    def predicate(self, varname):
        """The lambda bound to `varname` if it is a digest predicate: returns true only on !has_payload or hash match."""
        if varname in self.preds:
            return self.preds[varname][0]
        cands = [x for x in self.scope if x.is_lambda and x.q.endswith('::$' + (varname or '\0'))]
        res = None
        if len(cands) == 1 and cands[0].params and 'ControlResponse' in cands[0].params[0].get('t', '') and \
                cands[0].d.get('ret', 'bool') in ('bool', None):
            pl = cands[0]
            pd = pl.params[0]['d']
            is_p = lambda n: declref(pl, n, pd) is not None

            def g_ok(fact):
                kind_, node, val = fact
                nd = pl.nodes[node]
                if kind_ == 'bool' and val is False and nd['k'] == 'MemberExpr' and nd.get('m') == CR + 'has_payload' and is_p(pl.kids(node)[0]):
                    return True
                h = holds(pl, fact)
                if not h or h[1] != '==':
                    return False
                return (self.is_digest_of_payload(pl, h[0], is_p) and self.is_manifest_hash(pl, h[2])) or \
                       (self.is_digest_of_payload(pl, h[2], is_p) and self.is_manifest_hash(pl, h[0]))
            fl, nret = returns_true_only_if(pl, [('hash-or-nothing-to-write', g_ok)])
            if nret >= 1 and any(pl.nodes[i].get('callee') == DIGEST for i in pl.walk()):
                res = pl
                self.preds[varname] = (pl, fl)
                return pl
        self.preds[varname] = (None, None)
        return None

    def by_construction(self, g, arg):
        """arg is a local ControlResponse whose payload is assigned once, from the result of decrypt_chunk_with_manifest."""
        from props.common import field_assigns
        d = declref(g, arg)
        if d is None:
            return False
        fa = field_assigns(g, d).get(CR + 'payload', [])
        if len(fa) != 1:
            return False
        return any(g.nodes[i].get('callee', '').endswith('decrypt_chunk_with_manifest') for i in origin_chain(g, fa[0][0]))

    def finish(self):
        used = [(n, pl, fl) for n, (pl, fl) in self.preds.items() if pl is not None]
        for n, pl, fl in used:
            self.ck.touch(pl)
            self.ck.ob('C30.pred', 'C30.pred/%s' % pl.name, not fl, pl.loc(),
                       '%s returns true only if the response carries no payload or Sha256::digest(payload.data(), payload.size()) == '
                       'decoded_manifest->chunk_hash' % pl.name, fl[0][2] if fl else None)


def run(ck):
    P = ck.prog(UNITS)
    main = P.fn('main')
    scope = P.with_lambdas(main)
    for f in scope:
        ck.touch(f)
    # ---- enumerate file writers in the unit -------------------------------------------------
    writers = []          # (fn, node, kind)
    helper_writers = []
    for f in P.fns:
        if not f.file.endswith('src/main.cpp'):
            continue
        for i in f.walk():
            nd = f.nodes[i]
            c = nd.get('callee', '')
            if (nd['k'] in ('CXXConstructExpr', 'CXXTemporaryObjectExpr') and STREAM_CTOR.match(c) and f.kids(i)) or c in ('fopen', 'std::fopen', 'open', 'creat'):
                path_arg = f.call_args(i)[0] if f.call_args(i) else None
                if path_arg is not None and f.nodes[f.strip(path_arg)]['k'] == 'StringLiteral':
                    ck.note('open of the fixed path %s at %s is not an output chosen by the user' % (f.text(path_arg), f.loc(i)))
                    continue
                (writers if f in scope else helper_writers).append((f, i, 'stream'))
    helper_fns = {f.q for f, _i, _k in helper_writers}
    for f in scope:
        for i in f.walk():
            if f.nodes[i].get('callee') in helper_fns:
                writers.append((f, i, 'helper:' + f.nodes[i]['callee']))
    # output streams of the fetch command are those opened on resolved_output; other commands (store reads via ifstream) are not writers
    fetch_writers = []
    for f, i, kind in writers:
        args = f.call_args(i)
        tgt = f.nodes[f.strip(args[0])] if args else {}
        if tgt.get('n') == 'resolved_output' or kind.startswith('helper'):
            fetch_writers.append((f, i, kind))
        else:
            ck.note('output stream on %s at %s is not part of the fetch command' % (f.text(args[0]) if args else '?', f.loc(i)))
    ck.floor('C30.own', 'output-file writers of the fetch command', len(fetch_writers), 1)
    # the output path is never produced by a filesystem-level copy / move / link: such a file's bytes were never hashed here
    # the verified payload replaces the file: the output stream is opened with a constant mode that truncates (no in / app / ate bit)
    IN_, OUT_, ATE_, APP_, TRUNC_, BIN_ = 8, 16, 2, 1, 32, 4          # std::ios_base::openmode bits of libstdc++
    for f, w, kind in fetch_writers:
        if kind != 'stream' or f.nodes[w]['k'] not in ('CXXConstructExpr', 'CXXTemporaryObjectExpr'):
            continue
        a_ = [x for x in f.call_args(w) if f.nodes[x]['k'] != 'CXXDefaultArgExpr']
        mode = const_value(f, a_[1]) if len(a_) > 1 else OUT_
        ok_mode = mode is not None and not (mode & (IN_ | ATE_ | APP_))
        ck.ob('C30.flow', 'C30.flow/%s/truncating-open' % f.name, ok_mode, f.loc(w),
              'the fetch output is opened write-only with a constant mode without in/app/ate, i.e. truncated: no byte of an earlier file survives '
              'behind the verified payload (mode value: %s)' % mode)
    FS_PRODUCERS = ('std::filesystem::resize_file', 'truncate', 'ftruncate', 'std::filesystem::copy_file', 'std::filesystem::copy', 'std::filesystem::rename', 'std::filesystem::create_hard_link',
                    'std::filesystem::create_symlink', 'rename', 'std::rename', 'link', 'symlink')
    fs_made = []
    for f in scope:
        for i in f.walk():
            c = f.nodes[i].get('callee') or ''
            if c in FS_PRODUCERS:
                a = f.call_args(i)
                tgt_ix = 0 if c.endswith(('resize_file', 'truncate')) else 1
                if len(a) > tgt_ix and any(f.nodes[j]['k'] == 'DeclRefExpr' and f.nodes[j].get('n') == 'resolved_output' for j in f.walk(a[tgt_ix])):
                    fs_made.append((f, i, c))
    ck.ob('C30.own', 'C30.own/no-filesystem-level-producer', not fs_made, fs_made[0][0].loc(fs_made[0][1]) if fs_made else '',
          'the fetch command never creates, extends or shrinks its output by copying, renaming, linking or resizing (bytes that were not hashed against the manifest)'
          + ('' if not fs_made else ' — %s' % fs_made[0][2]))

    for f, w, kind in fetch_writers:
        key = 'C30.gate/%s' % f.name
        if not f.params or 'ControlResponse' not in f.params[0].get('t', ''):
            ck.ob('C30.own', key + '/writer-shape', False, f.loc(w),
                  'an output file of the fetch command is written outside a function that receives the ControlResponse to verify')
            continue
        resp_d = f.params[0]['d']
        # (a) what is written
        writes = [i for i in f.walk() if f.nodes[i].get('callee', '').endswith('::write') and 'ostream' in f.nodes[i].get('callee', '')]
        ck.floor('C30.flow', 'ostream::write calls in %s' % f.name, len(writes), 1)
        for wr in writes:
            a = f.call_args(wr)
            ck.ob('C30.flow', key + '/writes-response-payload', only_payload_bytes(f, a[0], resp_d) and only_payload_bytes(f, a[1], resp_d),
                  f.loc(wr), 'the bytes written are exactly <response>.payload.data() .. size()')

        # (b) the digest gate, inside the writer or at every call site of the writer
        v = Verifier(ck, P, scope)
        fails, _ = gate_check(f, [('open output file', w)], [('has_payload', v.has_payload(f, lambda n: declref(f, n, resp_d) is not None))])
        ck.ob('C30.gate', key + '/has_payload', not fails, f.loc(w),
              'the output file is opened only past <response>.has_payload', fails[0][3] if fails else None)
        fails, _ = gate_check(f, [('open output file', w)], [('digest', v.digest_gate(f, lambda n: declref(f, n, resp_d) is not None))])
        if not fails:
            ck.ob('C30.gate', key + '/digest-in-writer', True, f.loc(w),
                  'the output file is opened only past a digest check of the response being written')
        else:
            # fall back to call-site dominance: every call of the writer passes a verified response
            sites = []
            for g in scope:
                for i in g.walk():
                    nd = g.nodes[i]
                    if nd['k'] == 'CXXOperatorCallExpr' and nd.get('op') == '()' and len(g.kids(i)) >= 3:
                        obj = g.nodes[g.strip(g.kids(i)[1])]
                        if obj['k'] == 'DeclRefExpr' and f.q.endswith('::$' + obj.get('n', '\0')):
                            sites.append((g, i, g.kids(i)[2]))
            ck.floor('C30.gate', 'call sites of the writer %s' % f.name, len(sites), 1)
            for g, site, arg in sites:
                ok = v.by_construction(g, arg)
                wit = None
                if not ok:
                    same = lambda n, g=g, arg=arg: g.text(g.strip(n)) == g.text(g.strip(arg))
                    fl, _ = gate_check(g, [('call writer', site)], [('digest', v.digest_gate(g, same))])
                    ok = not fl
                    wit = fl[0][3] if fl else None
                ck.ob('C30.gate', 'C30.gate/%s/call-in-%s' % (f.name, g.name), ok, g.loc(site),
                      'the writer is called only with a response whose payload was verified against the manifest hash '
                      '(digest predicate true, or payload produced by decrypt_chunk_with_manifest)', wit)
        v.finish()
    # decoded_manifest is the manifest decoded from the command-line URI (single assignment from decode_manifest, else nullopt)
    dm_defs = []
    for i in main.walk():
        nd = main.nodes[i]
        if nd['k'] == 'CXXOperatorCallExpr' and nd.get('op') == '=' and len(main.kids(i)) == 3:
            l = main.nodes[main.strip(main.kids(i)[1])]
            if l['k'] == 'DeclRefExpr' and l.get('n') == 'decoded_manifest':
                r = main.strip(main.kids(i)[2])
                dm_defs.append((i, main.nodes[r].get('callee'), 'nullopt' in main.text(r)))
    ck.floor('C30.flow', 'assignments of decoded_manifest', len(dm_defs), 1)
    ok = all(c == 'ephemeralnet::protocol::decode_manifest' or isnull for _i, c, isnull in dm_defs) and \
        any(c == 'ephemeralnet::protocol::decode_manifest' for _i, c, _n in dm_defs)
    ck.ob('C30.flow', 'C30.flow/decoded_manifest', ok, main.loc(dm_defs[0][0]),
          'decoded_manifest is only ever assigned decode_manifest(<uri>) or nullopt')

"""C35 — no remote input can crash the node or the daemon (exception-escape part + delegated parser safety)."""
from sa import build
from sa.escape import Escape, short
from sa.paths import gate_check
from sa.match import holds, const_value
from sa.build import AnalysisBroken

LEVEL = 'other'
EXPLANATION = (
    'R-ESC over the whole program (31 units): exception-escape sets are computed for every function (explicit throws, std calls '
    'that throw on input — sto*, at(), optional::value, std::get<variant>, throwing std::filesystem overloads — callee sets, '
    'std::function calls resolved by signature to every bound callable, minus enclosing handlers; fixpoint). Obligations: the '
    'escape set of every thread entry (callables handed to std::thread), of every destructor and of every noexcept function is '
    'empty; both main() functions let nothing escape but start-up resource failures. Each failure prints the call path down to '
    'the throw site. R-REC: no recursive cycle is reachable from a thread entry. R-GATE: the control request reader bounds every '
    'line (kMaxLineLength) and sizes the body buffer only past the PAYLOAD-LENGTH limit check.')
ASSUMPTIONS = ['std::bad_alloc and std::system_error raised by OS-resource failures (epoll/kqueue/eventfd creation, thread start) are out '
               'of scope: the property speaks of remote input',
               'position-guarded std calls (substr(pos), erase(pos)) are not modelled as throwing',
               'memory safety of the remote-facing parsers is decided by C16, C18, C33 and C26; data races by C36',
               'liveness under slow-loris input on the single control thread is not decided']

POLICY_TYPES = {'std::system_error': 'OS resource failure (epoll/kqueue/eventfd/pipe creation or registration)'}


def thread_entries(P):
    out = {}
    for f in P.fns:
        for i in f.walk():
            nd = f.nodes[i]
            if nd.get('callee') == 'std::thread::thread' and f.kids(i):
                tg = None
                for j in f.walk(i):
                    jn = f.nodes[j]
                    if jn['k'] == 'LambdaExpr' and jn.get('fn'):
                        tg = jn['fn']
                        break
                    if jn['k'] == 'DeclRefExpr' and jn.get('dk') in ('CXXMethod', 'Function') and jn.get('q') in P.by_q:
                        tg = jn['q']
                        break
                if tg:
                    out.setdefault(tg, []).append('%s (%s)' % (short(f.q), f.loc(i)))
    return out


def run(ck):
    units = ck.all_units()
    P = ck.prog(units)

    def policy(fn, node, typ):
        return POLICY_TYPES.get(typ)
    E = Escape(P, policy_excluded=policy)
    ck.extra['escape'] = {'functions': len(P.fns), 'fixpoint_rounds': E.rounds,
                          'std_function_bindings': sorted({'%s <- %s' % (s[:70], short(t)) for s, t, _f in E.binding_sites}),
                          'policy_excluded_throw_sites': sorted({'%s %s: %s' % (l, t, r) for _q, l, t, r in E.policy_hits})}
    for f in P.fns:
        ck.functions_analysed.add(f.q)

    def oblige(rule, key, q, what, site):
        esc = E.esc.get(q, {})
        wit = []
        for t in sorted(esc):
            wit.append('%s: %s' % (t, ' | '.join(E.path(q, t))))
        ck.ob(rule, key, not esc, site, what + (' — escaping: %s' % sorted(esc) if esc else ''), wit or None)

    # ---- thread entries ---------------------------------------------------------------------------
    te = thread_entries(P)
    ck.floor('C35.thread', 'thread entry points (callables handed to std::thread)', len(te), 4)
    for q, spawns in sorted(te.items()):
        f = P.by_q[q][0]
        oblige('C35.thread', 'C35.thread/' + short(q), q, 'no exception leaves the thread entry %s (spawned in %s)' % (short(q), spawns[0]), f.loc())
    # ---- destructors / noexcept ---------------------------------------------------------------------
    n = 0
    for f in P.fns:
        if f.kind == 'dtor' or f.noexcept:
            n += 1
            oblige('C35.noexcept', 'C35.noexcept/%s' % short(f.q) + ('' if f.kind != 'dtor' else ''), f.q,
                   'no exception leaves the %s %s' % ('destructor' if f.kind == 'dtor' else 'noexcept function', short(f.q)), f.loc())
    ck.floor('C35.noexcept', 'destructors and noexcept functions in product code', n, 20)
    # ---- main ---------------------------------------------------------------------------------------
    mains = P.by_q.get('main', [])
    ck.floor('C35.main', 'main functions (eph, relay)', len(mains), 2)
    oblige('C35.main', 'C35.main/escape', 'main', 'nothing but start-up resource failures escapes main()', mains[0].loc())

    # ---- periodic entry driven by the daemon's main loop ----------------------------------------------
    tq = 'ephemeralnet::Node::tick'
    if tq not in P.by_q:
        raise AnalysisBroken('Node::tick not found')
    oblige('C35.tick', 'C35.tick/Node::tick', tq, 'no exception leaves Node::tick (it runs on the daemon main loop and replays state learned from '
           'remote peers: pending fetches, announces, endpoints)', P.by_q[tq][0].loc())

    # ---- recursion reachable from thread entries -----------------------------------------------------
    edges = {}
    for f in P.fns:
        outs = edges.setdefault(f.q, set())
        for i in f.walk():
            nd = f.nodes[i]
            c = nd.get('callee')
            if c in E.esc:
                outs.add(c)
            elif c and c.startswith('std::function<') and c.endswith('::operator()'):
                sig = c[len('std::function<'):c.rfind('>::')]
                outs |= E.bindings.get(sig, set())
    reach = set()
    work = list(te)
    while work:
        q = work.pop()
        if q in reach:
            continue
        reach.add(q)
        work.extend(edges.get(q, ()))
    from props.C38 import sccs
    import sys
    sys.setrecursionlimit(10000)
    cyc = [c for c in sccs(reach, edges) if len(c) > 1 or c[0] in edges.get(c[0], ())]
    # close_session <-> detach_partner style mutual recursion is bounded by state, not by input: list, do not fail, unless it
    # contains a parser (function whose name starts with parse_ / decode)
    bad = [c for c in cyc if any(x.split('::')[-1].startswith(('parse', 'decode')) for x in c)]
    ck.ob('C35.rec', 'C35.rec/no-input-recursion', not bad, '', 'no recursive parser cycle is reachable from a thread entry (cycles found: %s)'
          % [[short(x) for x in c] for c in cyc][:4])
    ck.extra['reachable_from_threads'] = len(reach)

    # ---- request reader bounds (ControlServer) -------------------------------------------------------
    CS = 'ephemeralnet::daemon::'
    rl = [f for f in P.fns if f.q.endswith('::recv_line') and 'ControlServer.cpp' in f.file]
    ck.floor('C35.bound', 'recv_line in ControlServer.cpp', len(rl), 1)
    f = rl[0]
    ck.touch(f)
    pushes = [i for i in f.walk() if f.nodes[i].get('callee', '').endswith(('::push_back', '::operator+=', '::append'))]

    from sa.paths import must_pass_before_next_iteration, loops, Cfg
    from sa.match import comparison
    cfg = Cfg.of(f)
    limits = []
    for i in f.walk():
        c = comparison(f, i)
        if c and c[0] in ('>', '>=', '<', '<=') and any('kMaxLineLength' in (f.nodes[j].get('n') or '') for x in (c[1], c[2]) for j in f.walk(x)):
            # the exceeding edge must leave the function
            anc = [a for a in f.ancestors(i) if f.nodes[a]['k'] == 'IfStmt']
            leaves = bool(anc) and any(f.nodes[j]['k'] in ('ReturnStmt', 'CXXThrowExpr') for j in f.walk(f.nodes[anc[0]].get('then')))
            if leaves:
                limits.append(i)
    lps = loops(f)
    ck.floor('C35.bound', 'line appends in recv_line', len(pushes), 1)
    ok = bool(limits) and bool(lps)
    wit = None
    for p in pushes:
        lp = [l for l in lps if f.is_in(p, l)]
        if not lp:
            continue
        # either the limit test dominates the append, or it follows it before the next iteration
        dom = any(cfg.dominates(cfg.locate(l_), cfg.locate(p)) and f.is_in(l_, lp[-1]) for l_ in limits)
        w = None if dom else must_pass_before_next_iteration(f, cfg.locate(p)[0], lambda e: e in limits or any(f.is_in(l_, e) for l_ in limits) and f.nodes[e]['k'] == 'IfStmt', lp[-1])
        if w is not None:
            ok = False
            wit = w
    ck.ob('C35.bound', 'C35.bound/recv_line', ok, f.loc(),
          'every byte appended to a control line is counted against kMaxLineLength in the same iteration, and exceeding it ends the read', wit)

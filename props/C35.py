"""C35 — no remote input can crash the node or the daemon (exception-escape part + delegated parser safety)."""
from sa import build
from sa.escape import Escape, short
from sa.paths import gate_check
from sa.match import holds, const_value
from sa.build import AnalysisBroken

LEVEL = 'other'
EXPLANATION = (
    'R-ESC over the whole program (31 units): exception-escape sets are computed for every function (explicit throws, std calls '
    'that throw on input — sto*, at(), optional::value, std::get<variant>, throwing std::filesystem overloads — callee sets, '
    'std::function calls resolved by signature to every bound callable, minus enclosing handlers; fixpoint). Obligations: the '
    'escape set of every thread entry (callables handed to std::thread), of every destructor and of every noexcept function is '
    'empty; both main() functions let nothing escape but start-up resource failures. Each failure prints the call path down to '
    'the throw site. R-REC: no recursive cycle is reachable from a thread entry. R-GATE: the control request reader bounds every '
    'line (kMaxLineLength) and sizes the body buffer only past the PAYLOAD-LENGTH limit check.')
ASSUMPTIONS = ['std::bad_alloc and std::system_error raised by OS-resource failures (epoll/kqueue/eventfd creation, thread start) are out '
               'of scope: the property speaks of remote input',
               'position-guarded std calls (substr(pos), erase(pos)) are not modelled as throwing',
               'memory safety of the remote-facing parsers is decided by C16, C18, C33 and C26; data races by C36',
               'liveness under slow-loris input on the single control thread is not decided']

POLICY_TYPES = {'std::system_error': 'OS resource failure (epoll/kqueue/eventfd/pipe creation or registration)'}


def thread_entries(P):
    out = {}
    for f in P.fns:
        for i in f.walk():
            nd = f.nodes[i]
            if nd.get('callee') == 'std::thread::thread' and f.kids(i):
                tg = None
                for j in f.walk(i):
                    jn = f.nodes[j]
                    if jn['k'] == 'LambdaExpr' and jn.get('fn'):
                        tg = jn['fn']
                        break
                    if jn['k'] == 'DeclRefExpr' and jn.get('dk') in ('CXXMethod', 'Function') and jn.get('q') in P.by_q:
                        tg = jn['q']
                        break
                if tg:
                    out.setdefault(tg, []).append('%s (%s)' % (short(f.q), f.loc(i)))
    return out


def run(ck):
    units = ck.all_units()
    P = ck.prog(units)

    def policy(fn, node, typ):
        return POLICY_TYPES.get(typ)
    E = Escape(P, policy_excluded=policy)
    ck.extra['escape'] = {'functions': len(P.fns), 'fixpoint_rounds': E.rounds,
                          'std_function_bindings': sorted({'%s <- %s' % (s[:70], short(t)) for s, t, _f in E.binding_sites}),
                          'policy_excluded_throw_sites': sorted({'%s %s: %s' % (l, t, r) for _q, l, t, r in E.policy_hits})}
    for f in P.fns:
        ck.functions_analysed.add(f.q)

    def oblige(rule, key, q, what, site):
        esc = E.esc.get(q, {})
        wit = []
        for t in sorted(esc):
            wit.append('%s: %s' % (t, ' | '.join(E.path(q, t))))
        ck.ob(rule, key, not esc, site, what + (' — escaping: %s' % sorted(esc) if esc else ''), wit or None)

    # ---- thread entries ---------------------------------------------------------------------------
    te = thread_entries(P)
    ck.floor('C35.thread', 'thread entry points (callables handed to std::thread)', len(te), 4)
    for q, spawns in sorted(te.items()):
        f = P.by_q[q][0]
        oblige('C35.thread', 'C35.thread/' + short(q), q, 'no exception leaves the thread entry %s (spawned in %s)' % (short(q), spawns[0]), f.loc())
    # ---- destructors / noexcept ---------------------------------------------------------------------
    n = 0
    for f in P.fns:
        if f.kind == 'dtor' or f.noexcept:
            n += 1
            oblige('C35.noexcept', 'C35.noexcept/%s' % short(f.q) + ('' if f.kind != 'dtor' else ''), f.q,
                   'no exception leaves the %s %s' % ('destructor' if f.kind == 'dtor' else 'noexcept function', short(f.q)), f.loc())
    ck.floor('C35.noexcept', 'destructors and noexcept functions in product code', n, 20)
    # ---- main ---------------------------------------------------------------------------------------
    mains = P.by_q.get('main', [])
    ck.floor('C35.main', 'main functions (eph, relay)', len(mains), 2)
    oblige('C35.main', 'C35.main/escape', 'main', 'nothing but start-up resource failures escapes main()', mains[0].loc())

    # ---- periodic entry driven by the daemon's main loop ----------------------------------------------
    tq = 'ephemeralnet::Node::tick'
    if tq not in P.by_q:
        raise AnalysisBroken('Node::tick not found')
    oblige('C35.tick', 'C35.tick/Node::tick', tq, 'no exception leaves Node::tick (it runs on the daemon main loop and replays state learned from '
           'remote peers: pending fetches, announces, endpoints)', P.by_q[tq][0].loc())

    # ---- recursion reachable from thread entries -----------------------------------------------------
    edges = {}
    for f in P.fns:
        outs = edges.setdefault(f.q, set())
        for i in f.walk():
            nd = f.nodes[i]
            c = nd.get('callee')
            if c in E.esc:
                outs.add(c)
            elif c and c.startswith('std::function<') and c.endswith('::operator()'):
                sig = c[len('std::function<'):c.rfind('>::')]
                outs |= E.bindings.get(sig, set())
    reach = set()
    work = list(te)
    while work:
        q = work.pop()
        if q in reach:
            continue
        reach.add(q)
        work.extend(edges.get(q, ()))
    from props.C38 import sccs
    import sys
    sys.setrecursionlimit(10000)
    cyc = [c for c in sccs(reach, edges) if len(c) > 1 or c[0] in edges.get(c[0], ())]
    # close_session <-> detach_partner style mutual recursion is bounded by state, not by input: list, do not fail, unless it
    # contains a parser (function whose name starts with parse_ / decode)
    bad = [c for c in cyc if any(x.split('::')[-1].startswith(('parse', 'decode')) for x in c)]
    ck.ob('C35.rec', 'C35.rec/no-input-recursion', not bad, '', 'no recursive parser cycle is reachable from a thread entry (cycles found: %s)'
          % [[short(x) for x in c] for c in cyc][:4])
    ck.extra['reachable_from_threads'] = len(reach)

    # ---- request reader bounds (ControlServer) -------------------------------------------------------
    CS = 'ephemeralnet::daemon::'
    rl = [f for f in P.fns if f.q.endswith('::recv_line') and 'ControlServer.cpp' in f.file]
    ck.floor('C35.bound', 'recv_line in ControlServer.cpp', len(rl), 1)
    f = rl[0]
    ck.touch(f)
    pushes = [i for i in f.walk() if f.nodes[i].get('callee', '').endswith(('::push_back', '::operator+=', '::append'))]

    from sa.paths import must_pass_before_next_iteration, loops, Cfg
    from sa.match import comparison
    cfg = Cfg.of(f)
    limits = []
    for i in f.walk():
        c = comparison(f, i)
        if c and c[0] in ('>', '>=', '<', '<=') and any('kMaxLineLength' in (f.nodes[j].get('n') or '') for x in (c[1], c[2]) for j in f.walk(x)):
            # the exceeding edge must leave the function
            anc = [a for a in f.ancestors(i) if f.nodes[a]['k'] == 'IfStmt']
            leaves = bool(anc) and any(f.nodes[j]['k'] in ('ReturnStmt', 'CXXThrowExpr') for j in f.walk(f.nodes[anc[0]].get('then')))
            if leaves:
                limits.append(i)
    lps = loops(f)
    ck.floor('C35.bound', 'line appends in recv_line', len(pushes), 1)
    ok = bool(limits) and bool(lps)
    wit = None
    for p in pushes:
        lp = [l for l in lps if f.is_in(p, l)]
        if not lp:
            continue
        # either the limit test dominates the append, or it follows it before the next iteration
        dom = any(cfg.dominates(cfg.locate(l_), cfg.locate(p)) and f.is_in(l_, lp[-1]) for l_ in limits)
        w = None if dom else must_pass_before_next_iteration(f, cfg.locate(p)[0], lambda e: e in limits or any(f.is_in(l_, e) for l_ in limits) and f.nodes[e]['k'] == 'IfStmt', lp[-1])
        if w is not None:
            ok = False
            wit = w
    ck.ob('C35.bound', 'C35.bound/recv_line', ok, f.loc(),
          'every byte appended to a control line is counted against kMaxLineLength in the same iteration, and exceeding it ends the read', wit)

    # ---- integer division: the divisor is provably non-zero (SIGFPE is a crash a remote manifest could cause) -------------------------
    from sa.prog import int_type as _it
    from sa.flow import all_defs as _ad35, origin_chain as _oc35
    from sa.canon import canon as _canon, norm as _norm
    from props.common import declref as _dr
    ndiv = 0
    seen_div = set()
    for f in P.fns:
        for i in f.walk():
            nd = f.nodes[i]
            if nd['k'] not in ('BinaryOperator', 'CompoundAssignOperator') or nd.get('op') not in ('/', '%', '/=', '%=') or _it(nd.get('t') or '') is None:
                continue
            d = f.kids(i)[1]
            ds = f.strip(d)
            if 'cv' in f.nodes[ds] or f.nodes[ds]['k'] == 'IntegerLiteral':
                if const_value(f, ds) == 0:
                    ck.ob('C35.div', 'C35.div/%s#%s' % (short(f.q).split('::')[-1], nd.get('l')), False, f.loc(i), 'division by the constant 0')
                continue
            if (f.file, nd.get('l'), f.q) in seen_div:
                continue
            seen_div.add((f.file, nd.get('l'), f.q))
            ndiv += 1
            ck.touch(f)
            dcan = _norm(_canon(f, d))
            why = None
            # (1) a parameter that every caller binds to a non-zero constant
            pd = _dr(f, d)
            pidx = next((k for k, p_ in enumerate(f.params) if p_.get('d') == pd), None) if pd is not None else None
            if pidx is not None:
                sites = [(g, j) for g in P.fns for j in g.walk() if g.nodes[j].get('callee') == f.q and g.nodes[j]['k'] in ('CallExpr', 'CXXMemberCallExpr')]
                if sites and all(len(g.call_args(j)) > pidx and (const_value(g, g.call_args(j)[pidx]) or 0) != 0 for g, j in sites):
                    why = 'parameter bound to a non-zero constant at all %d call sites' % len(sites)
            # (2) a local whose every definition is a non-zero constant
            if why is None and pd is not None and pidx is None:
                defs = _ad35(f, pd)
                if defs and all(r_ is not None and (const_value(f, r_) or 0) != 0 for _k, r_, _s in defs):
                    why = 'local assigned only non-zero constants'
            # (3) a dominating test D != 0 / D > 0 / D >= 1 (same canonical expression)
            if why is None:
                def g_nz(fact, f=f, dcan=dcan):
                    h = holds(f, fact)
                    if h is None:
                        return False
                    a, rel, b = h
                    for x, y, r in ((a, b, rel), (b, a, {'<': '>', '>': '<', '<=': '>=', '>=': '<=', '==': '==', '!=': '!='}[rel])):
                        if _norm(_canon(f, x)) == dcan and const_value(f, y) is not None:
                            c_ = const_value(f, y)
                            if (r == '!=' and c_ == 0) or (r == '>' and c_ >= 0) or (r == '>=' and c_ >= 1):
                                return True
                    return False
                fails, _ = gate_check(f, [('division', i)], [('divisor != 0', g_nz)])
                if not fails:
                    why = 'past a test that the divisor is not zero'
            ck.ob('C35.div', 'C35.div/%s#%s' % (short(f.q).split('::')[-1], nd.get('l')), why is not None, f.loc(i),
                  'the divisor of `%s` cannot be zero (%s)' % (f.text(i)[:50], why or 'no non-zero constant binding and no dominating non-zero test found'))
    ck.floor('C35.div', 'integer divisions by a non-constant divisor', ndiv, 3)

    # ---- no self-deadlock: a function is never called while a (non-recursive) mutex is held that it — or anything it calls —
    # acquires again; on the single control thread or a session thread that stops the service for everybody -------------------------
    from sa.lockset import Locksets
    ls = Locksets(P)
    direct = {}          # id(fn) -> {lock id: site}
    rec_locks = set()
    for f in P.fns:
        acq = {}
        for i in f.walk():
            if f.nodes[i]['k'] == 'DeclStmt':
                for lid in ls.guards_in(f, i):
                    acq.setdefault(lid, i)
                    for j in f.walk(i):
                        if f.nodes[j]['k'] == 'MemberExpr' and f.nodes[j].get('m') == lid and 'recursive' in (f.nodes[j].get('t') or ''):
                            rec_locks.add(lid)
        direct[id(f)] = acq
    trans = {k: dict(v) for k, v in direct.items()}
    changed = True
    rounds = 0
    while changed and rounds < 50:
        changed = False
        rounds += 1
        for f in P.fns:
            cur = trans[id(f)]
            for site, tgt in ls.edges[id(f)]:
                for lid, where in trans.get(id(tgt), {}).items():
                    if lid not in cur:
                        cur[lid] = (site, tgt)
                        changed = True
    n_locked_calls = 0
    dead = []
    for f in P.fns:
        for site, tgt in ls.edges[id(f)]:
            held = ls.held_at(f, site)
            if not held:
                continue
            n_locked_calls += 1
            again = [lid for lid in held if lid in trans.get(id(tgt), {}) and lid not in rec_locks and not lid.startswith(('local ', 'expr '))]
            if again:
                dead.append((f, site, tgt, again[0]))
    ck.floor('C35.lock', 'calls made while a mutex is held', n_locked_calls, 20)
    ck.extra['locks'] = {'functions_acquiring_directly': len([1 for v in direct.values() if v]), 'calls_under_lock': n_locked_calls, 'fixpoint_rounds': rounds}
    ck.ob('C35.lock', 'C35.lock/no-reacquisition', not dead, dead[0][0].loc(dead[0][1]) if dead else '',
          'no function is called while holding a non-recursive mutex that the callee (transitively) locks again (%d calls under a lock examined)%s'
          % (n_locked_calls, '' if not dead else ' — %s holds %s and calls %s' % (short(dead[0][0].q), short(dead[0][3]), short(dead[0][2].q))))

"""C35 — no remote input can crash the node or the daemon (exception-escape part + delegated parser safety)."""
from sa import build
from sa.escape import Escape, short
from sa.paths import gate_check
from sa.match import holds, const_value
from sa.build import AnalysisBroken

LEVEL = 'other'
EXPLANATION = (
    'R-ESC over the whole program (31 units): exception-escape sets are computed for every function (explicit throws, std calls '
    'that throw on input — sto*, at(), optional::value, std::get<variant>, throwing std::filesystem overloads — callee sets, '
    'std::function calls resolved by signature to every bound callable, minus enclosing handlers; fixpoint). Obligations: the '
    'escape set of every thread entry (callables handed to std::thread), of every destructor and of every noexcept function is '
    'empty; both main() functions let nothing escape but start-up resource failures. Each failure prints the call path down to '
    'the throw site. R-REC: no recursive cycle is reachable from a thread entry. R-GATE: the control request reader bounds every '
    'line (kMaxLineLength) and sizes the body buffer only past the PAYLOAD-LENGTH limit check.')
ASSUMPTIONS = ['std::bad_alloc and std::system_error raised by OS-resource failures (epoll/kqueue/eventfd creation, thread start) are out '
               'of scope: the property speaks of remote input',
               'position-guarded std calls (substr(pos), erase(pos)) are not modelled as throwing',
               'memory safety of the remote-facing parsers is decided by C16, C18, C33 and C26; data races by C36',
               'liveness under slow-loris input on the single control thread is not decided']

POLICY_TYPES = {'std::system_error': 'OS resource failure (epoll/kqueue/eventfd/pipe creation or registration)'}


def thread_entries(P):
    out = {}
    for f in P.fns:
        for i in f.walk():
            nd = f.nodes[i]
            if nd.get('callee') == 'std::thread::thread' and f.kids(i):
                tg = None
                for j in f.walk(i):
                    jn = f.nodes[j]
                    if jn['k'] == 'LambdaExpr' and jn.get('fn'):
                        tg = jn['fn']
                        break
                    if jn['k'] == 'DeclRefExpr' and jn.get('dk') in ('CXXMethod', 'Function') and jn.get('q') in P.by_q:
                        tg = jn['q']
                        break
                if tg:
                    out.setdefault(tg, []).append('%s (%s)' % (short(f.q), f.loc(i)))
    return out


def run(ck):
    units = ck.all_units()
    P = ck.prog(units)

    def policy(fn, node, typ):
        return POLICY_TYPES.get(typ)
    E = Escape(P, policy_excluded=policy)
    ck.extra['escape'] = {'functions': len(P.fns), 'fixpoint_rounds': E.rounds,
                          'std_function_bindings': sorted({'%s <- %s' % (s[:70], short(t)) for s, t, _f in E.binding_sites}),
                          'policy_excluded_throw_sites': sorted({'%s %s: %s' % (l, t, r) for _q, l, t, r in E.policy_hits})}
    for f in P.fns:
        ck.functions_analysed.add(f.q)

    def oblige(rule, key, q, what, site):
        esc = E.esc.get(q, {})
        wit = []
        for t in sorted(esc):
            wit.append('%s: %s' % (t, ' | '.join(E.path(q, t))))
        ck.ob(rule, key, not esc, site, what + (' — escaping: %s' % sorted(esc) if esc else ''), wit or None)

    # ---- thread entries ---------------------------------------------------------------------------
    te = thread_entries(P)
    ck.floor('C35.thread', 'thread entry points (callables handed to std::thread)', len(te), 4)
    for q, spawns in sorted(te.items()):
        f = P.by_q[q][0]
        oblige('C35.thread', 'C35.thread/' + short(q), q, 'no exception leaves the thread entry %s (spawned in %s)' % (short(q), spawns[0]), f.loc())
    # ---- destructors / noexcept ---------------------------------------------------------------------
    n = 0
    for f in P.fns:
        if f.kind == 'dtor' or f.noexcept:
            n += 1
            oblige('C35.noexcept', 'C35.noexcept/%s' % short(f.q) + ('' if f.kind != 'dtor' else ''), f.q,
                   'no exception leaves the %s %s' % ('destructor' if f.kind == 'dtor' else 'noexcept function', short(f.q)), f.loc())
    ck.floor('C35.noexcept', 'destructors and noexcept functions in product code', n, 20)
    # ---- main ---------------------------------------------------------------------------------------
    mains = P.by_q.get('main', [])
    ck.floor('C35.main', 'main functions (eph, relay)', len(mains), 2)
    oblige('C35.main', 'C35.main/escape', 'main', 'nothing but start-up resource failures escapes main()', mains[0].loc())

    # ---- periodic entry driven by the daemon's main loop ----------------------------------------------
    tq = 'ephemeralnet::Node::tick'
    if tq not in P.by_q:
        raise AnalysisBroken('Node::tick not found')
    oblige('C35.tick', 'C35.tick/Node::tick', tq, 'no exception leaves Node::tick (it runs on the daemon main loop and replays state learned from '
           'remote peers: pending fetches, announces, endpoints)', P.by_q[tq][0].loc())

    # ---- recursion reachable from thread entries -----------------------------------------------------
    edges = {}
    for f in P.fns:
        outs = edges.setdefault(f.q, set())
        for i in f.walk():
            nd = f.nodes[i]
            c = nd.get('callee')
            if c in E.esc:
                outs.add(c)
            elif c and c.startswith('std::function<') and c.endswith('::operator()'):
                sig = c[len('std::function<'):c.rfind('>::')]
                outs |= E.bindings.get(sig, set())
    reach = set()
    work = list(te)
    while work:
        q = work.pop()
        if q in reach:
            continue
        reach.add(q)
        work.extend(edges.get(q, ()))
    from props.C38 import sccs
    import sys
    sys.setrecursionlimit(10000)
    cyc = [c for c in sccs(reach, edges) if len(c) > 1 or c[0] in edges.get(c[0], ())]
    # close_session <-> detach_partner style mutual recursion is bounded by state, not by input: list, do not fail, unless it
    # contains a parser (function whose name starts with parse_ / decode)
    bad = [c for c in cyc if any(x.split('::')[-1].startswith(('parse', 'decode')) for x in c)]
    ck.ob('C35.rec', 'C35.rec/no-input-recursion', not bad, '', 'no recursive parser cycle is reachable from a thread entry (cycles found: %s)'
          % [[short(x) for x in c] for c in cyc][:4])
    ck.extra['reachable_from_threads'] = len(reach)

    # ---- request reader bounds (ControlServer) -------------------------------------------------------
    CS = 'ephemeralnet::daemon::'
    rl = [f for f in P.fns if f.q.endswith('::recv_line') and 'ControlServer.cpp' in f.file]
    ck.floor('C35.bound', 'recv_line in ControlServer.cpp', len(rl), 1)
    f = rl[0]
    ck.touch(f)
    pushes = [i for i in f.walk() if f.nodes[i].get('callee', '').endswith(('::push_back', '::operator+=', '::append'))]

    from sa.paths import must_pass_before_next_iteration, loops, Cfg
    from sa.match import comparison
    cfg = Cfg.of(f)
    limits = []
    for i in f.walk():
        c = comparison(f, i)
        if c and c[0] in ('>', '>=', '<', '<=') and any('kMaxLineLength' in (f.nodes[j].get('n') or '') for x in (c[1], c[2]) for j in f.walk(x)):
            # the exceeding edge must leave the function
            anc = [a for a in f.ancestors(i) if f.nodes[a]['k'] == 'IfStmt']
            leaves = bool(anc) and any(f.nodes[j]['k'] in ('ReturnStmt', 'CXXThrowExpr') for j in f.walk(f.nodes[anc[0]].get('then')))
            if leaves:
                limits.append(i)
    lps = loops(f)
    ck.floor('C35.bound', 'line appends in recv_line', len(pushes), 1)
    ok = bool(limits) and bool(lps)
    wit = None
    for p in pushes:
        lp = [l for l in lps if f.is_in(p, l)]
        if not lp:
            continue
        # either the limit test dominates the append, or it follows it before the next iteration
        dom = any(cfg.dominates(cfg.locate(l_), cfg.locate(p)) and f.is_in(l_, lp[-1]) for l_ in limits)
        w = None if dom else must_pass_before_next_iteration(f, cfg.locate(p)[0], lambda e: e in limits or any(f.is_in(l_, e) for l_ in limits) and f.nodes[e]['k'] == 'IfStmt', lp[-1])
        if w is not None:
            ok = False
            wit = w
    ck.ob('C35.bound', 'C35.bound/recv_line', ok, f.loc(),
          'every byte appended to a control line is counted against kMaxLineLength in the same iteration, and exceeding it ends the read', wit)

    # ---- integer division: the divisor is provably non-zero (SIGFPE is a crash a remote manifest could cause) -------------------------
    from sa.prog import int_type as _it
    from sa.flow import all_defs as _ad35, origin_chain as _oc35
    from sa.canon import canon as _canon, norm as _norm
    from props.common import declref as _dr
    ndiv = 0
    seen_div = set()
    for f in P.fns:
        for i in f.walk():
            nd = f.nodes[i]
            if nd['k'] not in ('BinaryOperator', 'CompoundAssignOperator') or nd.get('op') not in ('/', '%', '/=', '%=') or _it(nd.get('t') or '') is None:
                continue
            d = f.kids(i)[1]
            ds = f.strip(d)
            if 'cv' in f.nodes[ds] or f.nodes[ds]['k'] == 'IntegerLiteral':
                if const_value(f, ds) == 0:
                    ck.ob('C35.div', 'C35.div/%s#%s' % (short(f.q).split('::')[-1], nd.get('l')), False, f.loc(i), 'division by the constant 0')
                continue
            if (f.file, nd.get('l'), f.q) in seen_div:
                continue
            seen_div.add((f.file, nd.get('l'), f.q))
            ndiv += 1
            ck.touch(f)
            dcan = _norm(_canon(f, d))
            why = None
            # (1) a parameter that every caller binds to a non-zero constant
            pd = _dr(f, d)
            pidx = next((k for k, p_ in enumerate(f.params) if p_.get('d') == pd), None) if pd is not None else None
            if pidx is not None:
                sites = [(g, j) for g in P.fns for j in g.walk() if g.nodes[j].get('callee') == f.q and g.nodes[j]['k'] in ('CallExpr', 'CXXMemberCallExpr')]
                if sites and all(len(g.call_args(j)) > pidx and (const_value(g, g.call_args(j)[pidx]) or 0) != 0 for g, j in sites):
                    why = 'parameter bound to a non-zero constant at all %d call sites' % len(sites)
            # (2) a local whose every definition is a non-zero constant
            if why is None and pd is not None and pidx is None:
                defs = _ad35(f, pd)
                if defs and all(r_ is not None and (const_value(f, r_) or 0) != 0 for _k, r_, _s in defs):
                    why = 'local assigned only non-zero constants'
            # (3) a dominating test D != 0 / D > 0 / D >= 1 (same canonical expression)
            if why is None:
                def g_nz(fact, f=f, dcan=dcan):
                    h = holds(f, fact)
                    if h is None:
                        return False
                    a, rel, b = h
                    for x, y, r in ((a, b, rel), (b, a, {'<': '>', '>': '<', '<=': '>=', '>=': '<=', '==': '==', '!=': '!='}[rel])):
                        if _norm(_canon(f, x)) == dcan and const_value(f, y) is not None:
                            c_ = const_value(f, y)
                            if (r == '!=' and c_ == 0) or (r == '>' and c_ >= 0) or (r == '>=' and c_ >= 1):
                                return True
                    return False
                fails, _ = gate_check(f, [('division', i)], [('divisor != 0', g_nz)])
                if not fails:
                    why = 'past a test that the divisor is not zero'
            ck.ob('C35.div', 'C35.div/%s#%s' % (short(f.q).split('::')[-1], nd.get('l')), why is not None, f.loc(i),
                  'the divisor of `%s` cannot be zero (%s)' % (f.text(i)[:50], why or 'no non-zero constant binding and no dominating non-zero test found'))
    ck.floor('C35.div', 'integer divisions by a non-constant divisor', ndiv, 3)

    # ---- no self-deadlock: a function is never called while a (non-recursive) mutex is held that it — or anything it calls —
    # acquires again; on the single control thread or a session thread that stops the service for everybody -------------------------
    from sa.lockset import Locksets
    ls = Locksets(P)
    direct = {}          # id(fn) -> {lock id: site}
    rec_locks = set()
    for f in P.fns:
        acq = {}
        for i in f.walk():
            if f.nodes[i]['k'] == 'DeclStmt':
                for lid in ls.guards_in(f, i):
                    acq.setdefault(lid, i)
                    for j in f.walk(i):
                        if f.nodes[j]['k'] == 'MemberExpr' and f.nodes[j].get('m') == lid and 'recursive' in (f.nodes[j].get('t') or ''):
                            rec_locks.add(lid)
        direct[id(f)] = acq
    trans = {k: dict(v) for k, v in direct.items()}
    changed = True
    rounds = 0
    while changed and rounds < 50:
        changed = False
        rounds += 1
        for f in P.fns:
            cur = trans[id(f)]
            for site, tgt in ls.edges[id(f)]:
                for lid, where in trans.get(id(tgt), {}).items():
                    if lid not in cur:
                        cur[lid] = (site, tgt)
                        changed = True
    n_locked_calls = 0
    dead = []
    for f in P.fns:
        for site, tgt in ls.edges[id(f)]:
            held = ls.held_at(f, site)
            if not held:
                continue
            n_locked_calls += 1
            again = [lid for lid in held if lid in trans.get(id(tgt), {}) and lid not in rec_locks and not lid.startswith(('local ', 'expr '))]
            if again:
                dead.append((f, site, tgt, again[0]))
    ck.floor('C35.lock', 'calls made while a mutex is held', n_locked_calls, 20)
    ck.extra['locks'] = {'functions_acquiring_directly': len([1 for v in direct.values() if v]), 'calls_under_lock': n_locked_calls, 'fixpoint_rounds': rounds}
    ck.ob('C35.lock', 'C35.lock/no-reacquisition', not dead, dead[0][0].loc(dead[0][1]) if dead else '',
          'no function is called while holding a non-recursive mutex that the callee (transitively) locks again (%d calls under a lock examined)%s'
          % (n_locked_calls, '' if not dead else ' — %s holds %s and calls %s' % (short(dead[0][0].q), short(dead[0][3]), short(dead[0][2].q))))

    # ---- a container is not restructured while a range-for walks it (iterator invalidation = undefined behaviour) --------------------------
    from sa.paths import loops as _loops35
    STRUCT_MOD = ('erase', 'clear', 'insert', 'emplace', 'try_emplace', 'emplace_back', 'push_back', 'pop_back', 'resize', 'extract', 'merge', 'insert_or_assign', 'reserve', 'rehash')
    direct_mod = {}          # id(fn) -> set(member)
    for f in P.fns:
        mods = set()
        for i in f.walk():
            nd = f.nodes[i]
            if nd['k'] == 'CXXMemberCallExpr' and (nd.get('callee') or '').split('::')[-1] in STRUCT_MOD and f.receiver(i) is not None:
                rn = f.nodes[f.strip(f.receiver(i))]
                if rn['k'] == 'MemberExpr' and rn.get('mk') == 'Field' and f.kids(f.strip(f.receiver(i))) and f.nodes[f.strip(f.kids(f.strip(f.receiver(i)))[0])]['k'] == 'CXXThisExpr':
                    mods.add(rn.get('m'))
            if nd['k'] == 'CXXOperatorCallExpr' and nd.get('op') == '[]' and 'map' in (nd.get('callee') or ''):
                rn = f.nodes[f.strip(f.kids(i)[1])]
                if rn['k'] == 'MemberExpr' and rn.get('mk') == 'Field' and f.kids(f.strip(f.kids(i)[1])) and f.nodes[f.strip(f.kids(f.strip(f.kids(i)[1]))[0])]['k'] == 'CXXThisExpr':
                    mods.add(rn.get('m'))
        direct_mod[id(f)] = mods
    trans_mod = {k: set(v) for k, v in direct_mod.items()}
    ch = True
    rounds35 = 0
    while ch and rounds35 < 40:
        ch = False
        rounds35 += 1
        for f in P.fns:
            cur = trans_mod[id(f)]
            for site, tgt in ls.edges[id(f)]:
                add = trans_mod.get(id(tgt), set()) - cur
                if add:
                    cur |= add
                    ch = True
    n_rf = 0
    inval = []
    for f in P.fns:
        for l in _loops35(f):
            nd = f.nodes[l]
            if nd['k'] != 'CXXForRangeStmt':
                continue
            rng = f.nodes[f.strip(nd['range'])]
            if not (rng['k'] == 'MemberExpr' and rng.get('mk') == 'Field' and f.kids(f.strip(nd['range'])) and f.nodes[f.strip(f.kids(f.strip(nd['range']))[0])]['k'] == 'CXXThisExpr'):
                continue
            n_rf += 1
            m_ = rng.get('m')
            body = nd['body']
            for site, tgt in ls.edges[id(f)]:
                if f.is_in(site, body) and m_ in trans_mod.get(id(tgt), set()) and tgt.cls == f.cls:
                    inval.append((f, site, m_, tgt))
            for i in f.walk(body):
                n2 = f.nodes[i]
                if n2['k'] == 'CXXMemberCallExpr' and (n2.get('callee') or '').split('::')[-1] in STRUCT_MOD and f.receiver(i) is not None and \
                        f.nodes[f.strip(f.receiver(i))].get('m') == m_:
                    inval.append((f, i, m_, None))
    ck.floor('C35.iter', 'range-for loops over member containers', n_rf, 5)
    ck.ob('C35.iter', 'C35.iter/no-restructuring-while-iterating', not inval, inval[0][0].loc(inval[0][1]) if inval else '',
          'inside a range-for over a member container nothing erases from / inserts into that container, directly or through a called member function '
          '(%d loops examined)%s' % (n_rf, '' if not inval else ' — %s is modified%s inside the loop of %s' %
                                   (short(inval[0][2]), (' by ' + short(inval[0][3].q)) if inval[0][3] is not None else '', short(inval[0][0].q))))

    # ---- whole-buffer I/O loops end on end-of-stream: the offset advances only by a positive count ------------------------------------------
    from sa.flow import all_defs as _ad35b
    n_ioh = 0
    for f in P.fns:
        nm = f.q.split('::')[-1]
        if nm not in ('send_all', 'recv_all', 'recv_exact'):
            continue
        ios = [i for i in f.walk() if (f.nodes[i].get('callee') or '').lstrip(':') in ('send', 'recv')]
        res = [f.nodes[v]['d'] for v in f.walk() if f.nodes[v]['k'] == 'VarDecl' and f.nodes[v].get('init') is not None and f.nodes[v]['init'] >= 0 and any(j in ios for j in f.walk(f.nodes[v]['init']))]
        adv = [i for i in f.walk() if f.nodes[i]['k'] == 'CompoundAssignOperator' and f.nodes[i].get('op') == '+=' and
               any(f.nodes[j]['k'] == 'DeclRefExpr' and f.nodes[j].get('d') in res for j in f.walk(f.kids(i)[1]))]
        if not ios or not res or not adv:
            continue
        n_ioh += 1
        ck.touch(f)

        def positive(fact, f=f, res=res):
            h = holds(f, fact)
            if h is None:
                return False
            a, rel, b = h
            return _dr(f, a) in res and const_value(f, b) == 0 and rel == '>'
        fails, _ = gate_check(f, [('advance', a_) for a_ in adv], [('count > 0', positive)])
        ck.ob('C35.io', 'C35.io/%s/%s' % (f.file.rsplit('/', 1)[-1].split('.')[0], nm), not fails, f.loc(adv[0]),
              '%s continues its loop only after a transfer of more than 0 bytes: end-of-stream (0) and errors (< 0) leave the loop' % short(f.q), fails[0][3] if fails else None)
    ck.floor('C35.io', 'whole-buffer I/O helpers', n_ioh, 5)

    # ---- a lookup result is dereferenced only after it was compared with end() (111 sites on the pinned tree) ------------------------------------
    n_it = 0
    unchecked = []
    seen_it = set()
    for f in P.fns:
        its = {}
        for i in f.walk():
            nd = f.nodes[i]
            if nd['k'] == 'VarDecl' and nd.get('init') is not None and nd['init'] >= 0 and 'iterator' in (nd.get('t') or '') + (nd.get('ts') or '') and \
                    any((f.nodes[j].get('callee') or '').endswith(('::find', '::lower_bound', '::upper_bound')) for j in f.walk(nd['init'])):
                its[nd['d']] = nd.get('n')
        if not its:
            continue
        for i in f.walk():
            nd = f.nodes[i]
            if nd['k'] != 'CXXOperatorCallExpr' or nd.get('op') not in ('->', '*') or len(f.kids(i)) < 2:
                continue
            o = f.nodes[f.strip(f.kids(i)[1])]
            if o['k'] != 'DeclRefExpr' or o.get('d') not in its or (f.file, nd.get('l'), f.q, o.get('d')) in seen_it:
                continue
            seen_it.add((f.file, nd.get('l'), f.q, o.get('d')))
            d_ = o['d']

            def not_end(fact, f=f, d_=d_):
                h = holds(f, fact)
                if not h:
                    return False
                a, op, b = h
                for x, y in ((a, b), (b, a)):
                    if f.nodes[f.strip(x)].get('d') == d_ and op == '!=' and any((f.nodes[j].get('callee') or '').endswith(('::end', '::cend')) for j in f.walk(y)):
                        return True
                return False
            n_it += 1
            fails, _ = gate_check(f, [('deref', i)], [('it != end()', not_end)])
            if fails:
                unchecked.append((f, i, its[d_], fails[0][3]))
    for f in P.fns:
        for i in f.walk():
            nd = f.nodes[i]
            if nd['k'] == 'CXXOperatorCallExpr' and nd.get('op') in ('->', '*') and len(f.kids(i)) >= 2 and \
                    (f.nodes[f.strip(f.kids(i)[1])].get('callee') or '').endswith(('::find', '::lower_bound', '::upper_bound')) and \
                    'iterator' in (f.nodes[f.strip(f.kids(i)[1])].get('t') or ''):
                unchecked.append((f, i, 'find(...) temporary', None))
    ck.floor('C35.deref', 'dereferences of find() results', n_it, 60)
    ck.ob('C35.deref', 'C35.deref/find-result-checked', not unchecked, unchecked[0][0].loc(unchecked[0][1]) if unchecked else '',
          'an iterator obtained from find / lower_bound is dereferenced only past `it != container.end()` (%d dereferences examined)%s'
          % (n_it, '' if not unchecked else ' — `%s` in %s' % (unchecked[0][2], short(unchecked[0][0].q))), unchecked[0][3] if unchecked else None)

    # ---- a member pointer that the code treats as possibly null somewhere is tested everywhere it is dereferenced -----------------------------------
    derefs = {}
    for f in P.fns:
        if f.kind in ('ctor', 'dtor'):
            continue
        for i in f.walk():
            nd = f.nodes[i]
            if nd['k'] != 'CXXOperatorCallExpr' or nd.get('op') not in ('->', '*') or len(f.kids(i)) < 2:
                continue
            o = f.nodes[f.strip(f.kids(i)[1])]
            if o['k'] == 'MemberExpr' and o.get('mk') == 'Field' and ('unique_ptr' in (o.get('t') or '') or 'shared_ptr' in (o.get('t') or '')):
                m_ = o.get('m')

                def non_null(fact, f=f, m_=m_):
                    kind, node, val = fact
                    return kind == 'bool' and val is True and any(f.nodes[j]['k'] == 'MemberExpr' and f.nodes[j].get('m') == m_ for j in f.walk(node)) and \
                        not any(f.nodes[j]['k'] in ('CallExpr', 'CXXMemberCallExpr') and not (f.nodes[j].get('callee') or '').endswith('operator bool') for j in f.walk(node))
                fails, _ = gate_check(f, [('deref', i)], [('non-null', non_null)])
                derefs.setdefault(m_, []).append((f, i, not fails))
    inconsistent = []
    n_nullable = 0
    for m_, lst in sorted(derefs.items()):
        if any(ok for _f, _i, ok in lst):
            n_nullable += 1
            inconsistent += [(f, i, m_) for f, i, ok in lst if not ok]
    ck.floor('C35.deref', 'member pointers that are null-tested before some dereference', n_nullable, 1)
    ck.ob('C35.deref', 'C35.deref/nullable-member-always-tested', not inconsistent, inconsistent[0][0].loc(inconsistent[0][1]) if inconsistent else '',
          'a smart-pointer member that is null-tested before one dereference is null-tested before every dereference (outside constructors)'
          + ('' if not inconsistent else ' — %s is dereferenced unchecked in %s' % (short(inconsistent[0][2]), short(inconsistent[0][0].q))))

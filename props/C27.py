"""C27 — a configured control token gates STORE, FETCH and STOP (R-GATE on ControlServer)."""
from sa.paths import gate_check, Cfg
from sa.flow import derives_from, is_member
from sa.build import AnalysisBroken

UNITS = ['src/daemon/ControlServer.cpp']
LEVEL = 'other'
EXPLANATION = (
    'Must-pass-through on the clang CFG of the three state-changing control handlers: every call that '
    'stores, registers, fetches, writes a daemon-side file, streams chunk bytes or stops the daemon is '
    'unreachable once the pass edges of the token gate are cut. Token gate = {configured control_token has '
    'no value} or {constant_time_equal(configured token, TOKEN header) is true}; the token operand must derive '
    'from Config::control_token. The handlers are located through the COMMAND dispatch in handle_client.')
ASSUMPTIONS = [
    'constant_time_equal implements exact, length-checked equality (its body is checked by rule C27.cmp)',
    'effects of a handler are its calls on node_ (non-const Node methods other than config()), write_file_bytes, '
    'the stop callback, transport_stopped_.exchange and successful send_response calls',
]

IMPL = 'ephemeralnet::daemon::ControlServer::Impl::'
CTE = 'ephemeralnet::daemon::(anonymous namespace)::constant_time_equal'
TOKEN_FIELD = 'ephemeralnet::Config::control_token'
GATED_COMMANDS = ('STORE', 'FETCH', 'STOP')


def token_gate(fn):
    def is_pass(fact):
        kind, node, val = fact
        nd = fn.nodes[node]
        if kind == 'has' and val is False:
            return derives_from(fn, node, is_member(TOKEN_FIELD))
        if kind == 'bool' and val is True and nd.get('callee') == CTE:
            args = fn.call_args(node)
            return len(args) == 2 and derives_from(fn, args[0], is_member(TOKEN_FIELD))
        return False
    return is_pass


FS_EFFECTS = ('std::filesystem::remove', 'std::filesystem::remove_all', 'std::filesystem::rename', 'std::filesystem::copy', 'std::filesystem::copy_file',
              'std::filesystem::create_directories', 'std::filesystem::create_directory', 'std::filesystem::resize_file', 'std::filesystem::permissions',
              'std::filesystem::create_symlink', 'std::filesystem::create_hard_link', 'remove', 'unlink', 'rename', 'std::remove', 'std::rename')


def fs_effect(fn, i):
    nd = fn.nodes[i]
    c = nd.get('callee') or ''
    if c in FS_EFFECTS:
        return c.split('::')[-1] + '(file)'
    if nd['k'] in ('CXXConstructExpr', 'CXXTemporaryObjectExpr') and c.startswith(('std::basic_ofstream', 'std::basic_fstream')) and fn.kids(i):
        return 'ofstream(file)'
    return None


def handler_effects(fn, P=None):
    effs = []
    # a local lambda that touches the file system is an effect wherever the handler calls it (the refusal helpers run before the gate)
    if P is not None:
        for lam in P.lambdas_of(fn.q):
            hits = [fs_effect(lam, j) for j in lam.walk()]
            hits = [h for h in hits if h]
            if not hits:
                continue
            var = lam.q.rsplit('::$', 1)[-1]
            for i in fn.walk():
                nd = fn.nodes[i]
                if nd['k'] == 'CXXOperatorCallExpr' and nd.get('op') == '()' and fn.kids(i):
                    obj = fn.nodes[fn.strip(fn.kids(i)[1])] if len(fn.kids(i)) > 1 else {}
                    if obj.get('k') == 'DeclRefExpr' and obj.get('n') == var:
                        effs.append(('%s() -> %s' % (var, hits[0]), i))
    for i in fn.walk():
        nd = fn.nodes[i]
        fe = fs_effect(fn, i)
        if fe:
            effs.append((fe, i))
            continue
        c = nd.get('callee')
        if not c:
            continue
        if nd['k'] == 'CXXMemberCallExpr' and nd.get('cls') == 'ephemeralnet::Node' and not nd.get('cconst') \
                and not c.endswith('::config'):
            effs.append(('node_.' + c.split('::')[-1], i))
        elif c.endswith('::write_file_bytes'):
            effs.append(('write_file_bytes', i))
        elif c == IMPL + 'send_response':
            args = fn.call_args(i)
            ok = fn.nodes[fn.strip(args[2])] if len(args) >= 3 else {}
            if ok.get('cv') != '0':
                effs.append(('send_response(success)', i))
        elif nd['k'] == 'CXXOperatorCallExpr' and nd.get('op') == '()':
            r = fn.receiver(i)
            if r is not None and fn.nodes[r].get('m') == IMPL + 'stop_callback_':
                effs.append(('stop_callback_()', i))
        elif c.endswith('::exchange') and nd['k'] == 'CXXMemberCallExpr':
            r = fn.receiver(i)
            if r is not None and fn.nodes[r].get('m') == IMPL + 'transport_stopped_':
                effs.append(('transport_stopped_.exchange', i))
    return effs


def dispatch_table(ck, hc):
    """command literal -> handler qualified name, from `if (command == "X") { …; handle_x(…); return; }`."""
    table = {}
    for i in hc.walk():
        nd = hc.nodes[i]
        if nd['k'] != 'IfStmt':
            continue
        cond = hc.strip(nd['cond'])
        cn = hc.nodes[cond]
        if cn['k'] != 'CXXOperatorCallExpr' or cn.get('op') != '==':
            continue
        lit = None
        for a in hc.call_args(cond):
            for j in hc.walk(a):
                if hc.nodes[j]['k'] == 'StringLiteral':
                    lit = hc.nodes[j]['s']
        if lit is None:
            continue
        for j in hc.walk(nd['then']):
            c = hc.nodes[j].get('callee', '')
            if c.startswith(IMPL + 'handle_'):
                table[lit] = c
    return table


def run(ck):
    P = ck.prog(UNITS)
    hc = P.fn(IMPL + 'handle_client')
    ck.touch(hc)
    table = dispatch_table(ck, hc)
    ck.floor('C27.dispatch', 'commands dispatched by handle_client', len(table), 8)
    for cmd in GATED_COMMANDS:
        if cmd not in table:
            raise AnalysisBroken('command %s is no longer dispatched by handle_client' % cmd)
    total_effects = 0
    for cmd in GATED_COMMANDS:
        fn = P.fn(table[cmd])
        ck.touch(fn)
        effs = handler_effects(fn, P)
        total_effects += len(effs)
        if not effs:
            raise AnalysisBroken('handler %s has no recognisable effect' % fn.q)
        fails, _ = gate_check(fn, effs, [('token', token_gate(fn))])
        failed = {(e, n) for e, _g, n, _p, _c in fails}
        paths = {(e, n): p for e, _g, n, p, _c in fails}
        seen_keys = {}
        for label, nid in effs:
            k = 'C27.gate/%s/%s' % (fn.name.split('::')[-1], label)
            seen_keys[k] = seen_keys.get(k, 0) + 1
            if seen_keys[k] > 1:
                k += '#%d' % seen_keys[k]
            ck.ob('C27.gate', k, (label, nid) not in failed, fn.loc(nid),
                  '%s must be unreachable without the control-token gate in %s' % (label, fn.name),
                  paths.get((label, nid)))
    ck.floor('C27.gate', 'effects in STORE/FETCH/STOP handlers', total_effects, 9)

    # refused *with an authentication error*: nothing that can throw on request input runs before the token decision
    # (an exception there would end the request without the authentication reply)
    from sa.escape import Escape
    E = Escape(P)
    n_thr = 0
    for cmd in GATED_COMMANDS:
        fn = P.fn(table[cmd])
        thr = []
        for i in fn.walk():
            if fn.nodes[i].get('callee') and E.call_types(fn, i):
                # inside a try block of the handler that catches it: harmless
                if not E.escape_of_subtree(fn, i):
                    continue
                caught = False
                for a in fn.ancestors(i):
                    an = fn.nodes[a]
                    if an['k'] == 'CXXTryStmt' and fn.is_in(i, an['try']):
                        caught = True
                if not caught:
                    thr.append(('throwing call ' + fn.nodes[i]['callee'].split('::')[-1], i))
        n_thr += len(thr)
        if thr:
            fails, _ = gate_check(fn, thr, [('token', token_gate(fn))])
            for e, _g, nid, pth, _c in fails:
                ck.ob('C27.early', 'C27.early/%s/%s' % (fn.name.split('::')[-1], e), False, fn.loc(nid),
                      '%s can throw on request input before the token was checked: an unauthenticated request is then dropped '
                      'without the authentication error' % e, pth)
            if not fails:
                ck.ob('C27.early', 'C27.early/%s' % fn.name.split('::')[-1], True, fn.loc(),
                      'every input-dependent throwing call of %s runs only after the token gate (%d call(s))' % (fn.name, len(thr)))
    ck.floor('C27.early', 'input-dependent throwing calls in gated handlers', n_thr, 1)

    # R-CMP: the comparison is exact and length-checked
    cte = P.fn(CTE)
    ck.touch(cte)
    size_cmp = [i for i in cte.walk() if cte.nodes[i]['k'] == 'BinaryOperator' and cte.nodes[i].get('op') in ('!=', '==')
                and all('size' in cte.text(k) for k in cte.kids(i))]
    cfg = Cfg.of(cte)
    rets_true = [i for i in cte.walk() if cte.nodes[i]['k'] == 'ReturnStmt' and
                 cte.nodes[cte.strip(cte.kids(i)[0])].get('cv') != '0']
    ck.ob('C27.cmp', 'C27.cmp/length', len(size_cmp) >= 1, cte.loc(),
          'constant_time_equal compares the two lengths before comparing bytes')
    xor = [i for i in cte.walk() if cte.nodes[i].get('op') in ('^', '^=', '|=')]
    ck.ob('C27.cmp', 'C27.cmp/accumulate', len(xor) >= 2 and len(rets_true) >= 1, cte.loc(),
          'constant_time_equal accumulates byte differences (xor/or) over the whole string')

    # R-FRESH: the header map the token is looked up in belongs to this request only — the parser builds a new object per
    # request (returned by value from a local), and no server-lifetime object of that type exists to be reused
    DA = 'ephemeralnet::daemon::(anonymous namespace)::'
    pr = [f for f in P.fns if f.q == DA + 'parse_request']
    if not pr:
        raise AnalysisBroken('parse_request not found')
    pr = pr[0]
    ck.touch(pr)
    ret_t = (pr.d.get('ret') or '').strip()
    by_value = not ret_t.endswith('&') and not ret_t.endswith('*')
    no_out_param = not any('ParseResult' in (p.get('t') or '') or 'ControlRequest' in (p.get('t') or '') for p in pr.params)
    rets = [i for i in pr.walk() if pr.nodes[i]['k'] == 'ReturnStmt' and pr.kids(i)]
    local_ok = bool(rets)
    for r in rets:
        vs = [pr.nodes[j] for j in pr.walk(r) if pr.nodes[j]['k'] == 'DeclRefExpr' and pr.nodes[j].get('dk') in ('Var', 'ParmVar') and 'ParseResult' in (pr.nodes[j].get('t') or '')]
        for v in vs:
            decl = [pr.nodes[j] for j in pr.walk() if pr.nodes[j]['k'] == 'VarDecl' and pr.nodes[j].get('d') == v.get('d')]
            if not decl or decl[0].get('static'):
                local_ok = False
    ck.ob('C27.fresh', 'C27.fresh/parse_request', by_value and no_out_param and local_ok, pr.loc(),
          'parse_request builds the request in a fresh local and returns it by value (return type `%s`): no header of an earlier request can survive into this one' % ret_t)
    stale = []
    for q, r in P.records.items():
        if q.startswith('ephemeralnet::daemon::ControlServer'):
            for fl in r.get('fields', []):
                if 'ParseResult' in fl['t'] or 'ControlRequest' in fl['t']:
                    stale.append('%s::%s' % (q.split('::')[-1], fl['n']))
    hc = P.fn(IMPL + 'handle_client')
    for i in hc.walk():
        nd = hc.nodes[i]
        if nd['k'] == 'VarDecl' and ('ParseResult' in (nd.get('t') or '') or 'ControlRequest' in (nd.get('t') or '')) and nd.get('static'):
            stale.append('static ' + nd.get('n', '?'))
    ck.ob('C27.fresh', 'C27.fresh/no-server-lifetime-request', not stale, hc.loc(),
          'the control server keeps no request object across connections (found %s)' % (stale or 'none'))

    # ---- the configured token is only ever read here (never moved from, swapped, reset or assigned) ---------------------------------
    nread = 0
    spoil = []
    MUTATORS = ('std::move', 'std::exchange', 'std::swap', 'std::forward')
    for f in P.fns:
        for i in f.walk():
            nd = f.nodes[i]
            if nd['k'] != 'MemberExpr' or nd.get('m') != TOKEN_FIELD:
                continue
            nread += 1
            for a in f.ancestors(i):
                an_ = f.nodes[a]
                if an_['k'] in ('CompoundStmt', 'DeclStmt', 'IfStmt', 'ReturnStmt'):
                    break
                c_ = an_.get('callee') or ''
                if c_ in MUTATORS or c_.endswith(('::swap', '::reset', '::emplace')) and an_['k'] == 'CXXMemberCallExpr' and f.receiver(a) is not None and f.is_in(i, f.receiver(a)) \
                        or an_['k'] in ('BinaryOperator', 'CXXOperatorCallExpr', 'CompoundAssignOperator') and an_.get('op') == '=' and \
                        f.is_in(i, f.kids(a)[1 if an_['k'] == 'CXXOperatorCallExpr' else 0]):
                    spoil.append((f, i, c_ or 'assignment'))
                    break
    ck.floor('C27.own', 'reads of Config::control_token in the control server', nread, 3)
    ck.ob('C27.own', 'C27.own/token-read-only', not spoil, spoil[0][0].loc(spoil[0][1]) if spoil else '',
          'the control server only copies the configured token for comparison: it is never assigned, moved from, swapped or reset (a moved-from '
          'token is an empty token that an empty TOKEN header matches)' + ('' if not spoil else ' — %s' % spoil[0][2]))

    # ---- the header value compared is the bytes after the colon, unedited -------------------------------------------------------
    from sa.flow import origin_chain
    pr_ = pr
    stores = [i for i in pr_.walk() if pr_.nodes[i]['k'] == 'CXXOperatorCallExpr' and pr_.nodes[i].get('op') == '=' and
              any(pr_.nodes[j]['k'] == 'MemberExpr' and (pr_.nodes[j].get('m') or '').endswith('ParsedRequest::fields') for j in pr_.walk(pr_.kids(i)[1]))]
    ck.floor('C27.fresh', 'header stores in parse_request', len(stores), 1)
    for i in stores:
        rhs = pr_.kids(i)[2]
        via = []
        seen_substr = False
        for x in origin_chain(pr_, rhs):
            for j in pr_.walk(x):
                c_ = pr_.nodes[j].get('callee') or ''
                if not c_:
                    continue
                if c_.endswith('basic_string<char>::substr'):
                    seen_substr = True
                elif pr_.nodes[j]['k'] in ('CallExpr', 'CXXMemberCallExpr') and not c_.startswith('std::basic_string<char>::basic_string') \
                        and not c_.endswith(('::find', '::operator+', '::size')):
                    via.append(c_.split('::')[-1])
        ck.ob('C27.fresh', 'C27.fresh/header-value-verbatim', seen_substr and not via, pr_.loc(i),
              'the value stored for a header is line.substr(pos + 1) itself: nothing trims, truncates or rewrites it before the token comparison'
              + ('' if not via else ' — passes through %s()' % via[0]))

"""X2: path rules on clang's CFG (exported by envx).

R-GATE  : every path from the entry of F to an effect passes a gate edge.
R-PAIR  : every path from a site to a normal exit passes a required element.
Facts implied by a branch edge are computed through !, &&, ||, parentheses, and through
locals that are initialised once from the gate expression (`const bool ok = gate();`,
`auto ttl = manifest_ttl(...); if (!ttl.has_value())`).
"""
from collections import deque

from .build import AnalysisBroken

BRANCH_TERMS = ('IfStmt', 'ConditionalOperator', 'BinaryOperator', 'WhileStmt', 'ForStmt', 'DoStmt',
                'BinaryConditionalOperator')


NONWRITING_METHODS = ('end', 'cend', 'rend', 'crend', 'cbegin', 'size', 'empty', 'has_value', 'find', 'count',
                      'contains', 'length', 'capacity', 'max_size', 'operator bool', 'str', 'c_str', 'compare',
                      'starts_with', 'ends_with', 'substr', 'first', 'last', 'subspan', 'string', 'filename',
                      'parent_path', 'native', 'load', 'lock', 'expired', 'use_count', 'time_since_epoch', 'count')
ELEMENT_ACCESS = ('begin', 'rbegin', 'data', 'operator[]', 'at', 'front', 'back', 'value', 'operator*', 'operator->',
                  'get', 'second', 'first')
NONWRITING_CALLEES = ('std::span<', 'std::optional<', 'std::basic_string_view<', 'std::as_const', 'std::begin', 'std::end', 'std::size',
                      'std::data', 'std::cbegin', 'std::cend', 'std::empty', 'std::get', 'std::holds_alternative',
                      'std::visit', 'std::min', 'std::max', 'std::addressof')


def _is_mut_ref(t):
    t = t.strip()
    if t.endswith('&&'):
        return False          # binds rvalues only (a concrete instantiated type)
    if t.endswith('&'):
        return not t.startswith('const ') and ' const &' not in t and 'const&' not in t
    if t.endswith('*'):
        return not t.startswith('const ')
    return False


def _arg_param_type(fn, call, arg):
    nd = fn.nodes[call]
    pts = nd.get('pt')
    if pts is None:
        return None
    args = fn.call_args(call)
    if nd['k'] == 'CXXOperatorCallExpr' and fn.nodes[call].get('cls'):
        args = args[1:]       # member operator: first operand is the object
    try:
        idx = args.index(arg)
    except ValueError:
        return None
    if idx < len(pts):
        return pts[idx]
    return None


def local_writes(fn, d):
    """Nodes that (may) write local variable with decl id d, other than its declaration:
    assignments, compound assignments, ++/--, address-of, mutating member calls, binding to a
    non-const reference parameter, element access used as an lvalue."""
    cache = getattr(fn, '_lw', None)
    if cache is None:
        cache = {}
        pm = fn.parent_map()
        for i, nd in enumerate(fn.nodes):
            if nd['k'] != 'DeclRefExpr' or nd.get('dk') not in ('Var', 'ParmVar', 'Binding', 'Decomposition'):
                continue
            j = i
            p = pm.get(j)
            while p is not None and fn.nodes[p]['k'] in ('ParenExpr',):
                j = p
                p = pm.get(j)
            if p is None:
                continue
            pn = fn.nodes[p]
            k = pn['k']
            w = False
            if k in ('BinaryOperator', 'CompoundAssignOperator') and pn.get('op', '').endswith('=') and \
                    pn['op'] not in ('==', '!=', '<=', '>=') and fn.kids(p)[0] == j:
                w = True
            elif k == 'UnaryOperator' and pn.get('op') in ('++', '--', '&'):
                w = True
            elif k == 'CXXOperatorCallExpr' and len(fn.kids(p)) >= 2 and fn.kids(p)[1] == j:
                op = pn.get('op')
                if op in ('=', '+=', '-=', '++', '--', '|=', '&=', '^=', '<<=', '>>=', '*=', '/='):
                    w = True
                elif op in ('[]', '*', '->') and not pn.get('cconst'):
                    w = _result_written(fn, p, pm)
            elif k == 'MemberExpr':
                gp = pm.get(p)
                if gp is not None and fn.nodes[gp]['k'] == 'CXXMemberCallExpr' and fn.kids(gp)[0] == p:
                    g = fn.nodes[gp]
                    meth = g.get('callee', '').split('::')[-1]
                    if g.get('cconst') or g.get('cstatic') or meth in NONWRITING_METHODS:
                        w = False
                    elif meth in ELEMENT_ACCESS:
                        w = _result_written(fn, gp, pm)
                    else:
                        w = True
                    p = gp
                elif pn.get('mk') == 'Field':
                    # x.field used as lvalue
                    w = _result_written(fn, p, pm)
            elif k in ('CallExpr', 'CXXConstructExpr', 'CXXTemporaryObjectExpr', 'CXXMemberCallExpr') and nd.get('lv'):
                callee = pn.get('callee', '')
                if any(callee.startswith(x) for x in NONWRITING_CALLEES):
                    w = False
                else:
                    pt = _arg_param_type(fn, p, j)
                    if pt is None:
                        w = not nd.get('t', '').startswith('const ')
                    else:
                        w = _is_mut_ref(pt) and not nd.get('t', '').startswith('const ')
            if w:
                cache.setdefault(nd['d'], []).append(p)
        fn._lw = cache
    return cache.get(d, [])


def _result_written(fn, node, pm):
    """The lvalue produced by `node` (element/field access) is written: assigned, incremented,
    address taken, mutating member call, or bound to a non-const reference."""
    j = node
    while True:
        p = pm.get(j)
        if p is None:
            return False
        pn = fn.nodes[p]
        k = pn['k']
        if k == 'ParenExpr':
            j = p
            continue
        if k == 'ImplicitCastExpr':
            if pn.get('ck') == 'LValueToRValue':
                return False
            j = p
            continue
        if k in ('BinaryOperator', 'CompoundAssignOperator') and pn.get('op', '').endswith('=') and \
                pn['op'] not in ('==', '!=', '<=', '>='):
            return fn.kids(p)[0] == j
        if k == 'UnaryOperator':
            return pn.get('op') in ('++', '--', '&')
        if k == 'MemberExpr':
            gp = pm.get(p)
            if gp is not None and fn.nodes[gp]['k'] == 'CXXMemberCallExpr' and fn.kids(gp)[0] == p:
                g = fn.nodes[gp]
                meth = g.get('callee', '').split('::')[-1]
                if g.get('cconst') or g.get('cstatic') or meth in NONWRITING_METHODS:
                    return False
                if meth in ELEMENT_ACCESS:
                    j = gp
                    continue
                return True
            j = p
            continue
        if k == 'CXXOperatorCallExpr' and len(fn.kids(p)) >= 2 and fn.kids(p)[1] == j:
            op = pn.get('op')
            if op in ('=', '+=', '-=', '++', '--', '|=', '&=', '^=', '<<=', '>>=', '*=', '/='):
                return True
            if op in ('[]', '*', '->'):
                j = p
                continue
            return False
        if k in ('CallExpr', 'CXXConstructExpr', 'CXXTemporaryObjectExpr', 'CXXMemberCallExpr', 'CXXOperatorCallExpr'):
            callee = pn.get('callee', '')
            if any(callee.startswith(x) for x in NONWRITING_CALLEES):
                return False
            pt = _arg_param_type(fn, p, j)
            if pt is None:
                return True
            return _is_mut_ref(pt)
        if k in ('ArraySubscriptExpr',):
            j = p
            continue
        if k == 'VarDecl':
            t = pn.get('t', '')
            return t.endswith('&') and not t.startswith('const ') or t.endswith('*')
        return False


def var_decl(fn, d):
    cache = getattr(fn, '_vd', None)
    if cache is None:
        cache = {}
        for i, nd in enumerate(fn.nodes):
            if nd['k'] == 'VarDecl':
                cache.setdefault(nd['d'], i)
        fn._vd = cache
    return cache.get(d)


def _is_default_init(fn, i):
    """`T x;` / `T x{};` — an initialiser that carries no program value."""
    j = fn.strip(i)
    nd = fn.nodes[j]
    if nd['k'] in ('CXXConstructExpr', 'CXXTemporaryObjectExpr') and not fn.kids(j):
        return True
    if nd['k'] == 'InitListExpr' and not fn.kids(j):
        return True
    if nd['k'] in ('ImplicitValueInitExpr', 'CXXScalarValueInitExpr'):
        return True
    return False


def unique_init(fn, d, use=None):
    """The single defining expression of local d, else None.  Either the initialiser of a
    variable that is never written again, or — for `T x; … x = e;` — the right-hand side of
    the only assignment, provided that assignment dominates `use` (a node id)."""
    vd = var_decl(fn, d)
    if vd is None:
        return None
    nd = fn.nodes[vd]
    if nd.get('static'):
        return None
    if 'init' in nd and nd.get('t', '').rstrip().endswith('&'):
        return nd['init']          # a reference is bound once; writes go through it, not to it
    ws = local_writes(fn, d)
    if 'init' in nd and not ws:
        return nd['init']
    if ('init' not in nd or _is_default_init(fn, nd['init']) or use is not None) and len(ws) == 1:
        w = ws[0]
        wn = fn.nodes[w]
        rhs = None
        if wn['k'] == 'BinaryOperator' and wn.get('op') == '=':
            rhs = fn.kids(w)[1]
        elif wn['k'] == 'CXXOperatorCallExpr' and wn.get('op') == '=' and len(fn.kids(w)) == 3:
            rhs = fn.kids(w)[2]
        if rhs is None:
            return None
        if use is not None:
            cfg = Cfg.of(fn)
            a, b = cfg.locate(w), cfg.locate(use)
            if a is None or b is None:
                return None
            if not cfg.dominates(a, b):
                return None
        return rhs
    return None


OPT_TEST = ('::has_value', '::operator bool')


def fact_passes(pred, facts):
    """Some fact of the set satisfies pred — where a disjunctive fact ('any', (set1, set2, ...), None) ("one of these fact sets
    holds", from a true `a || b` or a false `a && b` that the CFG does not split into separate edges, e.g. under a `!`)
    satisfies it when every alternative does."""
    for f in facts:
        if f[0] == 'any':
            if f[1] and all(fact_passes(pred, alt) for alt in f[1]):
                return True
        elif pred(f):
            return True
    return False


def implied(fn, expr, val, out=None, depth=0):
    """Set of facts (kind, node, value) implied when `expr` evaluates to `val`.
    kind 'bool': node evaluated to value; kind 'has': optional-valued node is (non)empty."""
    if out is None:
        out = set()
    if expr is None or expr < 0 or depth > 8:
        return out
    e = fn.strip(expr)
    nd = fn.nodes[e]
    k = nd['k']
    out.add(('bool', e, val))
    if k == 'UnaryOperator' and nd.get('op') == '!':
        implied(fn, fn.kids(e)[0], not val, out, depth + 1)
    elif k == 'BinaryOperator' and nd.get('op') == '&&':
        if val:
            for c in fn.kids(e):
                implied(fn, c, True, out, depth + 1)
        else:
            # a false conjunction: at least one operand is false (a disjunctive fact, see fact_passes)
            out.add(('any', tuple(frozenset(implied(fn, c, False, None, depth + 1)) for c in fn.kids(e)), None))
    elif k == 'BinaryOperator' and nd.get('op') == '||':
        if not val:
            for c in fn.kids(e):
                implied(fn, c, False, out, depth + 1)
        else:
            out.add(('any', tuple(frozenset(implied(fn, c, True, None, depth + 1)) for c in fn.kids(e)), None))
    elif k == 'DeclRefExpr' and nd.get('dk') in ('Var',):
        init = unique_init(fn, nd['d'], e)
        if init is not None:
            t = nd.get('t', '')
            if 'optional<' in t:
                out.add(('has', fn.strip(init), val))
            else:
                implied(fn, init, val, out, depth + 1)
        elif val and nd.get('t') in ('bool', 'const bool'):
            # monotone flag: `bool ok = a && b; … ok = false; … if (ok)` — true only if the
            # initialiser was true (every later write assigns the constant false)
            vd = var_decl(fn, nd['d'])
            if vd is not None and 'init' in fn.nodes[vd] and not fn.nodes[vd].get('static'):
                ws = local_writes(fn, nd['d'])
                if ws and all(fn.nodes[w]['k'] == 'BinaryOperator' and fn.nodes[w].get('op') == '=' and
                              fn.nodes[fn.strip(fn.kids(w)[1])].get('cv') == '0' for w in ws):
                    implied(fn, fn.nodes[vd]['init'], True, out, depth + 1)
    elif k == 'CXXMemberCallExpr' and any(nd.get('callee', '').endswith(s) for s in OPT_TEST) \
            and 'optional<' in nd.get('callee', ''):
        r = fn.receiver(e)
        if r is not None:
            out.add(('has', r, val))
            rn = fn.nodes[r]
            if rn['k'] == 'DeclRefExpr' and rn.get('dk') == 'Var':
                init = unique_init(fn, rn['d'], r)
                if init is not None:
                    out.add(('has', fn.strip(init), val))
    elif k == 'CXXOperatorCallExpr' and nd.get('op') in ('==', '!=') and len(fn.kids(e)) == 3:
        # x == std::nullopt / x != std::nullopt
        a, b = fn.strip(fn.kids(e)[1]), fn.strip(fn.kids(e)[2])
        for x, y in ((a, b), (b, a)):
            if 'nullopt_t' in fn.nodes[y].get('t', '') and 'optional<' in fn.nodes[x].get('t', ''):
                has = (nd['op'] == '!=') == val
                out.add(('has', x, has))
    return out


class Cfg:
    @staticmethod
    def of(fn):
        c = getattr(fn, '_cfgobj', None)
        if c is None:
            c = Cfg(fn)
            fn._cfgobj = c
        return c

    def dominators(self):
        """Block-level dominator sets (iterative; CFGs here have < 400 blocks)."""
        if getattr(self, '_dom', None) is None:
            ids = list(self.blocks)
            preds = {b: set() for b in ids}
            for b in ids:
                for s in self.blocks[b]['s']:
                    if s is not None and s >= 0:
                        preds[s].add(b)
            reach = self.reachable_blocks()
            dom = {b: set(reach) for b in reach}
            dom[self.entry] = {self.entry}
            changed = True
            order = sorted(reach, reverse=True)
            while changed:
                changed = False
                for b in order:
                    if b == self.entry:
                        continue
                    ps = [p for p in preds[b] if p in reach]
                    new = set.intersection(*(dom[p] for p in ps)) if ps else set()
                    new = new | {b}
                    if new != dom[b]:
                        dom[b] = new
                        changed = True
            self._dom = dom
        return self._dom

    def dominates(self, a, b):
        """Position a=(block, idx) dominates position b."""
        (ba, ia), (bb, ib) = a, b
        if ba == bb:
            return ia <= ib
        d = self.dominators()
        return bb in d and ba in d[bb]

    def __init__(self, fn):
        self.fn = fn
        self.blocks = fn.blocks()
        self.entry = fn.cfg['entry']
        self.exit = fn.cfg['exit']
        self._node_block = None

    def node_block(self):
        """node id -> (block id, index) for nodes that are CFG elements; other nodes are located
        through their nearest ancestor/descendant that is an element."""
        if self._node_block is None:
            m = {}
            for b in self.blocks.values():
                for idx, e in enumerate(b['e']):
                    if isinstance(e, int):
                        m.setdefault(e, (b['id'], idx))
            # statements that are block terminators only (continue, break, goto): located at the end of their block
            for b in self.blocks.values():
                t = b.get('term')
                if t is not None and t >= 0 and self.fn.nodes[t]['k'] in ('ContinueStmt', 'BreakStmt', 'GotoStmt'):
                    m.setdefault(t, (b['id'], len(b['e'])))
            self._node_block = m
        return self._node_block

    def locate(self, nid):
        m = self.node_block()
        if nid in m:
            return m[nid]
        # wrappers (ExprWithCleanups, ImplicitCast…) may not be elements: look at descendants first
        for d in self.fn.walk(nid):
            if d in m:
                return m[d]
        for a in self.fn.ancestors(nid):
            if a in m:
                return m[a]
        return None

    def out_edges(self, bid):
        """[(succ block id, label, facts)] — label 'T'/'F'/'' ; facts implied along that edge."""
        oc = self.__dict__.setdefault('_oe', {})
        if bid in oc:
            return oc[bid]
        oc[bid] = out = []
        b = self.blocks[bid]
        succs = b['s']
        tk = b.get('tk')
        if tk in BRANCH_TERMS and len(succs) == 2 and 'cond' in b:
            cond = self.effective_cond(b)
            for i, s in enumerate(succs):
                if s is None or s < 0:
                    continue
                val = (i == 0)
                facts = implied(self.fn, cond, val)
                implied(self.fn, b['cond'], val, facts)      # the whole condition, where it determines its operands
                out.append((s, 'T' if val else 'F', facts))
        elif tk == 'CXXForRangeStmt' and len(succs) == 2:
            for i, s in enumerate(succs):
                if s is not None and s >= 0:
                    out.append((s, 'T' if i == 0 else 'F', set()))
        else:
            for s in succs:
                if s is not None and s >= 0:
                    out.append((s, '', set()))
        return out

    def effective_cond(self, b):
        """The expression whose value decides this block's branch.  clang reports the whole
        `a && b` (or `a || b`) as the condition of the block that evaluates its last operand; that
        block is only reached when the earlier operands did not short-circuit, so the value decided
        here is the right-most operand."""
        fn = self.fn
        c = fn.strip(b['cond'], casts=False)
        while True:
            nd = fn.nodes[c]
            if nd['k'] == 'BinaryOperator' and nd.get('op') in ('&&', '||'):
                c = fn.strip(fn.kids(c)[1], casts=False)
                continue
            if nd['k'] == 'ImplicitCastExpr' and fn.kids(c):
                inner = fn.strip(fn.kids(c)[0], casts=False)
                ind = fn.nodes[inner]
                if ind['k'] == 'BinaryOperator' and ind.get('op') in ('&&', '||'):
                    c = inner
                    continue
            return c

    def describe_edge(self, bid, label):
        b = self.blocks[bid]
        if 'cond' not in b:
            return None
        c = self.effective_cond(b)
        return '%s:%d [%s] %s' % (self.fn.loc(c).split(':')[0].split('/')[-1], self.fn.nodes[c].get('l', 0),
                                  label, self.fn.text(c)[:120])

    def is_throw_block(self, bid):
        b = self.blocks[bid]
        for e in reversed(b['e']):
            if isinstance(e, int):
                return self.fn.nodes[e]['k'] == 'CXXThrowExpr'
        return False

    # ---- R-GATE ----------------------------------------------------------------
    # ---- stable atoms (path sensitivity for repeated tests of an unchanging condition) -----
    CONST_QUERIES = ('has_value', 'operator bool', 'empty', 'end', 'begin', 'cend', 'cbegin', 'size', 'count',
                     'contains', 'find')

    def stable_key(self, node):
        """A textual key for a condition whose value cannot change between two evaluations in one
        activation: built only from literals, locals/parameters that are never re-assigned (or
        assigned exactly once, dominating the use), member accesses on those, const query calls
        and operators.  None if the expression is not of that shape."""
        fn = self.fn
        cache = self.__dict__.setdefault('_sk', {})
        if node in cache:
            return cache[node]
        ok = True
        for i in fn.walk(node):
            nd = fn.nodes[i]
            k = nd['k']
            if k in ('IntegerLiteral', 'CXXBoolLiteralExpr', 'StringLiteral', 'CharacterLiteral', 'CXXNullPtrLiteralExpr',
                     'ParenExpr', 'ImplicitCastExpr', 'ExprWithCleanups', 'MaterializeTemporaryExpr',
                     'CXXBindTemporaryExpr', 'CXXRewrittenBinaryOperator', 'ConstantExpr', 'CXXThisExpr'):
                continue
            if k == 'DeclRefExpr':
                dk = nd.get('dk')
                if dk in ('Function', 'CXXMethod', 'EnumConstant'):
                    continue
                if dk in ('Var', 'ParmVar'):
                    if nd.get('g'):
                        if 'const' in nd.get('t', '') or 'cv' in nd:
                            continue
                        ok = False
                        break
                    ws = local_writes(fn, nd['d'])
                    if not ws:
                        continue
                    if unique_init(fn, nd['d'], i) is not None:
                        continue
                ok = False
                break
            if k == 'MemberExpr':
                if nd.get('mk') == 'Field':
                    # fields of `this` may be changed by callees; only fields of stable locals
                    base = fn.strip(fn.kids(i)[0]) if fn.kids(i) else None
                    if base is not None and fn.nodes[base]['k'] == 'CXXThisExpr':
                        ok = False
                        break
                continue
            if k == 'CXXMemberCallExpr':
                c = nd.get('callee', '')
                if nd.get('cconst') and c.split('::')[-1] in self.CONST_QUERIES:
                    continue
                ok = False
                break
            if k == 'CXXOperatorCallExpr':
                if nd.get('op') in ('==', '!=', '<', '>', '<=', '>=', '<=>', '*', '->', '!'):
                    continue
                ok = False
                break
            if k in ('BinaryOperator',) and nd.get('op') in ('==', '!=', '<', '>', '<=', '>=', '&&', '||', '<=>'):
                continue
            if k == 'UnaryOperator' and nd.get('op') in ('!', '*', '-'):
                continue
            if k in ('CXXConstructExpr', 'CXXTemporaryObjectExpr') and ('__unspec' in nd.get('t', '') or nd.get('copymove')):
                continue
            ok = False
            break
        key = ('%s' % fn.text(node)) if ok else None
        cache[node] = key
        return key

    def tracked_keys(self):
        """Stable keys that are tested by at least two branch blocks."""
        tk = getattr(self, '_tk', None)
        if tk is None:
            count = {}
            for bid in self.blocks:
                keys = set()
                for _s, _l, facts in self.out_edges(bid):
                    for kind, node, _v in facts:
                        if kind == 'bool':
                            k = self.stable_key(node)
                            if k is not None:
                                keys.add(k)
                for k in keys:
                    count[k] = count.get(k, 0) + 1
            tk = {k for k, c in count.items() if c >= 2}
            self._tk = tk
        return tk

    def edge_stable(self, bid):
        """per out-edge: list of (key, value) for tracked stable atoms."""
        es = self.__dict__.setdefault('_es', {})
        if bid not in es:
            tk = self.tracked_keys()
            res = []
            for _s, _l, facts in self.out_edges(bid):
                kv = {}
                for kind, node, v in facts:
                    if kind == 'bool':
                        k = self.stable_key(node)
                        if k in tk:
                            kv[k] = v
                res.append(tuple(sorted(kv.items())))
            es[bid] = res
        return es[bid]

    # ---- R-GATE ----------------------------------------------------------------
    def reach_avoiding(self, is_pass_fact, targets, start=None, max_states=300000):
        """Search from entry (or `start` block) along edges that do NOT carry a fact accepted by
        is_pass_fact, pruning paths that take contradictory branches on a stable condition.
        targets: set of block ids.  Returns {target block: witness path} for reachable targets."""
        start = self.entry if start is None else start
        s0 = (start, ())
        prev = {s0: None}
        dq = deque([s0])
        found = {}
        targets = set(targets)
        if start in targets:
            found[start] = s0
        while dq and len(found) < len(targets):
            st = dq.popleft()
            b, known = st
            kd = dict(known)
            stab = self.edge_stable(b)
            for idx, (s, label, facts) in enumerate(self.out_edges(b)):
                if fact_passes(is_pass_fact, facts):
                    continue
                contradiction = False
                nk = None
                for k, v in stab[idx]:
                    if k in kd:
                        if kd[k] != v:
                            contradiction = True
                            break
                    else:
                        if nk is None:
                            nk = dict(kd)
                        nk[k] = v
                if contradiction:
                    continue
                ns = (s, tuple(sorted(nk.items())) if nk is not None else known)
                if ns not in prev:
                    prev[ns] = (st, label)
                    dq.append(ns)
                    if s in targets and s not in found:
                        found[s] = ns
                    if len(prev) > max_states:
                        raise AnalysisBroken('path search exceeded %d states in %s' % (max_states, self.fn.q))
        res = {}
        for t, st in found.items():
            path = []
            x = st
            while prev[x] is not None:
                px, label = prev[x]
                d = self.describe_edge(px[0], label) if label else None
                if d:
                    path.append(d)
                x = px
            res[t] = list(reversed(path))
        return res

    def pass_edges(self, is_pass_fact):
        out = []
        for bid in self.blocks:
            for s, label, facts in self.out_edges(bid):
                if fact_passes(is_pass_fact, facts):
                    out.append((bid, s, label))
        return out

    # ---- R-PAIR ----------------------------------------------------------------
    def must_pass(self, start_node, is_required, ignore_throw=True, stop_at=None):
        """Every path from just after `start_node` to a normal function exit contains an element
        accepted by is_required(node id).  Returns None if it holds, else a witness path."""
        loc = self.locate(start_node)
        if loc is None:
            raise AnalysisBroken('cannot locate node %d of %s in its CFG' % (start_node, self.fn.q))
        return self.must_pass_from(loc, is_required, ignore_throw, stop_at)

    def must_pass_from(self, loc, is_required, ignore_throw=True, stop_at=None):
        b0, i0 = loc

        def scan(bid, frm):
            """True if a required element occurs in block bid at index >= frm."""
            es = self.blocks[bid]['e']
            for e in es[frm:]:
                if isinstance(e, int) and is_required(e):
                    return True
                if stop_at is not None and isinstance(e, int) and stop_at(e):
                    return True
            return False

        if scan(b0, i0 + 1):
            return None
        prev = {}
        dq = deque()
        seen = set()
        for s, label, _ in self.out_edges(b0):
            if s not in seen:
                seen.add(s)
                prev[s] = (b0, label)
                dq.append(s)
        if b0 != self.exit and not self.out_edges(b0):
            return []
        while dq:
            b = dq.popleft()
            if b == self.exit:
                pb, _ = prev[b]
                if ignore_throw and self.is_throw_block(pb):
                    continue
                path = []
                x = b
                while x in prev:
                    pb2, label = prev[x]
                    d = self.describe_edge(pb2, label) if label else None
                    if d:
                        path.append(d)
                    x = pb2
                    if x == b0:
                        break
                return list(reversed(path))
            if scan(b, 0):
                continue
            for s, label, _ in self.out_edges(b):
                if s not in seen:
                    seen.add(s)
                    prev[s] = (b, label)
                    dq.append(s)
        return None

    def reachable_blocks(self, start=None):
        start = self.entry if start is None else start
        seen = {start}
        dq = deque([start])
        while dq:
            b = dq.popleft()
            for s in self.blocks[b]['s']:
                if s is not None and s >= 0 and s not in seen:
                    seen.add(s)
                    dq.append(s)
        return seen


def gate_check(fn, effects, gates, start=None):
    """R-GATE.  effects: list of (label, node id).  gates: list of (label, is_pass_fact).
    Every effect must be unreachable once the pass edges of each gate are cut (each gate
    separately: all gates are required).  Returns list of failures
    (effect label, gate label, node, witness path) and counts."""
    cfg = Cfg.of(fn)
    failures = []
    checked = 0
    for glabel, is_pass in gates:
        pe = cfg.pass_edges(is_pass)
        targets = {}
        for elabel, nid in effects:
            loc = cfg.locate(nid)
            if loc is None:
                raise AnalysisBroken('effect %s (node %d) of %s not in CFG' % (elabel, nid, fn.q))
            targets.setdefault(loc[0], []).append((elabel, nid))
        res = cfg.reach_avoiding(is_pass, set(targets), start=start)
        for bid, effs in targets.items():
            for elabel, nid in effs:
                checked += 1
                if bid in res:
                    failures.append((elabel, glabel, nid, res[bid], len(pe)))
    return failures, checked


def returns_true_only_if(fn, gates):
    """For a bool function: every `return e` whose value can be true passes each gate, either on
    the path (cut edges) or because e == true itself implies the gate fact (`return a && gate()`).
    Returns (failures [(gate label, return node, witness)], number of returns examined)."""
    cfg = Cfg.of(fn)
    rets = []
    for i in fn.walk():
        nd = fn.nodes[i]
        if nd['k'] != 'ReturnStmt' or not fn.kids(i):
            continue
        e = fn.kids(i)[0]
        se = fn.strip(e)
        if fn.nodes[se].get('cv') == '0' and fn.nodes[se]['k'] in ('CXXBoolLiteralExpr', 'IntegerLiteral'):
            continue
        rets.append((i, e))
    failures = []
    for glabel, is_pass in gates:
        for r, e in rets:
            if fact_passes(is_pass, implied(fn, e, True)):
                continue
            loc = cfg.locate(r)
            if loc is None:
                raise AnalysisBroken('return at %s not in CFG' % fn.loc(r))
            res = cfg.reach_avoiding(is_pass, {loc[0]})
            if loc[0] in res:
                failures.append((glabel, r, res[loc[0]]))
    return failures, len(rets)


def loops(fn):
    return [i for i in fn.walk() if fn.nodes[i]['k'] in ('ForStmt', 'WhileStmt', 'DoStmt', 'CXXForRangeStmt')]


def loop_has_early_exit(fn, loop):
    body = fn.nodes[loop].get('body')
    for i in fn.walk(body):
        k = fn.nodes[i]['k']
        if k in ('ReturnStmt', 'BreakStmt', 'GotoStmt', 'CXXThrowExpr'):
            return True
    return False


def must_precede(fn, targets, is_required, bypass=None):
    """Every path from the entry to each target node passes an element accepted by is_required
    (node id) before it — or an edge carrying a fact accepted by `bypass` (a stated condition under
    which the requirement does not apply).  Returns [(target, witness path)] for targets reachable
    without."""
    cfg = Cfg.of(fn)
    req_pos = {}
    for bid, b in cfg.blocks.items():
        for idx, e in enumerate(b['e']):
            if isinstance(e, int) and is_required(e):
                req_pos.setdefault(bid, idx)      # first required element of the block
    fails = []
    for t in targets:
        loc = cfg.locate(t)
        if loc is None:
            raise AnalysisBroken('target node %d of %s not in CFG' % (t, fn.q))
        tb, ti = loc
        if tb in req_pos and req_pos[tb] < ti:
            continue
        # search avoiding blocks that contain a required element (entering one = passing it),
        # except that the target's own block may be entered (its required element, if any, is after)
        prev = {cfg.entry: None}
        dq = deque([cfg.entry])
        hit = cfg.entry == tb
        while dq and not hit:
            b = dq.popleft()
            if b in req_pos and b != tb:
                continue
            for s_, label, _f in cfg.out_edges(b):
                if bypass is not None and fact_passes(bypass, _f):
                    continue
                if s_ not in prev:
                    prev[s_] = (b, label)
                    if s_ == tb:
                        hit = True
                        break
                    dq.append(s_)
        if hit:
            path = []
            x = tb
            while prev.get(x) is not None:
                pb, label = prev[x]
                d = cfg.describe_edge(pb, label) if label else None
                if d:
                    path.append(d)
                x = pb
            fails.append((t, list(reversed(path))))
    return fails


def reaches(fn, src_node, dst_node):
    """Some CFG path leads from src_node to dst_node."""
    cfg = Cfg.of(fn)
    a, b = cfg.locate(src_node), cfg.locate(dst_node)
    if a is None or b is None:
        raise AnalysisBroken('node not in CFG of %s' % fn.q)
    if a[0] == b[0] and a[1] < b[1]:
        return True
    seen = set()
    dq = deque(s for s, _l, _f in cfg.out_edges(a[0]))
    while dq:
        x = dq.popleft()
        if x in seen:
            continue
        seen.add(x)
        if x == b[0]:
            return True
        dq.extend(s for s, _l, _f in cfg.out_edges(x))
    return False


def must_pass_before_next_iteration(fn, start_block, is_required, loop_stmt):
    """From block `start_block` (inside the body of `loop_stmt`) every path meets an element accepted by
    is_required before control returns to the loop header (next iteration) or leaves the function.
    Returns None if it holds, else a witness path (list of branch descriptions)."""
    cfg = Cfg.of(fn)
    headers = {b['id'] for b in cfg.blocks.values() if b.get('term') == loop_stmt}
    if not headers:
        raise AnalysisBroken('loop header of %s not found in the CFG of %s' % (fn.loc(loop_stmt), fn.q))

    def has_req(bid):
        return any(isinstance(e, int) and is_required(e) for e in cfg.blocks[bid]['e'])
    prev = {start_block: None}
    dq = deque([start_block])
    while dq:
        b = dq.popleft()
        if b in headers or b == cfg.exit:
            path = []
            x = b
            while prev.get(x) is not None:
                pb, label = prev[x]
                d = cfg.describe_edge(pb, label) if label else None
                if d:
                    path.append(d)
                x = pb
            return list(reversed(path)) + ['-> %s without the required step' % ('next iteration' if b in headers else 'function exit')]
        if has_req(b):
            continue
        for s_, label, _f in cfg.out_edges(b):
            if s_ not in prev:
                prev[s_] = (b, label)
                dq.append(s_)
    return None


def must_hold_at(fn, sites, gen_edge, kill_elem, entry_state=False):
    """R-CURSOR: forward must-dataflow of one boolean fact.  The fact becomes true on an edge whose implied facts satisfy
    gen_edge(fact), becomes false after an element accepted by kill_elem(node id), joins by AND.  Returns {site node: bool}
    = the fact holds immediately before the site is evaluated on every path."""
    cfg = Cfg.of(fn)
    blocks = cfg.blocks
    reach = cfg.reachable_blocks()
    IN = {b: True for b in reach}       # optimistic start for the greatest fixpoint
    IN[cfg.entry] = entry_state
    site_set = set(sites)
    at_site = {}

    # a kill that is an operand of a site (`input_[pos_++]`) takes effect after the site has used the old value
    inside = {}
    for s_ in sites:
        for j in fn.walk(s_):
            if j != s_:
                inside[j] = s_

    def flow(b, state, record=False):
        pending = set()
        for e in blocks[b]['e']:
            if not isinstance(e, int):
                continue
            if e in site_set:
                if record:
                    at_site[e] = at_site.get(e, True) and state
                if e in pending:
                    state = False
                    pending.discard(e)
            if kill_elem(e):
                if e in inside:
                    pending.add(inside[e])
                else:
                    state = False
        if pending:
            state = False
        return state
    changed = True
    preds = {b: [] for b in reach}
    for b in reach:
        for s, _l, facts in cfg.out_edges(b):
            if s in preds:
                preds[s].append((b, facts))
    rounds = 0
    while changed:
        changed = False
        rounds += 1
        if rounds > 200:
            raise AnalysisBroken('cursor dataflow did not converge in %s' % fn.q)
        OUT = {b: flow(b, IN[b]) for b in reach}
        for b in reach:
            if b == cfg.entry:
                continue
            vals = []
            for p, facts in preds[b]:
                v = OUT[p] or fact_passes(gen_edge, facts)
                vals.append(v)
            new = all(vals) if vals else False
            if new != IN[b]:
                IN[b] = new
                changed = True
    for b in reach:
        flow(b, IN[b], record=True)
    res = {}
    for s in sites:
        if s in at_site:
            res[s] = at_site[s]
        else:
            # the site is not itself a CFG element: use the nearest enclosing element
            loc = cfg.locate(s)
            if loc is None:
                raise AnalysisBroken('site %d of %s not in CFG' % (s, fn.q))
            b, idx = loc
            st = IN[b]
            for e in blocks[b]['e'][:idx]:
                if isinstance(e, int) and kill_elem(e):
                    st = False
            res[s] = st
    return res

"""Matchers shared by the property modules: normalised comparisons, value identity."""
from .flow import origin_chain

FLIP = {'<': '>', '>': '<', '<=': '>=', '>=': '<=', '==': '==', '!=': '!='}
NEG = {'<': '>=', '>': '<=', '<=': '>', '>=': '<', '==': '!=', '!=': '=='}


def comparison(fn, node):
    """(op, lhs, rhs) of a built-in or overloaded comparison, else None."""
    node = fn.strip(node, casts=False)
    nd = fn.nodes[node]
    res = None
    if nd['k'] == 'BinaryOperator' and nd.get('op') in FLIP:
        a, b = fn.kids(node)
        res = nd['op'], a, b
    elif nd['k'] == 'CXXOperatorCallExpr' and nd.get('op') in FLIP:
        ks = fn.kids(node)
        if len(ks) == 3:
            res = nd['op'], ks[1], ks[2]
    if res is None:
        return None
    # C++20 rewritten comparison: (x <=> y) op 0   /   0 op (x <=> y)
    op, a, b = res
    sa_, sb_ = fn.strip(a), fn.strip(b)
    if _is_spaceship(fn, sa_) and _is_zero_cat(fn, sb_):
        x, y = _spaceship_operands(fn, sa_)
        return op, x, y
    if _is_spaceship(fn, sb_) and _is_zero_cat(fn, sa_):
        x, y = _spaceship_operands(fn, sb_)
        return FLIP[op], x, y
    return res


def _is_spaceship(fn, i):
    nd = fn.nodes[i]
    return nd.get('op') == '<=>' and nd['k'] in ('CXXOperatorCallExpr', 'BinaryOperator')


def _spaceship_operands(fn, i):
    ks = fn.kids(i)
    return (ks[1], ks[2]) if fn.nodes[i]['k'] == 'CXXOperatorCallExpr' else (ks[0], ks[1])


def _is_zero_cat(fn, i):
    nd = fn.nodes[i]
    if '__unspec' in nd.get('t', '') or '__unspec' in nd.get('callee', ''):
        return True
    return nd.get('cv') == '0'


def holds(fn, fact):
    """For a fact ('bool', comparison, value) return the relation known to hold as
    (lhs, rel, rhs) with rel one of < <= > >= == != ; else None."""
    kind, node, val = fact
    if kind != 'bool':
        return None
    c = comparison(fn, node)
    if c is None:
        return None
    op, a, b = c
    if not val:
        op = NEG[op]
    return a, op, b


def same_value(fn, a, b):
    """Two expressions denote the same value: their origin chains meet in a node or in references
    to the same declaration."""
    ca = list(origin_chain(fn, a))
    cb = list(origin_chain(fn, b))
    if set(ca) & set(cb):
        return True
    da = {fn.nodes[i].get('d') for i in ca if fn.nodes[i]['k'] == 'DeclRefExpr'}
    db = {fn.nodes[i].get('d') for i in cb if fn.nodes[i]['k'] == 'DeclRefExpr'}
    if da & db:
        return True
    ma = {(fn.nodes[i].get('m'), fn.text(i)) for i in ca if fn.nodes[i]['k'] == 'MemberExpr'}
    mb = {(fn.nodes[i].get('m'), fn.text(i)) for i in cb if fn.nodes[i]['k'] == 'MemberExpr'}
    return bool(ma & mb)


def le_gate(fn, small, big, strict_ok=True):
    """Pass-fact predicate: the edge implies small <= big (or small < big).
    small / big are predicates over node ids."""
    def is_pass(fact):
        h = holds(fn, fact)
        if h is None:
            return False
        a, rel, b = h
        if rel in ('<=', '<') and small(a) and big(b):
            return True
        if rel in ('>=', '>') and small(b) and big(a):
            return True
        return False
    return is_pass


def call_true(fn, callee, argcheck=None, value=True):
    """Pass-fact predicate: call to `callee` evaluated to `value` (optionally checking args)."""
    from .prog import match_name

    def is_pass(fact):
        kind, node, val = fact
        if kind != 'bool' or val is not value:
            return False
        nd = fn.nodes[node]
        if not match_name(callee, nd.get('callee')):
            return False
        return argcheck is None or argcheck(node)
    return is_pass


def has_value(fn, pred, value=True):
    """Pass-fact predicate: optional produced by a node accepted by pred is engaged (or not)."""
    def is_pass(fact):
        kind, node, val = fact
        return kind == 'has' and val is value and pred(node)
    return is_pass


def const_value(fn, node):
    """Integer constant value of an expression if clang could fold it."""
    i = node
    while i is not None and i >= 0:
        nd = fn.nodes[i]
        if 'cv' in nd:
            return int(nd['cv'])
        ks = fn.kids(i)
        from .prog import WRAPPERS
        if nd['k'] in WRAPPERS and ks:
            i = ks[0]
            continue
        if nd['k'] in ('CXXConstructExpr', 'CXXTemporaryObjectExpr') and len(ks) == 1:
            i = ks[0]
            continue
        return None
    return None


def is_zero(fn, node):
    """Literal 0 or a std::chrono ::zero() value."""
    if const_value(fn, node) == 0:
        return True
    n = fn.strip(node)
    return fn.nodes[n].get('callee', '').endswith('::zero')

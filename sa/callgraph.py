"""G1: call graph over the exported program (direct calls, lambdas, std::function bindings, thread entries)."""
from collections import deque


class CallGraph:
    def __init__(self, prog):
        self.P = prog
        self.edges = {}      # qname -> set(qname)
        self.sites = {}      # (caller q, callee q) -> [(fn, node)]
        known = set(prog.by_q)
        for f in prog.fns:
            out = self.edges.setdefault(f.q, set())
            for i in f.walk():
                nd = f.nodes[i]
                c = nd.get('callee')
                if c:
                    out.add(c)
                    self.sites.setdefault((f.q, c), []).append((f, i))
                if nd['k'] == 'LambdaExpr' and nd.get('fn'):
                    # a lambda defined in f is (conservatively) invoked from f or from what f hands it to
                    out.add(nd['fn'])
                    self.sites.setdefault((f.q, nd['fn']), []).append((f, i))
                if nd['k'] == 'DeclRefExpr' and nd.get('dk') in ('Function', 'CXXMethod') and nd.get('q') in known:
                    # function used as a value (callback, thread entry)
                    out.add(nd['q'])
                if nd['k'] == 'UnaryOperator' and nd.get('op') == '&':
                    for j in f.walk(i):
                        q = f.nodes[j].get('q')
                        if q in known:
                            out.add(q)

    def reachable(self, roots, stop=None):
        seen = set()
        dq = deque(roots)
        while dq:
            q = dq.popleft()
            if q in seen:
                continue
            seen.add(q)
            if stop is not None and stop(q):
                continue
            for c in self.edges.get(q, ()):
                if c not in seen:
                    dq.append(c)
        return seen

    def path(self, root, target):
        prev = {root: None}
        dq = deque([root])
        while dq:
            q = dq.popleft()
            if q == target:
                out = []
                while q is not None:
                    out.append(q)
                    q = prev[q]
                return list(reversed(out))
            for c in self.edges.get(q, ()):
                if c not in prev:
                    prev[c] = q
                    dq.append(c)
        return None

    def callers(self, q):
        return [a for a, outs in self.edges.items() if q in outs]

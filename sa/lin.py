"""Linear arithmetic over the rationals for N1: linear forms, constraint sets, entailment by
Fourier–Motzkin elimination.  All program quantities are integers, so a strict `e < 0` over
integer-coefficient forms is tightened to `e + 1 <= 0`."""
from fractions import Fraction
from math import gcd


class Lin:
    """c0 + sum(ci * xi).  Immutable."""
    __slots__ = ('t', 'c')

    def __init__(self, terms=None, const=0):
        self.t = {k: Fraction(v) for k, v in (terms or {}).items() if v != 0}
        self.c = Fraction(const)

    @staticmethod
    def const(v):
        return Lin({}, v)

    @staticmethod
    def sym(name):
        return Lin({name: 1}, 0)

    def is_const(self):
        return not self.t

    def __add__(self, o):
        o = as_lin(o)
        t = dict(self.t)
        for k, v in o.t.items():
            t[k] = t.get(k, 0) + v
        return Lin(t, self.c + o.c)

    __radd__ = __add__

    def __neg__(self):
        return Lin({k: -v for k, v in self.t.items()}, -self.c)

    def __sub__(self, o):
        return self + (-as_lin(o))

    def __rsub__(self, o):
        return as_lin(o) - self

    def scale(self, k):
        k = Fraction(k)
        return Lin({s: v * k for s, v in self.t.items()}, self.c * k)

    def __mul__(self, o):
        o = as_lin(o)
        if o.is_const():
            return self.scale(o.c)
        if self.is_const():
            return o.scale(self.c)
        return None

    def subst(self, m):
        """Replace symbols by linear forms."""
        r = Lin({}, self.c)
        for k, v in self.t.items():
            if k in m:
                r = r + as_lin(m[k]).scale(v)
            else:
                r = r + Lin({k: v})
        return r

    def syms(self):
        return set(self.t)

    def key(self):
        return (tuple(sorted(self.t.items())), self.c)

    def __eq__(self, o):
        return isinstance(o, Lin) and self.key() == o.key()

    def __hash__(self):
        return hash(self.key())

    def __repr__(self):
        parts = []
        for k, v in sorted(self.t.items()):
            if v == 1:
                parts.append('%s' % k)
            elif v == -1:
                parts.append('-%s' % k)
            else:
                parts.append('%s*%s' % (v, k))
        if self.c != 0 or not parts:
            parts.append(str(self.c))
        return ' + '.join(parts).replace('+ -', '- ')


def as_lin(x):
    if isinstance(x, Lin):
        return x
    return Lin.const(x)


def normalise(e):
    """Scale a form `e <= 0` to integer coefficients with gcd 1 and tighten the constant (all
    symbols are integers)."""
    if e.is_const():
        return e
    den = 1
    for v in list(e.t.values()):
        den = den * v.denominator // gcd(den, v.denominator)
    e2 = e.scale(den)
    g = 0
    for v in e2.t.values():
        g = gcd(g, abs(int(v)))
    if g > 1:
        e2 = e2.scale(Fraction(1, g))
    # integer tightening: sum(ai xi) + c <= 0 with integer ai => c can be rounded up
    c = e2.c
    cc = -((-c.numerator) // c.denominator) if c.denominator != 1 else c.numerator   # ceil
    return Lin(e2.t, cc)


class Cons:
    """Conjunction of constraints  e <= 0  (list of Lin)."""

    def __init__(self, cs=None):
        self.cs = list(cs or [])
        self._keys = {c.key() for c in self.cs}
        self.bottom = False

    def copy(self):
        n = Cons()
        n.cs = list(self.cs)
        n._keys = set(self._keys)
        n.bottom = self.bottom
        return n

    def add_le(self, e):
        """e <= 0"""
        e = normalise(as_lin(e))
        if e.is_const():
            if e.c > 0:
                self.bottom = True
            return
        k = e.key()
        if k not in self._keys:
            self._keys.add(k)
            self.cs.append(e)

    def add_lt(self, e):
        self.add_le(as_lin(e) + 1)

    def add_eq(self, e):
        self.add_le(e)
        self.add_le(-as_lin(e))

    def syms(self):
        s = set()
        for c in self.cs:
            s |= c.syms()
        return s

    def is_unsat(self):
        if self.bottom:
            return True
        return not _fm_sat(self.cs)

    def entails_le(self, e):
        """Does the conjunction imply e <= 0 ?  (checks unsatisfiability of  cs ∧ e >= 1)"""
        e = as_lin(e)
        if self.bottom:
            return True
        if e.is_const():
            return e.c <= 0 or not _fm_sat(self.cs)
        neg = normalise((-e) + 1)        # -e + 1 <= 0  <=>  e >= 1
        rel = _cone(self.cs, neg.syms())
        return not _fm_sat(rel + [neg])

    def entails_lt(self, e):
        return self.entails_le(as_lin(e) + 1)

    def entails_eq(self, e):
        return self.entails_le(e) and self.entails_le(-as_lin(e))

    def bounds(self, e):
        """(lo, hi) constants when e is provably bounded by syntactic search of small candidates; else None."""
        return None

    def __repr__(self):
        return ' ∧ '.join('%r<=0' % c for c in self.cs) or 'true'


def _cone(cs, syms):
    """Constraints transitively connected to the given symbols."""
    syms = set(syms)
    rest = list(cs)
    out = []
    changed = True
    while changed:
        changed = False
        keep = []
        for c in rest:
            if c.syms() & syms:
                out.append(c)
                syms |= c.syms()
                changed = True
            else:
                keep.append(c)
        rest = keep
    return out


def _fm_sat(cs, limit=4000):
    """Satisfiability over Q of {e <= 0}.  Fourier–Motzkin with redundancy pruning.  When the system
    grows beyond `limit` the answer is 'satisfiable' (sound for entailment: we then fail to prove)."""
    cur = []
    seen = set()
    for c in cs:
        if c.is_const():
            if c.c > 0:
                return False
            continue
        k = c.key()
        if k not in seen:
            seen.add(k)
            cur.append(c)
    cur = _subst_equalities(cur)
    if cur is None:
        return False
    while True:
        syms = {}
        for c in cur:
            for s, v in c.t.items():
                p, n = syms.get(s, (0, 0))
                syms[s] = (p + (v > 0), n + (v < 0))
        if not syms:
            return True
        # symbols bounded on one side only can be dropped with their constraints
        one_sided = [s for s, (p, n) in syms.items() if p == 0 or n == 0]
        if one_sided:
            os_ = set(one_sided)
            cur = [c for c in cur if not (c.syms() & os_)]
            continue
        # eliminate the symbol producing the fewest new constraints
        s = min(syms, key=lambda x: syms[x][0] * syms[x][1] - syms[x][0] - syms[x][1])
        pos = [c for c in cur if c.t.get(s, 0) > 0]
        neg = [c for c in cur if c.t.get(s, 0) < 0]
        rest = [c for c in cur if s not in c.t]
        new = []
        seen = {c.key() for c in rest}
        for p in pos:
            for n in neg:
                a, b = p.t[s], -n.t[s]
                e = p.scale(b) + n.scale(a)
                e = normalise(e)
                if e.is_const():
                    if e.c > 0:
                        return False
                    continue
                k = e.key()
                if k not in seen:
                    seen.add(k)
                    new.append(e)
        cur = rest + new
        if len(cur) > limit:
            return True


def _subst_equalities(cs):
    """Eliminate symbols defined by an equality (both e <= 0 and -e <= 0 present) in which they have coefficient +-1,
    by substitution; every rewritten constraint is re-normalised, so integer tightening sees e.g. 4K - 4q + 1 <= 0.
    Returns None when a contradiction appears."""
    cur = list(cs)
    for _ in range(64):
        keys = {c.key(): c for c in cur}
        pick = None
        for c in cur:
            if (-c).key() in keys:
                for sname, v in c.t.items():
                    if abs(v) == 1:
                        pick = (c, sname, v)
                        break
            if pick:
                break
        if not pick:
            return cur
        c, sname, v = pick
        # sname = -(c - v*sname)/v
        rest = Lin({k: x for k, x in c.t.items() if k != sname}, c.c)
        repl = rest.scale(Fraction(-1) / v)
        out = []
        seen = set()
        for d in cur:
            if d.key() == c.key() or d.key() == (-c).key():
                continue
            if sname in d.t:
                d = normalise(d.subst({sname: repl}))
            if d.is_const():
                if d.c > 0:
                    return None
                continue
            if d.key() not in seen:
                seen.add(d.key())
                out.append(d)
        cur = out
    return cur

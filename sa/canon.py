"""Canonical expression trees for table/shape rules (R-TABLE): value-preserving wrappers and casts are dropped,
operands of commutative operators are flattened and sorted, so that two spellings of the same formula compare equal."""
COMM = ('^', '|', '&', '+', '*')
CASTS = ('ParenExpr', 'ImplicitCastExpr', 'ExprWithCleanups', 'MaterializeTemporaryExpr', 'CXXBindTemporaryExpr', 'ConstantExpr',
         'CXXStaticCastExpr', 'CStyleCastExpr', 'CXXFunctionalCastExpr', 'SubstNonTypeTemplateParmExpr')


def canon(fn, n, depth=0):
    if n is None or n < 0 or depth > 40:
        return ('?',)
    nd = fn.nodes[n]
    k = nd['k']
    ks = fn.kids(n)
    if k in CASTS and ks:
        return canon(fn, ks[0], depth + 1)
    if k in ('IntegerLiteral', 'CharacterLiteral', 'CXXBoolLiteralExpr'):
        return ('c', int(nd['v']))
    if 'cv' in nd and k not in ('DeclRefExpr', 'MemberExpr') and not nd.get('lv'):
        return ('c', int(nd['cv']))
    if k == 'DeclRefExpr':
        if nd.get('g') and 'cv' in nd:
            return ('c', int(nd['cv']))
        return ('v', getattr(fn, '_pinned', {}).get(nd.get('d'), nd.get('n')))
    if k == 'MemberExpr':
        base = canon(fn, ks[0], depth + 1) if ks else ('this',)
        if base in (('this',), ('?',)) or (ks and fn.nodes[fn.strip(ks[0])]['k'] == 'CXXThisExpr'):
            return ('f', nd.get('n'))
        return ('m', base, nd.get('n'))
    if k == 'CXXThisExpr':
        return ('this',)
    if k in ('BinaryOperator', 'CompoundAssignOperator') and len(ks) == 2:
        op = nd['op']
        a, b = canon(fn, ks[0], depth + 1), canon(fn, ks[1], depth + 1)
        if op in COMM:
            items = []
            for x in (a, b):
                if x[0] == op:
                    items.extend(x[1:])
                else:
                    items.append(x)
            return (op,) + tuple(sorted(items, key=repr))
        return (op, a, b)
    if k == 'UnaryOperator' and ks:
        return ('u' + nd['op'] + ('post' if nd.get('postfix') else ''), canon(fn, ks[0], depth + 1))
    if k == 'ArraySubscriptExpr' and len(ks) == 2:
        return ('idx', canon(fn, ks[0], depth + 1), canon(fn, ks[1], depth + 1))
    if k == 'CXXOperatorCallExpr':
        op = nd.get('op')
        args = [canon(fn, x, depth + 1) for x in ks[1:]]
        if op == '[]' and len(args) == 2:
            return ('idx', args[0], args[1])
        return ('op' + str(op),) + tuple(args)
    if k == 'CallExpr':
        name = (nd.get('callee') or '?').split('::')[-1]
        return ('call', name) + tuple(canon(fn, x, depth + 1) for x in ks[1:])
    if k == 'CXXMemberCallExpr':
        name = (nd.get('callee') or '?').split('::')[-1]
        recv = fn.receiver(n)
        return ('mcall', name, canon(fn, recv, depth + 1) if recv is not None else ('this',)) + tuple(canon(fn, x, depth + 1) for x in ks[1:])
    if k == 'ConditionalOperator':
        return ('?:', canon(fn, nd['cond'], depth + 1), canon(fn, nd['then'], depth + 1), canon(fn, nd['else'], depth + 1))
    if k in ('CXXConstructExpr', 'CXXTemporaryObjectExpr') and len(ks) == 1:
        return canon(fn, ks[0], depth + 1)
    if k == 'InitListExpr':
        return ('list',) + tuple(canon(fn, x, depth + 1) for x in ks)
    return ('?' + k,)


def norm(t):
    """Normalise a hand-written reference tree the same way (sort commutative operands)."""
    if not isinstance(t, tuple):
        return t
    t = tuple(norm(x) for x in t)
    if t and t[0] in COMM:
        items = []
        for x in t[1:]:
            if isinstance(x, tuple) and x and x[0] == t[0]:
                items.extend(x[1:])
            else:
                items.append(x)
        return (t[0],) + tuple(sorted(items, key=repr))
    return t


def V(n):
    return ('v', n)


def C(n):
    return ('c', n)


def return_expr(fn):
    """Canonical tree of the single return expression of a small pure function."""
    rets = [i for i in fn.walk() if fn.nodes[i]['k'] == 'ReturnStmt']
    if len(rets) != 1 or not fn.kids(rets[0]):
        return None
    return canon(fn, fn.kids(rets[0])[0])


def statements(fn, root=None):
    """[(kind, lhs, rhs)] for the assignment-like expression statements under root, in source order."""
    out = []
    for i in fn.walk(root):
        nd = fn.nodes[i]
        if nd['k'] in ('BinaryOperator', 'CompoundAssignOperator') and nd.get('op', '').endswith('=') and nd['op'] not in ('==', '!=', '<=', '>='):
            l, r = fn.kids(i)
            out.append((nd['op'], canon(fn, l), canon(fn, r), i))
        elif nd['k'] == 'CXXOperatorCallExpr' and nd.get('op', '').endswith('=') and nd['op'] not in ('==', '!=', '<=', '>=') and len(fn.kids(i)) == 3:
            out.append((nd['op'], canon(fn, fn.kids(i)[1]), canon(fn, fn.kids(i)[2]), i))
    return out


# ---- names ---------------------------------------------------------------------------------------------------------
# Table rules are written with the parameter and local names of the pinned tree.  So that renaming a parameter or a local
# (a behaviour-preserving edit) does not disturb them, each function's declarations are mapped *by position* onto the pinned
# names recorded in props/pinned_names.json (parameters by index, locals by declaration order).  When the number of locals
# differs from the pinned list the source names are used as they are.
_PINNED = None


def local_decls(fn):
    pd = {p['d'] for p in fn.params}
    return [fn.nodes[i] for i in fn.walk() if fn.nodes[i]['k'] == 'VarDecl' and fn.nodes[i].get('d') not in pd and fn.nodes[i].get('n')]


def pin(fn):
    """Attach the positional renaming for fn (idempotent). Returns fn."""
    global _PINNED
    import json
    import os
    if _PINNED is None:
        path = os.path.join(os.path.dirname(os.path.dirname(os.path.abspath(__file__))), 'props', 'pinned_names.json')
        _PINNED = json.load(open(path)) if os.path.exists(path) else {}
    if getattr(fn, '_pinned', None) is not None:
        return fn
    ren = {}
    ent = _PINNED.get(fn.q)
    if ent:
        if len(ent['params']) == len(fn.params):
            for p_, want in zip(fn.params, ent['params']):
                ren[p_['d']] = want
        decls = local_decls(fn)
        if len(decls) == len(ent['locals']):
            for nd, want in zip(decls, ent['locals']):
                ren[nd['d']] = want
    fn._pinned = ren
    return fn


def vn(fn, nd):
    """Pinned name of a declaration node (VarDecl / ParmVar / DeclRefExpr)."""
    return getattr(fn, '_pinned', {}).get(nd.get('d'), nd.get('n'))

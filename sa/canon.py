"""Canonical expression trees for table/shape rules (R-TABLE): value-preserving wrappers and casts are dropped,
operands of commutative operators are flattened and sorted, so that two spellings of the same formula compare equal."""
COMM = ('^', '|', '&', '+', '*')
CASTS = ('ParenExpr', 'ImplicitCastExpr', 'ExprWithCleanups', 'MaterializeTemporaryExpr', 'CXXBindTemporaryExpr', 'ConstantExpr',
         'CXXStaticCastExpr', 'CStyleCastExpr', 'CXXFunctionalCastExpr', 'SubstNonTypeTemplateParmExpr')


def canon(fn, n, depth=0):
    if n is None or n < 0 or depth > 40:
        return ('?',)
    nd = fn.nodes[n]
    k = nd['k']
    ks = fn.kids(n)
    if k in CASTS and ks:
        return canon(fn, ks[0], depth + 1)
    if k in ('IntegerLiteral', 'CharacterLiteral', 'CXXBoolLiteralExpr'):
        return ('c', int(nd['v']))
    if 'cv' in nd and k not in ('DeclRefExpr', 'MemberExpr') and not nd.get('lv'):
        return ('c', int(nd['cv']))
    if k == 'DeclRefExpr':
        if nd.get('g') and 'cv' in nd:
            return ('c', int(nd['cv']))
        name = getattr(fn, '_pinned', {}).get(nd.get('d'), nd.get('n'))
        kl = getattr(fn, '_known_locals', None)
        if kl is not None and name not in kl and nd.get('dk') == 'Var' and not nd.get('g'):
            ini = temp_init(fn, nd.get('d'))
            if ini is not None:
                return canon(fn, ini, depth + 1)
        return ('v', name)
    if k == 'MemberExpr':
        base = canon(fn, ks[0], depth + 1) if ks else ('this',)
        if base in (('this',), ('?',)) or (ks and fn.nodes[fn.strip(ks[0])]['k'] == 'CXXThisExpr'):
            return ('f', nd.get('n'))
        return ('m', base, nd.get('n'))
    if k == 'CXXThisExpr':
        return ('this',)
    if k in ('BinaryOperator', 'CompoundAssignOperator') and len(ks) == 2:
        op = nd['op']
        a, b = canon(fn, ks[0], depth + 1), canon(fn, ks[1], depth + 1)
        if op in COMM:
            items = []
            for x in (a, b):
                if x[0] == op:
                    items.extend(x[1:])
                else:
                    items.append(x)
            return (op,) + tuple(sorted(items, key=repr))
        return (op, a, b)
    if k == 'UnaryOperator' and ks:
        return ('u' + nd['op'] + ('post' if nd.get('postfix') else ''), canon(fn, ks[0], depth + 1))
    if k == 'ArraySubscriptExpr' and len(ks) == 2:
        return ('idx', canon(fn, ks[0], depth + 1), canon(fn, ks[1], depth + 1))
    if k == 'CXXOperatorCallExpr':
        op = nd.get('op')
        args = [canon(fn, x, depth + 1) for x in ks[1:]]
        if op == '[]' and len(args) == 2:
            return ('idx', args[0], args[1])
        return ('op' + str(op),) + tuple(args)
    if k == 'CallExpr':
        name = (nd.get('callee') or '?').split('::')[-1]
        return ('call', name) + tuple(canon(fn, x, depth + 1) for x in ks[1:])
    if k == 'CXXMemberCallExpr':
        name = (nd.get('callee') or '?').split('::')[-1]
        recv = fn.receiver(n)
        return ('mcall', name, canon(fn, recv, depth + 1) if recv is not None else ('this',)) + tuple(canon(fn, x, depth + 1) for x in ks[1:])
    if k == 'ConditionalOperator':
        return ('?:', canon(fn, nd['cond'], depth + 1), canon(fn, nd['then'], depth + 1), canon(fn, nd['else'], depth + 1))
    if k in ('CXXConstructExpr', 'CXXTemporaryObjectExpr') and len(ks) == 1:
        return canon(fn, ks[0], depth + 1)
    if k == 'InitListExpr':
        return ('list',) + tuple(canon(fn, x, depth + 1) for x in ks)
    return ('?' + k,)


def temp_init(fn, d):
    """A local the pinned tree does not have (an edit introduced it) that merely names a value: initialised once by a
    call-free expression, never written again, and declared in a block in which none of the variables its initialiser reads
    is written.  Such a local is transparent for shape rules: canon() replaces it by its initialiser.  Returns the
    initialiser node or None."""
    cache = fn.__dict__.setdefault('_temp_init', {})
    if d in cache:
        return cache[d]
    cache[d] = None
    from sa.paths import local_writes
    vd = [i for i in fn.walk() if fn.nodes[i]['k'] == 'VarDecl' and fn.nodes[i].get('d') == d]
    if len(vd) != 1:
        return None
    nd = fn.nodes[vd[0]]
    ini = nd.get('init')
    t = nd.get('t') or ''
    if ini is None or ini < 0 or t.endswith('&') and not t.startswith('const ') or t.endswith('*'):
        return None
    if local_writes(fn, d):
        return None
    for j in fn.walk(ini):
        k = fn.nodes[j]['k']
        # the value must not depend on memory that a call or a store between the declaration and a use can change: no read
        # through a pointer, a reference or an arrow (e.g. `session->state`), only local values and constants
        if k == 'MemberExpr' and fn.nodes[j].get('arrow') or k == 'UnaryOperator' and fn.nodes[j].get('op') == '*' or k == 'CXXThisExpr':
            return None
        if k == 'DeclRefExpr' and fn.nodes[j].get('dk') in ('Var', 'ParmVar') and not fn.nodes[j].get('g') and (fn.nodes[j].get('t') or '').rstrip().endswith(('&', '*')):
            return None
        if k == 'DeclRefExpr' and fn.nodes[j].get('g') and 'cv' not in fn.nodes[j]:
            return None
        if k in ('CallExpr', 'CXXMemberCallExpr', 'LambdaExpr', 'CXXNewExpr') and not (fn.nodes[j].get('callee') or '').endswith(('::size', '::data', '::operator[]', '::at')):
            return None
        if k == 'CXXOperatorCallExpr' and fn.nodes[j].get('op') not in ('[]', '*', '->', '+', '-', '^', '|', '&', '<<', '>>', '==', '!=', '<', '>', '<=', '>='):
            return None
        if k in ('UnaryOperator',) and fn.nodes[j].get('op') in ('++', '--'):
            return None
        if k in ('BinaryOperator', 'CompoundAssignOperator') and (fn.nodes[j].get('op') or '').endswith('=') and fn.nodes[j]['op'] not in ('==', '!=', '<=', '>='):
            return None
    # the enclosing block
    blk = None
    for a in fn.ancestors(vd[0]):
        if fn.nodes[a]['k'] == 'CompoundStmt':
            blk = a
            break
    if blk is None:
        return None
    read = {fn.nodes[j].get('d') for j in fn.walk(ini) if fn.nodes[j]['k'] == 'DeclRefExpr' and fn.nodes[j].get('dk') in ('Var', 'ParmVar')}
    for r_ in read:
        for w in local_writes(fn, r_):
            if fn.is_in(w, blk):
                return None
    # fields read by the initialiser: no call or assignment inside the block may change them -> only allow when no member is read
    if any(fn.nodes[j]['k'] == 'MemberExpr' and fn.nodes[j].get('mk') == 'Field' and fn.nodes[fn.strip(fn.kids(j)[0])]['k'] == 'CXXThisExpr' for j in fn.walk(ini) if fn.kids(j)):
        return None
    cache[d] = ini
    return ini


def norm(t):
    """Normalise a hand-written reference tree the same way (sort commutative operands)."""
    if not isinstance(t, tuple):
        return t
    t = tuple(norm(x) for x in t)
    if t and t[0] in COMM:
        items = []
        for x in t[1:]:
            if isinstance(x, tuple) and x and x[0] == t[0]:
                items.extend(x[1:])
            else:
                items.append(x)
        return (t[0],) + tuple(sorted(items, key=repr))
    return t


def V(n):
    return ('v', n)


def C(n):
    return ('c', n)


def return_expr(fn):
    """Canonical tree of the single return expression of a small pure function."""
    rets = [i for i in fn.walk() if fn.nodes[i]['k'] == 'ReturnStmt']
    if len(rets) != 1 or not fn.kids(rets[0]):
        return None
    return canon(fn, fn.kids(rets[0])[0])


def statements(fn, root=None):
    """[(kind, lhs, rhs)] for the assignment-like expression statements under root, in source order."""
    out = []
    for i in fn.walk(root):
        nd = fn.nodes[i]
        if nd['k'] in ('BinaryOperator', 'CompoundAssignOperator') and nd.get('op', '').endswith('=') and nd['op'] not in ('==', '!=', '<=', '>='):
            l, r = fn.kids(i)
            out.append((nd['op'], canon(fn, l), canon(fn, r), i))
        elif nd['k'] == 'CXXOperatorCallExpr' and nd.get('op', '').endswith('=') and nd['op'] not in ('==', '!=', '<=', '>=') and len(fn.kids(i)) == 3:
            out.append((nd['op'], canon(fn, fn.kids(i)[1]), canon(fn, fn.kids(i)[2]), i))
    return out


# ---- names ---------------------------------------------------------------------------------------------------------
# Table rules are written with the parameter and local names of the pinned tree.  So that renaming a parameter or a local
# (a behaviour-preserving edit) does not disturb them, each function's declarations are mapped *by position* onto the pinned
# names recorded in props/pinned_names.json (parameters by index, locals by declaration order).  When the number of locals
# differs from the pinned list the source names are used as they are.
_PINNED = None


def local_decls(fn):
    pd = {p['d'] for p in fn.params}
    return [fn.nodes[i] for i in fn.walk() if fn.nodes[i]['k'] == 'VarDecl' and fn.nodes[i].get('d') not in pd and fn.nodes[i].get('n')]


def pin(fn):
    """Attach the positional renaming for fn (idempotent). Returns fn."""
    global _PINNED
    import json
    import os
    if _PINNED is None:
        path = os.path.join(os.path.dirname(os.path.dirname(os.path.abspath(__file__))), 'props', 'pinned_names.json')
        _PINNED = json.load(open(path)) if os.path.exists(path) else {}
    if getattr(fn, '_pinned', None) is not None:
        return fn
    ren = {}
    ent = _PINNED.get(fn.q)
    if ent:
        if len(ent['params']) == len(fn.params):
            for p_, want in zip(fn.params, ent['params']):
                ren[p_['d']] = want
        decls = local_decls(fn)
        if len(decls) == len(ent['locals']):
            for nd, want in zip(decls, ent['locals']):
                ren[nd['d']] = want
    fn._pinned = ren
    return fn


def vn(fn, nd):
    """Pinned name of a declaration node (VarDecl / ParmVar / DeclRefExpr)."""
    return getattr(fn, '_pinned', {}).get(nd.get('d'), nd.get('n'))

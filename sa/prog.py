"""Program model over the envx facts: functions, nodes, CFG, helpers for matching."""
import json
import os
import re

from . import build
from .build import AnalysisBroken

WRAPPERS = ('ParenExpr', 'ImplicitCastExpr', 'ExprWithCleanups', 'MaterializeTemporaryExpr',
            'CXXBindTemporaryExpr', 'ConstantExpr', 'SubstNonTypeTemplateParmExpr', 'CXXDefaultArgExpr',
            'CXXFunctionalCastExpr', 'CXXStaticCastExpr', 'CStyleCastExpr', 'CXXRewrittenBinaryOperator')
# wrappers that never change the value (casts may): used by strip(casts=False)
TRANSPARENT = ('ParenExpr', 'ExprWithCleanups', 'MaterializeTemporaryExpr', 'CXXBindTemporaryExpr',
               'ConstantExpr', 'SubstNonTypeTemplateParmExpr', 'CXXRewrittenBinaryOperator')

INT_TYPES = {
    'bool': (1, False), 'char': (8, True), 'signed char': (8, True), 'unsigned char': (8, False),
    'short': (16, True), 'unsigned short': (16, False), 'int': (32, True), 'unsigned int': (32, False),
    'long': (64, True), 'unsigned long': (64, False), 'long long': (64, True),
    'unsigned long long': (64, False), 'char8_t': (8, False), 'char16_t': (16, False),
    'char32_t': (32, False), 'wchar_t': (32, True), '__int128': (128, True),
    'unsigned __int128': (128, False),
}


def int_type(t):
    if t is None:
        return None
    t = t.replace('const ', '').replace('volatile ', '').strip()
    return INT_TYPES.get(t)


def short(q):
    """Drop namespaces that only add noise in reports."""
    return q.replace('ephemeralnet::', '').replace('(anonymous namespace)::', '')


class Fn:
    def __init__(self, d, unit):
        self.d = d
        self.unit = unit
        self.q = d['q']
        self.file = d['file']
        self.line = d['line']
        self.end = d['end']
        self.nodes = d['nodes']
        self.body = d['body']
        self.params = d['params']
        self.kind = d.get('kind')
        self.cls = d.get('cls')
        self.is_lambda = d.get('lambda', False)
        self.parent_fn = d.get('parent')
        self.noexcept = d.get('noexcept', False)
        self.sig = d.get('sig')
        self.targs = d.get('targs')
        self.cfg = d.get('cfg')
        self._parent = None
        self._blocks = None

    def __repr__(self):
        return '<Fn %s %s:%d>' % (self.q, os.path.basename(self.file), self.line)

    @property
    def name(self):
        return short(self.q)

    def loc(self, nid=None):
        rel = self.file
        for root in (build.REPO.rstrip('/') + '/',):
            if rel.startswith(root):
                rel = rel[len(root):]
        if nid is None:
            return '%s:%d' % (rel, self.line)
        return '%s:%d' % (rel, self.nodes[nid].get('l', 0))

    # ---- tree navigation -------------------------------------------------------
    def n(self, i):
        return self.nodes[i]

    def kids(self, i):
        return [c for c in self.nodes[i].get('c', []) if c is not None and c >= 0]

    def parent_map(self):
        if self._parent is None:
            pm = {}
            for i, nd in enumerate(self.nodes):
                for c in nd.get('c', []):
                    if c is not None and c >= 0 and c not in pm:
                        pm[c] = i
            self._parent = pm
        return self._parent

    def parent(self, i):
        return self.parent_map().get(i)

    def ancestors(self, i):
        pm = self.parent_map()
        while i in pm:
            i = pm[i]
            yield i

    def walk(self, i=None):
        """All node ids in the subtree of i (pre-order). Does not enter lambda bodies (they are
        separate functions); capture initialisers are part of the subtree."""
        if i is None:
            roots = list(self.d.get('inits', [])) + [self.body]
        else:
            roots = [i]
        stack = list(reversed(roots))
        seen = set()
        while stack:
            x = stack.pop()
            if x is None or x < 0 or x in seen:
                continue
            seen.add(x)
            yield x
            stack.extend(reversed(self.kids(x)))

    def strip(self, i, casts=True):
        """Skip value-preserving wrappers (and, by default, casts)."""
        ws = WRAPPERS if casts else TRANSPARENT
        while i is not None and i >= 0:
            nd = self.nodes[i]
            k = nd['k']
            if k in ws:
                ks = self.kids(i)
                if not ks:
                    return i
                i = ks[0]
                continue
            if k == 'CXXConstructExpr' and (nd.get('copymove') or nd.get('elidable')) and len(self.kids(i)) == 1:
                i = self.kids(i)[0]
                continue
            return i
        return i

    def is_in(self, i, anc):
        if i == anc:
            return True
        for a in self.ancestors(i):
            if a == anc:
                return True
        return False

    # ---- matching --------------------------------------------------------------
    def find(self, pred, root=None):
        return [i for i in self.walk(root) if pred(self.nodes[i])]

    def calls(self, callee, root=None):
        """Call / construct expressions whose resolved callee matches (exact qualified name, or regex
        when `callee` is a compiled pattern)."""
        out = []
        for i in self.walk(root):
            nd = self.nodes[i]
            c = nd.get('callee')
            if c is None:
                continue
            if match_name(callee, c):
                out.append(i)
        return out

    def call_args(self, i):
        """Argument node ids of a call (object argument of member calls excluded)."""
        nd = self.nodes[i]
        ks = self.kids(i)
        k = nd['k']
        if k == 'CXXMemberCallExpr':
            return ks[1:]  # ks[0] is the MemberExpr callee
        if k == 'CXXOperatorCallExpr':
            return ks[1:]  # callee decl-ref first, then operands (incl. object)
        if k in ('CXXConstructExpr', 'CXXTemporaryObjectExpr'):
            return ks
        if k == 'CallExpr':
            return ks[1:]
        return ks

    def receiver(self, i):
        """Object expression of a member call (stripped), or None."""
        nd = self.nodes[i]
        if nd['k'] == 'CXXMemberCallExpr':
            ks = self.kids(i)
            if ks:
                me = self.strip(ks[0])
                if self.nodes[me]['k'] == 'MemberExpr':
                    mk = self.kids(me)
                    if mk:
                        return self.strip(mk[0])
        if nd['k'] == 'CXXOperatorCallExpr':
            ks = self.kids(i)
            if len(ks) >= 2:
                return self.strip(ks[1])
        return None

    def text(self, i, depth=0):
        """Compact rendering of an expression for reports."""
        if i is None or i < 0:
            return '?'
        if depth > 12:
            return '…'
        nd = self.nodes[i]
        k = nd['k']
        ks = self.kids(i)
        t = lambda j: self.text(j, depth + 1)
        if k in WRAPPERS and ks and k not in ('CXXStaticCastExpr', 'CStyleCastExpr', 'CXXFunctionalCastExpr'):
            return t(ks[0])
        if k in ('CXXStaticCastExpr', 'CStyleCastExpr', 'CXXFunctionalCastExpr'):
            return '(%s)%s' % (nd.get('tw', nd.get('t')), t(ks[0]) if ks else '')
        if k == 'DeclRefExpr':
            return nd['n']
        if k == 'MemberExpr':
            base = t(ks[0]) if ks else 'this'
            if ks and self.nodes[self.strip(ks[0])]['k'] == 'CXXThisExpr':
                return nd['n']
            return base + ('->' if nd.get('arrow') else '.') + nd['n']
        if k == 'CXXThisExpr':
            return 'this'
        if k in ('IntegerLiteral', 'CharacterLiteral', 'CXXBoolLiteralExpr', 'FloatingLiteral'):
            return nd.get('v', '?')
        if k == 'StringLiteral':
            return json.dumps(nd.get('s', ''))
        if k in ('BinaryOperator', 'CompoundAssignOperator') and len(ks) == 2:
            return '%s %s %s' % (t(ks[0]), nd['op'], t(ks[1]))
        if k == 'UnaryOperator' and ks:
            return (t(ks[0]) + nd['op']) if nd.get('postfix') else (nd['op'] + t(ks[0]))
        if k == 'CXXMemberCallExpr':
            return '%s(%s)' % (t(ks[0]), ', '.join(t(a) for a in ks[1:]))
        if k == 'CXXOperatorCallExpr':
            op = nd.get('op', '?')
            args = ks[1:]
            if op == '[]' and len(args) == 2:
                return '%s[%s]' % (t(args[0]), t(args[1]))
            if op == '()' and args:
                return '%s(%s)' % (t(args[0]), ', '.join(t(a) for a in args[1:]))
            if len(args) == 2:
                return '%s %s %s' % (t(args[0]), op, t(args[1]))
            if len(args) == 1:
                return '%s%s' % (op, t(args[0]))
        if k == 'CallExpr':
            return '%s(%s)' % (short(nd.get('callee') or t(ks[0])), ', '.join(t(a) for a in ks[1:]))
        if k in ('CXXConstructExpr', 'CXXTemporaryObjectExpr'):
            if len(ks) == 1 and nd.get('copymove'):
                return t(ks[0])
            return '%s{%s}' % (short(nd.get('cls', nd.get('t', ''))), ', '.join(t(a) for a in ks))
        if k == 'ConditionalOperator' and len(ks) == 3:
            return '%s ? %s : %s' % (t(ks[0]), t(ks[1]), t(ks[2]))
        if k == 'LambdaExpr':
            return '[lambda %s]' % short(nd.get('fn', ''))
        if k == 'ArraySubscriptExpr' and len(ks) == 2:
            return '%s[%s]' % (t(ks[0]), t(ks[1]))
        if k == 'ReturnStmt':
            return 'return ' + (t(ks[0]) if ks else '')
        if k == 'CXXThrowExpr':
            return 'throw ' + short(nd.get('thrown', ''))
        if k == 'InitListExpr':
            return '{%s}' % ', '.join(t(a) for a in ks)
        if k == 'VarDecl':
            return '%s %s%s' % (nd.get('ts', nd.get('t')), nd['n'], (' = ' + t(nd['init'])) if 'init' in nd else '')
        if k == 'DeclStmt':
            return '; '.join(t(a) for a in ks)
        return k

    # ---- CFG -------------------------------------------------------------------
    def blocks(self):
        if self._blocks is None:
            if not self.cfg:
                raise AnalysisBroken('no CFG for %s' % self.q)
            self._blocks = {b['id']: b for b in self.cfg['blocks']}
        return self._blocks

    def src_line(self, line):
        return source_line(self.file, line)


_SRC = {}


def source_line(path, line):
    if path not in _SRC:
        try:
            with open(path, errors='replace') as f:
                _SRC[path] = f.read().split('\n')
        except OSError:
            _SRC[path] = []
    ls = _SRC[path]
    if 1 <= line <= len(ls):
        return ls[line - 1].strip()
    return ''


def match_name(pat, name):
    if name is None:
        return False
    if isinstance(pat, str):
        return name == pat
    if isinstance(pat, (list, tuple, set, frozenset)):
        return any(match_name(p, name) for p in pat)
    return pat.search(name) is not None


class Program:
    """Facts of a set of units."""

    def __init__(self, units, repo=None):
        self.repo = repo or build.REPO
        self.unit_names = list(units)
        paths = build.extract_units(self.unit_names, repo=self.repo)
        self.units = {}
        self.fns = []
        self.by_q = {}
        self.records = {}
        self.globals = {}
        self.enums = {}
        seen = set()
        for u in self.unit_names:
            with open(paths[u]) as f:
                d = json.load(f)
            self.units[u] = d
            for fd in d['functions'] + d.get('functions2', []):
                key = (fd['q'], fd.get('sig'), fd['file'], fd['line'], fd.get('targs'))
                if key in seen:
                    continue
                seen.add(key)
                fn = Fn(fd, u)
                self.fns.append(fn)
                self.by_q.setdefault(fn.q, []).append(fn)
            for r in d['records']:
                self.records.setdefault(r['q'], r)
            for g in d['globals']:
                self.globals.setdefault(g['q'], g)
            for e in d['enums']:
                self.enums.setdefault(e['q'], e)
        self._pin_names()

    # ---- pinned names -----------------------------------------------------------------------------------------------
    # Rules name parameters and locals as the pinned tree spells them.  So that a pure rename (a behaviour-preserving edit) does
    # not disturb any rule, every function's parameters and locals are mapped BY POSITION onto the names recorded for that
    # function in props/pinned_names.json (frozen table, generated once from the pinned tree by tools/pinned_names.py); lambdas,
    # whose exported names derive from the variable they initialise, are re-keyed accordingly.  When a function's number of
    # parameters or locals differs from the table (its structure changed), or its locals carry exactly the pinned names in another
    # order (declarations moved), its names are left as they are in the source.
    _PIN_TABLE = None

    @staticmethod
    def pin_key(q, fn):
        f_ = fn.file.replace('\\', '/')
        for mark in ('/src/', '/include/'):
            if mark in f_:
                f_ = mark[1:] + f_.rsplit(mark, 1)[1]
                break
        return '%s|%d|%s%s' % (q, len(fn.params), f_, ('|' + str(fn.targs)) if fn.targs else '')

    @staticmethod
    def local_names(fn):
        """[(decl id, name)] of the locals of fn in declaration order (structured bindings included)."""
        pd = {p['d'] for p in fn.params}
        out = []
        for i in fn.walk():
            nd = fn.nodes[i]
            if nd['k'] == 'VarDecl' and nd.get('d') not in pd:
                if nd.get('n'):
                    out.append((nd['d'], nd['n']))
                for b in nd.get('bindings') or []:
                    out.append((b['d'], b['n']))
        return out

    def _inline_new_temps(self, f):
        """A local that the pinned tree does not have and that merely names a call-free value (sa.canon.temp_init: initialised
        once, never written, operands not written in its block) is substituted by its initialiser wherever it is used, in the
        syntax tree: `const bool ok = a < b; return ok;` reads as `return a < b;` to every rule."""
        kl = getattr(f, '_known_locals', None)
        if kl is None:
            return
        from .canon import temp_init
        pd = {p['d'] for p in f.params}
        news = [f.nodes[i] for i in f.walk() if f.nodes[i]['k'] == 'VarDecl' and f.nodes[i].get('n') and f.nodes[i].get('d') not in pd
                and f.nodes[i]['n'] not in kl and not f.nodes[i].get('static')]
        for vd in news:
            uses = [j for j in f.walk() if f.nodes[j]['k'] == 'DeclRefExpr' and f.nodes[j].get('d') == vd['d']]
            if not uses:
                continue
            ini = temp_init(f, vd['d'])
            if ini is None:
                # any initialiser (calls included) is transparent when the local is used exactly once, by the statement that
                # directly follows its declaration: nothing can happen in between
                ini = self._adjacent_single_use(f, vd, uses)
            if ini is None:
                continue
            pm = f.parent_map()
            for j in uses:
                p_ = pm.get(j)
                # the use is `(lvalue-to-rvalue) ref`: the initialiser (an rvalue already) replaces the cast, not just the reference
                while p_ is not None and f.nodes[p_]['k'] == 'ImplicitCastExpr' and f.nodes[p_].get('ck') in ('LValueToRValue', 'NoOp'):
                    j, p_ = p_, pm.get(p_)
                if p_ is None:
                    continue
                pn = f.nodes[p_]
                pn['c'] = [ini if c == j else c for c in pn.get('c', [])]
                for fld in ('cond', 'then', 'else', 'init', 'body', 'inc', 'range', 'var'):
                    if pn.get(fld) == j:
                        pn[fld] = ini
            f._parent = None
            f.__dict__.setdefault('_inlined_temps', []).append(vd['n'])

    @staticmethod
    def _adjacent_single_use(f, vd, uses):
        t = vd.get('t') or ''
        if len(uses) != 1 or vd.get('init') is None or vd['init'] < 0 or t.endswith('&') and not t.startswith('const ') or t.endswith('*'):
            return None
        vid = next((i for i in f.walk() if f.nodes[i] is vd), None)
        if vid is None:
            return None
        pm = f.parent_map()
        ds = pm.get(vid)
        if ds is None or f.nodes[ds]['k'] != 'DeclStmt' or len(f.kids(ds)) != 1:
            return None
        blk = pm.get(ds)
        if blk is None or f.nodes[blk]['k'] != 'CompoundStmt':
            return None
        sib = f.kids(blk)
        k = sib.index(ds)
        if k + 1 >= len(sib):
            return None
        nxt = sib[k + 1]
        if f.nodes[nxt]['k'] not in ('ReturnStmt', 'IfStmt') or not f.is_in(uses[0], nxt):
            return None
        if f.nodes[nxt]['k'] == 'IfStmt' and not f.is_in(uses[0], f.nodes[nxt]['cond']):
            return None
        return vd['init']

    CMP_OPS = {'<': '>', '>': '<', '<=': '>=', '>=': '<=', '==': '==', '!=': '!='}

    @staticmethod
    def comparisons(fn):
        """[(node id, lhs kid position, rhs kid position, op)] of the comparison expressions of fn."""
        out = []
        for i in fn.walk():
            nd = fn.nodes[i]
            if nd.get('op') not in Program.CMP_OPS:
                continue
            ks = fn.kids(i)
            if nd['k'] == 'BinaryOperator' and len(ks) == 2:
                out.append((i, 0, 1, nd['op']))
            elif nd['k'] == 'CXXOperatorCallExpr' and len(ks) == 3:
                out.append((i, 1, 2, nd['op']))
        return out

    @staticmethod
    def comparison_table(fn):
        from .canon import canon
        return [[repr(canon(fn, fn.kids(i)[a])), op, repr(canon(fn, fn.kids(i)[b]))] for i, a, b, op in Program.comparisons(fn)]

    def _pin_comparisons(self, f, ent):
        """A comparison that the pinned tree spells the other way round (`a < b` there, `b > a` here — same operands, mirrored
        operator) is turned back into the pinned orientation, so that rules written against `a < b` are not disturbed by a
        behaviour-preserving flip.  Comparisons the pinned tree does not have are left as written."""
        table = {(a, op, b) for a, op, b in ent.get('cmps', [])}
        if not table:
            return
        from .canon import canon
        for i, ia, ib, op in Program.comparisons(f):
            ks = f.kids(i)
            a, b = repr(canon(f, ks[ia])), repr(canon(f, ks[ib]))
            mop = Program.CMP_OPS[op]
            if (a, op, b) in table or (b, mop, a) not in table or a == b:
                continue
            nd = f.nodes[i]
            c = nd['c']
            pa, pb = c.index(ks[ia]), c.index(ks[ib])
            c[pa], c[pb] = c[pb], c[pa]
            nd['op'] = mop
            if nd.get('callee') and ('operator' + op) in nd['callee']:
                nd['callee'] = nd['callee'].replace('operator' + op, 'operator' + mop)
            nd['mirrored'] = True
        # C++20 rewritten comparisons: `a < b` on types with operator<=> is `(a <=> b) < 0`; its mirror is `(b <=> a) > 0`
        for i, ia, ib, op in Program.comparisons(f):
            ks = f.kids(i)
            inner = f.strip(ks[ia])
            ind = f.nodes[inner]
            if not (ind['k'] == 'CXXOperatorCallExpr' and ind.get('op') == '<=>' and len(f.kids(inner)) == 3):
                continue
            zero = repr(canon(f, ks[ib]))
            ik = f.kids(inner)
            a, b = canon(f, ik[1]), canon(f, ik[2])
            mop = Program.CMP_OPS[op]
            here = (repr(('op<=>', a, b)), op, zero)
            there = (repr(('op<=>', b, a)), mop, zero)
            if here in table or there not in table or a == b:
                continue
            c = ind['c']
            pa, pb = c.index(ik[1]), c.index(ik[2])
            c[pa], c[pb] = c[pb], c[pa]
            f.nodes[i]['op'] = mop
            f.nodes[i]['mirrored'] = True

    @staticmethod
    def ifelse_table(fn):
        from .canon import canon
        return [repr(canon(fn, nd['cond'])) for nd in (fn.nodes[i] for i in fn.walk())
                if nd['k'] == 'IfStmt' and nd.get('else') is not None and nd['else'] >= 0 and nd.get('cond') is not None and nd['cond'] >= 0]

    def _pin_ifelse(self, f, ent):
        """`if (!(c)) { B } else { A }` where the pinned tree has `if (c) { A } else { B }` (same condition, branches swapped) is
        turned back into the pinned form in the syntax tree (the CFG is left alone: its edge facts already account for `!`).
        If-else statements are matched per condition (up to negation) in source order."""
        pinned = list(ent.get('ifelse', []))
        if not pinned:
            return
        from .canon import canon

        NEG = "('u!', "

        def negs(r):
            n = 0
            while r.startswith(NEG):
                r = r[len(NEG):-1]
                n += 1
            return n, r
        cur = []
        for i in f.walk():
            nd = f.nodes[i]
            if nd['k'] == 'IfStmt' and nd.get('else') is not None and nd['else'] >= 0 and nd.get('cond') is not None and nd['cond'] >= 0:
                cur.append((i, repr(canon(f, nd['cond']))))
        groups_p, groups_c = {}, {}
        for r in pinned:
            groups_p.setdefault(negs(r)[1], []).append(r)
        for i, r in cur:
            groups_c.setdefault(negs(r)[1], []).append((i, r))
        for key, seq_c in groups_c.items():
            seq_p = groups_p.get(key)
            if not seq_p or len(seq_p) != len(seq_c):
                continue
            for (i, r), want in zip(seq_c, seq_p):
                nc, np_ = negs(r)[0], negs(want)[0]
                if nc <= np_:
                    continue
                nd = f.nodes[i]
                c0 = nd['cond']
                x = c0
                strip = nc - np_
                ok = True
                while strip > 0:
                    while f.nodes[x]['k'] in ('ParenExpr', 'ImplicitCastExpr', 'ExprWithCleanups') and f.kids(x):
                        x = f.kids(x)[0]
                    xn = f.nodes[x]
                    if not (xn['k'] == 'UnaryOperator' and xn.get('op') == '!' and f.kids(x)):
                        ok = False
                        break
                    x = f.kids(x)[0]
                    strip -= 1
                if not ok:
                    continue
                # the child list is left as it is (the `!(...)` node stays the syntactic child, so parent links and the CFG's
                # reference to it remain valid); only the named roles change
                nd['cond'] = x
                if (nc - np_) % 2 == 1:
                    # only the roles are exchanged: the child list keeps source order (walk order = source order)
                    nd['then'], nd['else'] = nd['else'], nd['then']
                nd['inverted'] = True
                f._parent = None

    def _pin_names(self):
        if Program._PIN_TABLE is None:
            path = os.path.join(build.VERIF, 'props', 'pinned_names.json')
            Program._PIN_TABLE = json.load(open(path)) if os.path.exists(path) else {}
        table = Program._PIN_TABLE
        if not table or os.environ.get('VERIF_NO_PIN'):
            return
        ren = {}            # unit -> {decl id: pinned name}
        qmap = {}           # exported lambda name -> pinned lambda name
        for f in sorted(self.fns, key=lambda f_: f_.q.count('::$')):
            newq = f.q
            for old, new in sorted(qmap.items(), key=lambda kv: -len(kv[0])):
                if newq == old or newq.startswith(old + '::'):
                    newq = new + newq[len(old):]
                    break
            ent = table.get(Program.pin_key(newq, f))
            r = ren.setdefault(f.unit, {})
            if ent is not None and not ent.get('ambiguous'):
                f._pin_ent = ent
                f._known_locals = set(ent['locals']) | set(ent['params'])
                if len(ent['params']) == len(f.params):
                    for p_, want in zip(f.params, ent['params']):
                        if p_.get('n'):
                            r[p_['d']] = want
                loc = Program.local_names(f)
                # same names in another order = declarations were moved, not renamed: the source names already are the pinned ones
                if len(loc) == len(ent['locals']) and sorted(n_ for _d, n_ in loc) != sorted(ent['locals']):
                    for (d_, _n), want in zip(loc, ent['locals']):
                        r[d_] = want
            # lambdas initialising a (possibly renamed) local are exported as <function>::$<local>
            for i in f.walk():
                nd = f.nodes[i]
                if nd['k'] == 'VarDecl' and nd.get('init') is not None and nd['init'] >= 0 and nd.get('n'):
                    ini = f.strip(nd['init'])
                    if f.nodes[ini]['k'] == 'LambdaExpr' and f.nodes[ini].get('fn'):
                        oldq = f.nodes[ini]['fn']
                        want = newq + '::$' + r.get(nd['d'], nd['n'])
                        if oldq.rsplit('::$', 1)[-1] == nd['n'] and oldq != want:
                            qmap[oldq] = want
            if newq != f.q:
                qmap[f.q] = newq
        changed = False
        for f in self.fns:
            r = ren.get(f.unit, {})
            for p_ in f.params:
                if p_.get('d') in r and p_.get('n') != r[p_['d']]:
                    p_['n'] = r[p_['d']]
                    changed = True
            for nd in f.nodes:
                d_ = nd.get('d')
                if d_ in r and nd['k'] in ('VarDecl', 'DeclRefExpr', 'CXXCatchStmt') and nd.get('n') is not None and not nd.get('g') and nd.get('dk') not in ('Function', 'CXXMethod', 'EnumConstant', 'Field'):
                    if nd['n'] != r[d_]:
                        nd['n'] = r[d_]
                        changed = True
                for b in nd.get('bindings') or []:
                    if b.get('d') in r:
                        b['n'] = r[b['d']]
                for c_ in nd.get('caps') or []:
                    if isinstance(c_, dict) and c_.get('d') in r:
                        c_['n'] = r[c_['d']]
        if qmap:
            def rq(x):
                if not isinstance(x, str):
                    return x
                for old, new in sorted(qmap.items(), key=lambda kv: -len(kv[0])):
                    if x == old or x.startswith(old + '::'):
                        return new + x[len(old):]
                return x
            for f in self.fns:
                f.q = rq(f.q)
                f.d['q'] = f.q
                if f.parent_fn:
                    f.parent_fn = rq(f.parent_fn)
                for nd in f.nodes:
                    for fld in ('fn', 'callee', 'q'):
                        if fld in nd:
                            nd[fld] = rq(nd[fld])
            self.by_q = {}
            for f in self.fns:
                self.by_q.setdefault(f.q, []).append(f)
        self.pinned_renames = sum(len(v) for v in ren.values()) if changed or qmap else 0
        for f in self.fns:
            ent = getattr(f, '_pin_ent', None)
            if ent is not None:
                self._inline_new_temps(f)
                self._pin_comparisons(f, ent)
                self._pin_ifelse(f, ent)

    def fn(self, q, nparams=None, unit=None, optional=False):
        """The unique function with this qualified name (AnalysisBroken if the anchor vanished)."""
        c = self.by_q.get(q, [])
        if nparams is not None:
            c = [f for f in c if len(f.params) == nparams]
        if unit is not None:
            c = [f for f in c if f.unit == unit or f.file.endswith(unit)]
        if not c:
            if optional:
                return None
            raise AnalysisBroken('anchor function not found: %s' % q)
        if len(c) > 1:
            # template instantiations of one definition: callers that care use fns()
            files = {(f.file, f.line) for f in c}
            if len(files) > 1:
                raise AnalysisBroken('anchor function ambiguous: %s (%d definitions)' % (q, len(files)))
        return c[0]

    def fns_named(self, q):
        return list(self.by_q.get(q, []))

    def fns_matching(self, pat):
        return [f for f in self.fns if match_name(pat, f.q)]

    def lambdas_of(self, q):
        return [f for f in self.fns if f.parent_fn == q]

    def with_lambdas(self, fn):
        """fn plus all lambdas nested (transitively) in it."""
        out = [fn]
        i = 0
        while i < len(out):
            out.extend(self.lambdas_of(out[i].q))
            i += 1
        return out

    def record(self, q):
        r = self.records.get(q)
        if r is None:
            raise AnalysisBroken('anchor record not found: %s' % q)
        return r

    def global_(self, q):
        g = self.globals.get(q)
        if g is None:
            raise AnalysisBroken('anchor constant not found: %s' % q)
        return g

    def global_const(self, q):
        """Integer value of a namespace-scope constant."""
        g = self.global_(q)
        i = g.get('init', -1)
        if i is None or i < 0:
            raise AnalysisBroken('constant %s has no initialiser' % q)
        nodes = g['nodes']
        j = i
        while True:
            nd = nodes[j]
            if 'cv' in nd:
                return int(nd['cv'])
            ks = [c for c in nd.get('c', []) if c is not None and c >= 0]
            if len(ks) != 1:
                raise AnalysisBroken('constant %s is not an integer constant expression' % q)
            j = ks[0]
